/*
 * leafdrv — line-protocol driver around leaf functions of asn1c's skeletons.
 * One command per input line, one canonical result per output line; the same
 * protocol is spoken by ocaml/modeldrv (the extracted Coq model), and the two
 * outputs are diffed by bin/vcheck.
 *
 * Buffers handed to the library are malloc'ed with their exact size so that
 * ASan sees any out-of-bounds access.
 */
#define _GNU_SOURCE
#include <stdio.h>
#include <stdlib.h>
#include <string.h>
#include <errno.h>
#include <inttypes.h>
#include <limits.h>
#include <math.h>
#include <time.h>

#include <asn_application.h>
#include <asn_internal.h>
#include <INTEGER.h>
#include <REAL.h>
#include <OBJECT_IDENTIFIER.h>
#include <RELATIVE-OID.h>
#include <GeneralizedTime.h>
#include <UTCTime.h>
#include <ber_tlv_tag.h>
#include <ber_tlv_length.h>
#include <per_support.h>
#include <oer_support.h>

#define MAXTOK 64
static char *tok[MAXTOK];
static int ntok;

static void split(char *line) {
    ntok = 0;
    char *save = 0;
    for(char *t = strtok_r(line, " \t\r\n", &save); t && ntok < MAXTOK;
        t = strtok_r(0, " \t\r\n", &save))
        tok[ntok++] = t;
}

/* hex ("-" = empty) -> malloc'ed exact-size buffer (size 0 -> malloc(1) but size 0) */
static uint8_t *unhex(const char *h, size_t *len) {
    if(h[0] == '-' && h[1] == 0) { *len = 0; return malloc(1); }
    size_t n = strlen(h) / 2;
    uint8_t *b = malloc(n ? n : 1);
    for(size_t i = 0; i < n; i++) {
        unsigned v;
        sscanf(h + 2 * i, "%2x", &v);
        b[i] = (uint8_t)v;
    }
    *len = n;
    return b;
}

static void puthex(const uint8_t *b, size_t n) {
    if(n == 0) { printf("-"); return; }
    for(size_t i = 0; i < n; i++) printf("%02x", b[i]);
}

static const char *errname(int e) {
    switch(e) {
    case ERANGE: return "ERANGE";
    case EINVAL: return "EINVAL";
    case EIO: return "EIO";
    case ENOMEM: return "ENOMEM";
    case 0: return "E0";
    default: return "EOTHER";
    }
}

/* ------------------------------------------------------------------ C16 */

static void cmd_x2I(void) {
    INTEGER_t st;
    memset(&st, 0, sizeof(st));
    int r;
    const char *c = tok[0];
    errno = 0;
    if(!strcmp(c, "imax2I")) r = asn_imax2INTEGER(&st, strtoimax(tok[1], 0, 10));
    else if(!strcmp(c, "long2I")) r = asn_long2INTEGER(&st, strtol(tok[1], 0, 10));
    else if(!strcmp(c, "umax2I")) r = asn_umax2INTEGER(&st, strtoumax(tok[1], 0, 10));
    else r = asn_ulong2INTEGER(&st, strtoul(tok[1], 0, 10));
    if(r) printf("FAIL\n");
    else { puthex(st.buf, st.size); printf("\n"); }
    free(st.buf);
}

static void cmd_I2x(void) {
    INTEGER_t st;
    memset(&st, 0, sizeof(st));
    size_t n;
    st.buf = unhex(tok[1], &n);
    st.size = n;
    const char *c = tok[0];
    int r;
    errno = 0;
    if(!strcmp(c, "I2imax")) {
        intmax_t v = 0; r = asn_INTEGER2imax(&st, &v);
        if(!r) printf("OK %jd\n", v);
    } else if(!strcmp(c, "I2long")) {
        long v = 0; r = asn_INTEGER2long(&st, &v);
        if(!r) printf("OK %ld\n", v);
    } else if(!strcmp(c, "I2umax")) {
        uintmax_t v = 0; r = asn_INTEGER2umax(&st, &v);
        if(!r) printf("OK %ju\n", v);
    } else {
        unsigned long v = 0; r = asn_INTEGER2ulong(&st, &v);
        if(!r) printf("OK %lu\n", v);
    }
    if(r) printf("%s\n", errname(errno));
    free(st.buf);
}

static const char *strtox_name(enum asn_strtox_result_e r) {
    switch(r) {
    case ASN_STRTOX_ERROR_RANGE: return "RANGE";
    case ASN_STRTOX_ERROR_INVAL: return "INVAL";
    case ASN_STRTOX_EXPECT_MORE: return "MORE";
    case ASN_STRTOX_OK: return "OK";
    case ASN_STRTOX_EXTRA_DATA: return "EXTRA";
    }
    return "?";
}

static void cmd_strtox(void) {
    size_t n;
    uint8_t *b = unhex(tok[1], &n);
    const char *str = (const char *)b;
    const char *end = str + n;
    const char *c = tok[0];
    enum asn_strtox_result_e r;
    int is_signed = 0;
    intmax_t sv = 0; uintmax_t uv = 0;
    if(!strcmp(c, "strtoimax")) { is_signed = 1; r = asn_strtoimax_lim(str, &end, &sv); }
    else if(!strcmp(c, "strtol")) { long l = 0; is_signed = 1; r = asn_strtol_lim(str, &end, &l); sv = l; }
    else if(!strcmp(c, "strtoumax")) { r = asn_strtoumax_lim(str, &end, &uv); }
    else { unsigned long l = 0; r = asn_strtoul_lim(str, &end, &l); uv = l; }
    printf("%s", strtox_name(r));
    if(r != ASN_STRTOX_ERROR_INVAL) printf(" %ld", (long)(end - str));
    if(r == ASN_STRTOX_OK || r == ASN_STRTOX_EXTRA_DATA) {
        if(is_signed) printf(" %jd", sv); else printf(" %ju", uv);
    }
    printf("\n");
    free(b);
}

#include "leafdrv_more.inc"

/* ------------------------------------------------------------------ */

struct cmd { const char *name; void (*fn)(void); int minargs; };
static const struct cmd cmds[] = {
    {"imax2I", cmd_x2I, 1}, {"long2I", cmd_x2I, 1}, {"umax2I", cmd_x2I, 1}, {"ulong2I", cmd_x2I, 1},
    {"I2imax", cmd_I2x, 1}, {"I2long", cmd_I2x, 1}, {"I2umax", cmd_I2x, 1}, {"I2ulong", cmd_I2x, 1},
    {"strtoimax", cmd_strtox, 1}, {"strtol", cmd_strtox, 1},
    {"strtoumax", cmd_strtox, 1}, {"strtoul", cmd_strtox, 1},
    MORE_CMDS
    {0, 0, 0}
};

int main(void) {
    char *line = 0;
    size_t cap = 0;
    setvbuf(stdout, 0, _IOFBF, 1 << 16);
    while(getline(&line, &cap, stdin) > 0) {
        split(line);
        if(ntok == 0) { printf("\n"); continue; }
        const struct cmd *c;
        for(c = cmds; c->name; c++)
            if(!strcmp(c->name, tok[0])) break;
        if(!c->name || ntok - 1 < c->minargs) { printf("BADCMD\n"); continue; }
        c->fn();
    }
    free(line);
    return 0;
}
