/*
 * leafdrv — line-protocol driver around leaf functions of asn1c's skeletons.
 * One command per input line, one canonical result per output line; the same
 * protocol is spoken by ocaml/modeldrv (the extracted Coq model), and the two
 * outputs are diffed by bin/vcheck.
 *
 * Buffers handed to the library are malloc'ed with their exact size so that
 * ASan sees any out-of-bounds access.
 */
#define _GNU_SOURCE
#include <stdio.h>
#include <stdlib.h>
#include <string.h>
#include <errno.h>
#include <inttypes.h>
#include <limits.h>
#include <math.h>
#include <time.h>

#include <asn_application.h>
#include <asn_internal.h>
#include <INTEGER.h>
#include <REAL.h>
#include <OBJECT_IDENTIFIER.h>
#include <RELATIVE-OID.h>
#include <GeneralizedTime.h>
#include <UTCTime.h>
#include <ber_tlv_tag.h>
#include <ber_tlv_length.h>
#include <per_support.h>
#include <oer_support.h>

#define MAXTOK 64
static char *tok[MAXTOK];
static int ntok;

static void split(char *line) {
    ntok = 0;
    char *save = 0;
    for(char *t = strtok_r(line, " \t\r\n", &save); t && ntok < MAXTOK;
        t = strtok_r(0, " \t\r\n", &save))
        tok[ntok++] = t;
}

/* hex ("-" = empty) -> malloc'ed exact-size buffer (size 0 -> malloc(1) but size 0) */
static uint8_t *unhex(const char *h, size_t *len) {
    if(h[0] == '-' && h[1] == 0) { *len = 0; return malloc(1); }
    size_t n = strlen(h) / 2;
    uint8_t *b = malloc(n ? n : 1);
    for(size_t i = 0; i < n; i++) {
        unsigned v;
        sscanf(h + 2 * i, "%2x", &v);
        b[i] = (uint8_t)v;
    }
    *len = n;
    return b;
}

static void puthex(const uint8_t *b, size_t n) {
    if(n == 0) { printf("-"); return; }
    for(size_t i = 0; i < n; i++) printf("%02x", b[i]);
}

static const char *errname(int e) {
    switch(e) {
    case ERANGE: return "ERANGE";
    case EINVAL: return "EINVAL";
    case EIO: return "EIO";
    case ENOMEM: return "ENOMEM";
    case 0: return "E0";
    default: return "EOTHER";
    }
}

struct cmd { const char *name; void (*fn)(void); int minargs; };

/* generated at build time: #include of every harness/leafdrv_*.inc and
 * #define MORE_CMDS as the concatenation of their CMDS_* macros */
#include "leafdrv_more.inc"

/* ------------------------------------------------------------------ */

static const struct cmd cmds[] = {
    MORE_CMDS
    {0, 0, 0}
};

int main(void) {
    char *line = 0;
    size_t cap = 0;
    setvbuf(stdout, 0, _IOFBF, 1 << 16);
    while(getline(&line, &cap, stdin) > 0) {
        split(line);
        if(ntok == 0) { printf("\n"); continue; }
        const struct cmd *c;
        for(c = cmds; c->name; c++)
            if(!strcmp(c->name, tok[0])) break;
        if(!c->name || ntok - 1 < c->minargs) { printf("BADCMD\n"); continue; }
        c->fn();
    }
    free(line);
    return 0;
}
