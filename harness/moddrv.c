/*
 * moddrv — generic line-protocol driver linked with the code asn1c generated
 * for one module (plus pdu_table.c written by the check: name -> descriptor).
 *
 *   dec    <Type> <syn> <hex>                 one-shot decode
 *       -> <RC> <consumed> <der-of-result | ->  [ck=<0|-1>]
 *   xcode  <Type> <insyn> <hex> <outsyn>      decode (must be RC_OK, all consumed), encode
 *       -> OK <hex> | DECFAIL <RC> <consumed> | ENCFAIL <errno>
 *   chk    <Type> <insyn> <hex> <errbufsize>  decode, asn_check_constraints
 *       -> <ret> <errlen> <nul_ok> <hex of message>
 *   chunk  <Type> <syn> <hex> <c1,c2,...>     restartable decode, chunk sizes given
 *       -> <RC> <total consumed> <der-of-result | -> steps=<n>
 *   cbfail <Type> <insyn> <hex> <outsyn> <k>  encode with the output callback failing at invocation k (k<0: never)
 *       -> ret=<encoded> errno=<E> calls=<n> bytes=<delivered> [hex of delivered when k<0]
 *   tobuf  <Type> <insyn> <hex> <outsyn> <bufsize>   asn_encode_to_buffer into an exact-size malloc
 *       -> ret=<encoded> errno=<E> hex=<buffer prefix min(ret,bufsize)>
 *   newbuf <Type> <insyn> <hex> <outsyn>      asn_encode_to_new_buffer
 *       -> ret=<encoded> buf=<hex|NULL> errno=<E>
 *   cmp    <Type> <syn1> <hex1> <syn2> <hex2> decode both, compare_struct
 *       -> <cmp result -1/0/1> | DECFAIL
 *   rfill  <Type> <seed> <maxlen>              asn_random_fill (srandom(seed)) -> OK <der> ck=<0|-1> | FAIL
 *   rt     <Type> <insyn> <hex>                round-trip battery on the C alone, all five syntaxes
 *       -> <syn>=<OK|ENCFAIL:errno|DEC:<RC>:<consumed>/<produced>|NEQ|CMP> ...
 *   types                                     list PDU names
 * syn: ber der uper cper oer coer xer cxer (decoders ignore the canonical distinction)
 * After every decode, whatever its outcome, the structure is printed (to
 * /dev/null), constraint-checked and freed: C04's "usable result".
 */
#define _GNU_SOURCE
#include <stdio.h>
#include <stdlib.h>
#include <string.h>
#include <errno.h>
#include <inttypes.h>

#include <asn_application.h>
#include <asn_internal.h>
#include <asn_random_fill.h>

struct pdu_ent { const char *name; asn_TYPE_descriptor_t *td; };
extern struct pdu_ent pdu_table[];

#define MAXTOK 16
static char *tok[MAXTOK];
static int ntok;
static FILE *devnull;

static void split(char *line) {
    ntok = 0;
    char *save = 0;
    for(char *t = strtok_r(line, " \t\r\n", &save); t && ntok < MAXTOK;
        t = strtok_r(0, " \t\r\n", &save))
        tok[ntok++] = t;
}

static uint8_t *unhex(const char *h, size_t *len) {
    if(h[0] == '-' && h[1] == 0) { *len = 0; return malloc(1); }
    size_t n = strlen(h) / 2;
    uint8_t *b = malloc(n ? n : 1);
    for(size_t i = 0; i < n; i++) {
        unsigned v; sscanf(h + 2 * i, "%2x", &v); b[i] = (uint8_t)v;
    }
    *len = n;
    return b;
}
static void puthex(const uint8_t *b, size_t n) {
    if(n == 0) { printf("-"); return; }
    for(size_t i = 0; i < n; i++) printf("%02x", b[i]);
}
static const char *errname(int e) {
    switch(e) {
    case ERANGE: return "ERANGE"; case EINVAL: return "EINVAL"; case EIO: return "EIO";
    case ENOMEM: return "ENOMEM"; case EBADF: return "EBADF"; case ENOENT: return "ENOENT";
    case EPERM: return "EPERM"; case 0: return "E0"; default: return "EOTHER";
    }
}
static const char *rcname(enum asn_dec_rval_code_e c) {
    return c == RC_OK ? "OK" : c == RC_WMORE ? "MORE" : c == RC_FAIL ? "FAIL" : "RC?";
}
static asn_TYPE_descriptor_t *find_type(const char *n) {
    for(struct pdu_ent *p = pdu_table; p->name; p++)
        if(!strcmp(p->name, n)) return p->td;
    return 0;
}
static int syntax(const char *s, enum asn_transfer_syntax *dec, enum asn_transfer_syntax *enc) {
    if(!strcmp(s, "ber") || !strcmp(s, "der")) { *dec = ATS_BER; *enc = ATS_DER; }
    else if(!strcmp(s, "uper")) { *dec = ATS_UNALIGNED_BASIC_PER; *enc = ATS_UNALIGNED_BASIC_PER; }
    else if(!strcmp(s, "cper")) { *dec = ATS_UNALIGNED_BASIC_PER; *enc = ATS_UNALIGNED_CANONICAL_PER; }
    else if(!strcmp(s, "oer")) { *dec = ATS_BASIC_OER; *enc = ATS_BASIC_OER; }
    else if(!strcmp(s, "coer")) { *dec = ATS_BASIC_OER; *enc = ATS_CANONICAL_OER; }
    else if(!strcmp(s, "xer")) { *dec = ATS_BASIC_XER; *enc = ATS_BASIC_XER; }
    else if(!strcmp(s, "cxer")) { *dec = ATS_BASIC_XER; *enc = ATS_CANONICAL_XER; }
    else return -1;
    return 0;
}

/* exercise the structure the way C04 demands, then free it */
static int use_and_free(asn_TYPE_descriptor_t *td, void *st) {
    int ck = 1;
    if(st) {
        asn_fprint(devnull, td, st);
        char eb[128]; size_t el = sizeof(eb);
        ck = asn_check_constraints(td, st, eb, &el);
        ASN_STRUCT_FREE(*td, st);
    }
    return ck;
}

static void print_der_of(asn_TYPE_descriptor_t *td, void *st) {
    asn_encode_to_new_buffer_result_t r = asn_encode_to_new_buffer(0, ATS_DER, td, st);
    if(r.buffer && r.result.encoded >= 0) { puthex(r.buffer, r.result.encoded); }
    else printf("ENCFAIL");
    free(r.buffer);
}

static void cmd_dec(void) {
    asn_TYPE_descriptor_t *td = find_type(tok[1]);
    enum asn_transfer_syntax ds, es;
    if(!td || syntax(tok[2], &ds, &es)) { printf("BADARG\n"); return; }
    size_t n; uint8_t *b = unhex(tok[3], &n);
    void *st = 0;
    asn_dec_rval_t rv = asn_decode(0, ds, td, &st, b, n);
    printf("%s %zu ", rcname(rv.code), rv.consumed);
    if(rv.code == RC_OK && st) print_der_of(td, st); else printf("-");
    int ck = use_and_free(td, st);
    printf(" ck=%d\n", ck);
    free(b);
}

/* decode input that is expected to be a complete valid encoding */
static void *decode_full(asn_TYPE_descriptor_t *td, enum asn_transfer_syntax ds, const char *hex) {
    size_t n; uint8_t *b = unhex(hex, &n);
    void *st = 0;
    asn_dec_rval_t rv = asn_decode(0, ds, td, &st, b, n);
    /* BASIC-XER output ends with a newline the decoder leaves alone (reported by `rt`
     * as finding C01-xer-trailing-newline); as an *input* transport it is accepted */
    int xer_nl = (ds == ATS_BASIC_XER && rv.code == RC_OK && n > 0 && rv.consumed + 1 == n && b[n - 1] == '\n');
    free(b);
    if(rv.code != RC_OK || (rv.consumed != n && !xer_nl)) {
        printf("DECFAIL %s %zu\n", rcname(rv.code), rv.consumed);
        if(st) ASN_STRUCT_FREE(*td, st);
        return 0;
    }
    return st;
}

static void cmd_xcode(void) {
    asn_TYPE_descriptor_t *td = find_type(tok[1]);
    enum asn_transfer_syntax ds, es, ds2, es2;
    if(!td || syntax(tok[2], &ds, &es) || syntax(tok[4], &ds2, &es2)) { printf("BADARG\n"); return; }
    void *st = decode_full(td, ds, tok[3]);
    if(!st) return;
    errno = 0;
    asn_encode_to_new_buffer_result_t r = asn_encode_to_new_buffer(0, es2, td, st);
    if(r.buffer && r.result.encoded >= 0) { printf("OK "); puthex(r.buffer, r.result.encoded); printf("\n"); }
    else printf("ENCFAIL %s\n", errname(errno));
    free(r.buffer);
    ASN_STRUCT_FREE(*td, st);
}

static void cmd_chk(void) {
    asn_TYPE_descriptor_t *td = find_type(tok[1]);
    enum asn_transfer_syntax ds, es;
    if(!td || syntax(tok[2], &ds, &es)) { printf("BADARG\n"); return; }
    void *st = decode_full(td, ds, tok[3]);
    if(!st) return;
    size_t cap = (size_t)atoi(tok[4]);
    char *eb = malloc(cap ? cap : 1);
    memset(eb, 0x7e, cap ? cap : 1);
    size_t el = cap;
    int ret = asn_check_constraints(td, st, cap ? eb : 0, cap ? &el : 0);
    int nul_ok = 1;
    if(ret && cap) nul_ok = (el < cap && eb[el] == 0) && memchr(eb, 0, cap) != 0;
    printf("%d %zu %d ", ret, (ret && cap) ? el : 0, nul_ok);
    if(ret && cap) puthex((uint8_t *)eb, strnlen(eb, cap)); else printf("-");
    printf("\n");
    free(eb);
    ASN_STRUCT_FREE(*td, st);
}

static void cmd_chunk(void) {
    asn_TYPE_descriptor_t *td = find_type(tok[1]);
    enum asn_transfer_syntax ds, es;
    if(!td || syntax(tok[2], &ds, &es)) { printf("BADARG\n"); return; }
    size_t n; uint8_t *all = unhex(tok[3], &n);
    /* chunk sizes: comma separated; after they run out the rest is given at once */
    size_t sizes[256]; int ns = 0;
    for(char *p = tok[4]; *p && ns < 256;) { sizes[ns++] = strtoul(p, &p, 10); if(*p == ',') p++; }
    void *st = 0;
    asn_codec_ctx_t *ctx = 0;
    size_t avail_end = 0, start = 0, total = 0;
    int step = 0, si = 0;
    asn_dec_rval_t rv; rv.code = RC_WMORE; rv.consumed = 0;
    for(;;) {
        /* make more bytes available */
        size_t add = (si < ns) ? sizes[si++] : (n - avail_end);
        if(add > n - avail_end) add = n - avail_end;
        avail_end += add;
        /* present exactly the unconsumed bytes [start, avail_end) in a fresh exact-size buffer */
        size_t len = avail_end - start;
        uint8_t *win = malloc(len ? len : 1);
        memcpy(win, all + start, len);
        rv = asn_decode(ctx, ds, td, &st, win, len);
        free(win);
        step++;
        if(rv.consumed > len) { printf("OVERCONSUME %zu>%zu\n", rv.consumed, len); goto out; }
        start += rv.consumed; total += rv.consumed;
        if(rv.code != RC_WMORE) break;
        if(avail_end == n) break;       /* starved for good */
        if(step > 100000) break;
    }
    printf("%s %zu ", rcname(rv.code), total);
    if(rv.code == RC_OK && st) print_der_of(td, st); else printf("-");
    printf(" steps=%d\n", step);
out:
    use_and_free(td, st);
    free(all);
}

struct cbstate { long k; long calls; size_t bytes; uint8_t *acc; size_t cap; };
static int failing_cb(const void *buf, size_t size, void *key) {
    struct cbstate *s = key;
    if(s->k >= 0 && s->calls == s->k) { s->calls++; return -1; }
    s->calls++;
    if(s->bytes + size > s->cap) { s->cap = (s->bytes + size) * 2 + 64; s->acc = realloc(s->acc, s->cap); }
    memcpy(s->acc + s->bytes, buf, size);
    s->bytes += size;
    return 0;
}

static void cmd_cbfail(void) {
    asn_TYPE_descriptor_t *td = find_type(tok[1]);
    enum asn_transfer_syntax ds, es, ds2, es2;
    if(!td || syntax(tok[2], &ds, &es) || syntax(tok[4], &ds2, &es2)) { printf("BADARG\n"); return; }
    void *st = decode_full(td, ds, tok[3]);
    if(!st) return;
    struct cbstate s = { atol(tok[5]), 0, 0, 0, 0 };
    errno = 0;
    asn_enc_rval_t er = asn_encode(0, es2, td, st, failing_cb, &s);
    int e = errno;
    printf("ret=%zd errno=%s calls=%ld bytes=%zu", er.encoded, er.encoded < 0 ? errname(e) : "E0", s.calls, s.bytes);
    if(s.k < 0) { printf(" hex="); puthex(s.acc, s.bytes); }
    printf("\n");
    free(s.acc);
    ASN_STRUCT_FREE(*td, st);
}

static void cmd_tobuf(void) {
    asn_TYPE_descriptor_t *td = find_type(tok[1]);
    enum asn_transfer_syntax ds, es, ds2, es2;
    if(!td || syntax(tok[2], &ds, &es) || syntax(tok[4], &ds2, &es2)) { printf("BADARG\n"); return; }
    void *st = decode_full(td, ds, tok[3]);
    if(!st) return;
    size_t cap = strtoul(tok[5], 0, 10);
    uint8_t *buf = malloc(cap ? cap : 1);     /* exact size: ASan guards the end */
    memset(buf, 0xa5, cap ? cap : 1);
    errno = 0;
    asn_enc_rval_t er = asn_encode_to_buffer(0, es2, td, st, cap ? buf : 0, cap);
    int e = errno;
    printf("ret=%zd errno=%s hex=", er.encoded, er.encoded < 0 ? errname(e) : "E0");
    size_t show = er.encoded < 0 ? 0 : ((size_t)er.encoded < cap ? (size_t)er.encoded : cap);
    puthex(buf, show);
    printf("\n");
    free(buf);
    ASN_STRUCT_FREE(*td, st);
}

static void cmd_newbuf(void) {
    asn_TYPE_descriptor_t *td = find_type(tok[1]);
    enum asn_transfer_syntax ds, es, ds2, es2;
    if(!td || syntax(tok[2], &ds, &es) || syntax(tok[4], &ds2, &es2)) { printf("BADARG\n"); return; }
    void *st = decode_full(td, ds, tok[3]);
    if(!st) return;
    errno = 0;
    asn_encode_to_new_buffer_result_t r = asn_encode_to_new_buffer(0, es2, td, st);
    int e = errno;
    printf("ret=%zd buf=", r.result.encoded);
    if(r.buffer) puthex(r.buffer, r.result.encoded >= 0 ? (size_t)r.result.encoded : 0); else printf("NULL");
    printf(" errno=%s\n", r.result.encoded < 0 ? errname(e) : "E0");
    free(r.buffer);
    ASN_STRUCT_FREE(*td, st);
}

static void cmd_cmp(void) {
    asn_TYPE_descriptor_t *td = find_type(tok[1]);
    enum asn_transfer_syntax d1, e1, d2, e2;
    if(!td || syntax(tok[2], &d1, &e1) || syntax(tok[4], &d2, &e2)) { printf("BADARG\n"); return; }
    void *a = decode_full(td, d1, tok[3]);
    if(!a) return;
    void *b = decode_full(td, d2, tok[5]);
    if(!b) { ASN_STRUCT_FREE(*td, a); return; }
    int c = td->op->compare_struct(td, a, b);
    printf("%d\n", c < 0 ? -1 : c > 0 ? 1 : 0);
    ASN_STRUCT_FREE(*td, a);
    ASN_STRUCT_FREE(*td, b);
}

static void cmd_rfill(void) {
    asn_TYPE_descriptor_t *td = find_type(tok[1]);
    if(!td) { printf("BADARG\n"); return; }
    srandom((unsigned)strtoul(tok[2], 0, 10));
    void *st = 0;
    if(asn_random_fill(td, &st, strtoul(tok[3], 0, 10)) != 0 || !st) {
        printf("FAIL\n");
        if(st) ASN_STRUCT_FREE(*td, st);
        return;
    }
    char eb[128]; size_t el = sizeof(eb);
    int ck = asn_check_constraints(td, st, eb, &el);
    printf("OK "); print_der_of(td, st); printf(" ck=%d\n", ck);
    ASN_STRUCT_FREE(*td, st);
}

/* C01 evaluated on the implementation alone: encode with each syntax, decode
 * the produced bytes, demand RC_OK, consumed == produced (BASIC-XER: the
 * trailing newline may stay), equal DER re-encoding and compare_struct == 0 */
static void cmd_rt(void) {
    asn_TYPE_descriptor_t *td = find_type(tok[1]);
    enum asn_transfer_syntax ds, es;
    if(!td || syntax(tok[2], &ds, &es)) { printf("BADARG\n"); return; }
    void *st = decode_full(td, ds, tok[3]);
    if(!st) return;
    asn_encode_to_new_buffer_result_t ref = asn_encode_to_new_buffer(0, ATS_DER, td, st);
    static const char *syns[] = {"der", "cper", "coer", "xer", "cxer", 0};
    for(int i = 0; syns[i]; i++) {
        enum asn_transfer_syntax d2, e2;
        syntax(syns[i], &d2, &e2);
        errno = 0;
        asn_encode_to_new_buffer_result_t r = asn_encode_to_new_buffer(0, e2, td, st);
        if(!r.buffer || r.result.encoded < 0) { printf("%s=ENCFAIL:%s ", syns[i], errname(errno)); free(r.buffer); continue; }
        void *st2 = 0;
        asn_dec_rval_t rv = asn_decode(0, d2, td, &st2, r.buffer, r.result.encoded);
        if(rv.code != RC_OK || rv.consumed != (size_t)r.result.encoded) {
            printf("%s=DEC:%s:%zu/%zd ", syns[i], rcname(rv.code), rv.consumed, r.result.encoded);
        } else {
            asn_encode_to_new_buffer_result_t r2 = asn_encode_to_new_buffer(0, ATS_DER, td, st2);
            int same = ref.buffer && r2.buffer && ref.result.encoded == r2.result.encoded
                       && memcmp(ref.buffer, r2.buffer, ref.result.encoded) == 0;
            int c = td->op->compare_struct(td, st, st2);
            printf("%s=%s ", syns[i], !same ? "NEQ" : c ? "CMP" : "OK");
            free(r2.buffer);
        }
        if(st2) ASN_STRUCT_FREE(*td, st2);
        free(r.buffer);
    }
    printf("\n");
    free(ref.buffer);
    ASN_STRUCT_FREE(*td, st);
}

static void cmd_types(void) {
    for(struct pdu_ent *p = pdu_table; p->name; p++) printf("%s ", p->name);
    printf("\n");
}

#ifdef MODDRV_EXTRA
#include MODDRV_EXTRA
#else
#define EXTRA_CMDS
#endif

struct cmd { const char *name; void (*fn)(void); int minargs; };
static const struct cmd cmds[] = {
    {"dec", cmd_dec, 3}, {"xcode", cmd_xcode, 4}, {"chk", cmd_chk, 4}, {"chunk", cmd_chunk, 4},
    {"cbfail", cmd_cbfail, 5}, {"tobuf", cmd_tobuf, 5}, {"newbuf", cmd_newbuf, 4}, {"cmp", cmd_cmp, 5},
    {"rfill", cmd_rfill, 3}, {"rt", cmd_rt, 3},
    {"types", cmd_types, 0},
    EXTRA_CMDS
    {0, 0, 0}
};

int main(void) {
    char *line = 0; size_t cap = 0;
    setvbuf(stdout, 0, _IOLBF, 1 << 16);
    devnull = fopen("/dev/null", "w");
    while(getline(&line, &cap, stdin) > 0) {
        split(line);
        if(ntok == 0) { printf("\n"); continue; }
        const struct cmd *c;
        for(c = cmds; c->name; c++) if(!strcmp(c->name, tok[0])) break;
        if(!c->name || ntok - 1 < c->minargs) { printf("BADCMD\n"); continue; }
        c->fn();
        fflush(stdout);
    }
    free(line);
    fclose(devnull);
    return 0;
}
