/* thr.c — C19 demonstration search: N threads, each running a deterministic
 * script of decode / encode (DER, XER, UPER, OER) / validate / print / compare /
 * free calls over distinct structures of the built-in types, sharing only the
 * library's type descriptors.  Every thread's script is first run alone (one
 * after the other) and its complete output log kept; all N scripts also run
 * concurrently (that phase comes first, so that first-use initialisation is
 * raced) and each thread's log must equal its solo log.  Built with
 * -fsanitize=thread, so a data race on library state is reported by TSan
 * (exit code 66); a differing log is reported by this program (exit code 3).
 *
 * usage: thr <seed> <nthreads> <ops-per-thread>
 */
#define _GNU_SOURCE
#include <pthread.h>
#include <sched.h>
#include <stdio.h>
#include <stdlib.h>
#include <string.h>
#include <stdint.h>

#include <asn_application.h>
#include <asn_internal.h>
#include <INTEGER.h>
#include <NativeInteger.h>
#include <OCTET_STRING.h>
#include <OBJECT_IDENTIFIER.h>
#include <RELATIVE-OID.h>
#include <BIT_STRING.h>
#include <BOOLEAN.h>
#include <NULL.h>
#include <REAL.h>
#include <NativeReal.h>
#include <ENUMERATED.h>
#include <UTF8String.h>
#include <IA5String.h>
#include <PrintableString.h>
#include <BMPString.h>
#include <UniversalString.h>
#include <GeneralizedTime.h>
#include <UTCTime.h>

typedef struct { char *p; size_t n, cap; } log_t;

static void lput(log_t *l, const void *b, size_t n) {
    if(l->n + n + 1 > l->cap) {
        l->cap = (l->cap + n + 1) * 2;
        l->p = realloc(l->p, l->cap);
        if(!l->p) abort();
    }
    memcpy(l->p + l->n, b, n);
    l->n += n;
    l->p[l->n] = 0;
}
static void lstr(log_t *l, const char *s) { lput(l, s, strlen(s)); }
static void lnum(log_t *l, const char *k, long v) {
    char b[64];
    int n = snprintf(b, sizeof b, " %s=%ld", k, v);
    lput(l, b, n);
}
static void lhex(log_t *l, const uint8_t *b, size_t n) {
    static const char hx[] = "0123456789abcdef";
    char t[2];
    size_t i;
    for(i = 0; i < n; i++) { t[0] = hx[b[i] >> 4]; t[1] = hx[b[i] & 15]; lput(l, t, 2); }
}
static int cb_hex(const void *b, size_t n, void *k) { lhex((log_t *)k, b, n); return 0; }
static int cb_raw(const void *b, size_t n, void *k) { lput((log_t *)k, b, n); return 0; }

typedef struct { uint64_t s; } rng_t;
static uint64_t rnext(rng_t *r) {
    uint64_t z = (r->s += 0x9E3779B97F4A7C15ull);
    z = (z ^ (z >> 30)) * 0xBF58476D1CE4E5B9ull;
    z = (z ^ (z >> 27)) * 0x94D049BB133111EBull;
    return z ^ (z >> 31);
}
static unsigned rbelow(rng_t *r, unsigned n) { return n ? (unsigned)(rnext(r) % n) : 0; }

enum kind { K_ANYBYTES, K_OID, K_BITS, K_BOOL, K_NULL, K_REAL, K_TEXT, K_GTIME, K_UTIME, K_BMP, K_UNIV };
static struct tdesc { asn_TYPE_descriptor_t *td; enum kind k; const char *name; } T[] = {
    {&asn_DEF_INTEGER, K_ANYBYTES, "INTEGER"},
    {&asn_DEF_NativeInteger, K_ANYBYTES, "NativeInteger"},
    {&asn_DEF_ENUMERATED, K_ANYBYTES, "ENUMERATED"},
    {&asn_DEF_OCTET_STRING, K_ANYBYTES, "OCTET_STRING"},
    {&asn_DEF_OBJECT_IDENTIFIER, K_OID, "OBJECT_IDENTIFIER"},
    {&asn_DEF_RELATIVE_OID, K_OID, "RELATIVE_OID"},
    {&asn_DEF_BIT_STRING, K_BITS, "BIT_STRING"},
    {&asn_DEF_BOOLEAN, K_BOOL, "BOOLEAN"},
    {&asn_DEF_NULL, K_NULL, "NULL"},
    {&asn_DEF_REAL, K_REAL, "REAL"},
    {&asn_DEF_NativeReal, K_REAL, "NativeReal"},
    {&asn_DEF_UTF8String, K_TEXT, "UTF8String"},
    {&asn_DEF_IA5String, K_TEXT, "IA5String"},
    {&asn_DEF_PrintableString, K_TEXT, "PrintableString"},
    {&asn_DEF_BMPString, K_BMP, "BMPString"},
    {&asn_DEF_UniversalString, K_UNIV, "UniversalString"},
    {&asn_DEF_GeneralizedTime, K_GTIME, "GeneralizedTime"},
    {&asn_DEF_UTCTime, K_UTIME, "UTCTime"},
};
#define NT (sizeof(T) / sizeof(T[0]))

/* contents octets for one value of the given kind (mostly valid, sometimes not) */
static size_t gen_contents(rng_t *r, enum kind k, uint8_t *c) {
    size_t n = 0, i;
    switch(k) {
    case K_ANYBYTES:
        n = 1 + rbelow(r, 9);
        for(i = 0; i < n; i++) c[i] = (uint8_t)rnext(r);
        if(rbelow(r, 3) == 0) c[rbelow(r, n)] = (uint8_t)(rbelow(r, 32));  /* control chars: XER escapes */
        break;
    case K_OID:
        n = 1 + rbelow(r, 8);
        for(i = 0; i < n; i++) c[i] = (uint8_t)rnext(r);
        c[n - 1] &= 0x7f;
        if(rbelow(r, 8) == 0) c[n - 1] |= 0x80;  /* unterminated arc: decoder error path */
        break;
    case K_BITS:
        n = 1 + rbelow(r, 8);
        for(i = 0; i < n; i++) c[i] = (uint8_t)rnext(r);
        c[0] = (n == 1) ? 0 : (uint8_t)rbelow(r, 8);
        break;
    case K_BOOL: n = 1; c[0] = rbelow(r, 3) ? 0xff : 0; break;
    case K_NULL: n = rbelow(r, 10) ? 0 : 1; c[0] = 0; break;
    case K_REAL:
        switch(rbelow(r, 4)) {
        case 0: n = 0; break;
        case 1: n = 1; c[0] = 0x40 + rbelow(r, 4); break;
        case 2: n = 3 + rbelow(r, 4); c[0] = 0x80 | (rbelow(r, 2) << 6); c[1] = (uint8_t)rnext(r);
                for(i = 2; i < n; i++) c[i] = (uint8_t)rnext(r); break;
        default: n = (size_t)sprintf((char *)c, "\x03%u.%uE%d", rbelow(r, 1000), rbelow(r, 1000), (int)rbelow(r, 20) - 10); break;
        }
        break;
    case K_TEXT:
        n = rbelow(r, 12);
        for(i = 0; i < n; i++) c[i] = (uint8_t)(32 + rbelow(r, 95));
        if(n && rbelow(r, 4) == 0) c[rbelow(r, n)] = "<>&\t\n\x01"[rbelow(r, 6)];
        break;
    case K_BMP:
        n = 2 * rbelow(r, 6);
        for(i = 0; i < n; i += 2) { c[i] = 0; c[i + 1] = (uint8_t)(32 + rbelow(r, 95)); }
        break;
    case K_UNIV:
        n = 4 * rbelow(r, 4);
        for(i = 0; i < n; i += 4) { c[i] = c[i + 1] = c[i + 2] = 0; c[i + 3] = (uint8_t)(32 + rbelow(r, 95)); }
        break;
    case K_GTIME:
        n = (size_t)sprintf((char *)c, "%04u%02u%02u%02u%02u%02u%s", 1970 + rbelow(r, 60), 1 + rbelow(r, 12), 1 + rbelow(r, 28),
                            rbelow(r, 24), rbelow(r, 60), rbelow(r, 60), rbelow(r, 5) ? "Z" : (rbelow(r, 2) ? ".5Z" : "+0130"));
        if(rbelow(r, 10) == 0) c[4] = 'x';
        break;
    case K_UTIME:
        n = (size_t)sprintf((char *)c, "%02u%02u%02u%02u%02u%02uZ", rbelow(r, 100), 1 + rbelow(r, 12), 1 + rbelow(r, 28),
                            rbelow(r, 24), rbelow(r, 60), rbelow(r, 60));
        if(rbelow(r, 10) == 0) c[2] = 'x';
        break;
    }
    return n;
}

static void one_op(rng_t *r, rng_t *yr, log_t *L, int do_yield) {
    struct tdesc *t = &T[rbelow(r, NT)];
    asn_TYPE_descriptor_t *td = t->td;
    uint8_t der[96], cont[80];
    size_t clen = gen_contents(r, t->k, cont), dlen;
    void *st = 0, *st2 = 0;
    asn_dec_rval_t rv;
    asn_enc_rval_t er;
    char errbuf[128];
    size_t errlen = sizeof errbuf;
    char *mem = 0;
    size_t memlen = 0;
    FILE *f;
    int rc;
    log_t xml = {0, 0, 0};
    static const enum asn_transfer_syntax syn[] = {ATS_DER, ATS_CANONICAL_OER, ATS_UNALIGNED_BASIC_PER, ATS_BASIC_XER, ATS_CANONICAL_XER};
    size_t i;

    der[0] = (uint8_t)((td->tags[0] >> 2) & 0x1f);   /* universal, primitive, tag < 31 */
    der[1] = (uint8_t)clen;
    memcpy(der + 2, cont, clen);
    dlen = clen + 2;
    if(rbelow(r, 12) == 0 && dlen > 2) dlen--;        /* truncated input: RC_WMORE path */

    lstr(L, t->name); lstr(L, " in="); lhex(L, der, dlen);
    rv = ber_decode(0, td, &st, der, dlen);
    lnum(L, "dec", rv.code); lnum(L, "used", (long)rv.consumed);
    if(do_yield && rbelow(yr, 3) == 0) sched_yield();
    if(rv.code == RC_OK) {
        rc = asn_check_constraints(td, st, errbuf, &errlen);
        lnum(L, "chk", rc);
        if(rc) { lstr(L, " err="); lput(L, errbuf, errlen); }
        for(i = 0; i < sizeof(syn) / sizeof(syn[0]); i++) {
            lstr(L, " enc:");
            er = asn_encode(0, syn[i], td, st, syn[i] >= ATS_BASIC_XER ? cb_raw : cb_hex, L);
            lnum(L, "n", (long)er.encoded);
            if(do_yield && rbelow(yr, 4) == 0) sched_yield();
        }
        f = open_memstream(&mem, &memlen);
        rc = asn_fprint(f, td, st);
        fclose(f);
        lnum(L, "print", rc); lstr(L, " "); lput(L, mem, memlen);
        free(mem);
        /* XER round: encode, decode into a second structure, compare */
        er = asn_encode(0, ATS_BASIC_XER, td, st, cb_raw, &xml);
        if(er.encoded >= 0) {
            rv = asn_decode(0, ATS_BASIC_XER, td, &st2, xml.p, xml.n);
            lnum(L, "xdec", rv.code);
            if(rv.code == RC_OK) lnum(L, "cmp", td->op->compare_struct(td, st, st2));
        }
        free(xml.p);
        /* OER round */
        {
            uint8_t ob[128];
            void *st3 = 0;
            er = asn_encode_to_buffer(0, ATS_CANONICAL_OER, td, st, ob, sizeof ob);
            if(er.encoded >= 0 && (size_t)er.encoded <= sizeof ob) {
                rv = asn_decode(0, ATS_BASIC_OER, td, &st3, ob, er.encoded);
                lnum(L, "odec", rv.code);
                if(rv.code == RC_OK) lnum(L, "ocmp", td->op->compare_struct(td, st, st3));
            }
            ASN_STRUCT_FREE(*td, st3);
        }
    }
    ASN_STRUCT_FREE(*td, st2);
    ASN_STRUCT_FREE(*td, st);
    lstr(L, "\n");
}

struct job { uint64_t seed; int idx, nops, yield; log_t log; };

static void *run_job(void *arg) {
    struct job *j = arg;
    rng_t r, yr;   /* script stream; separate stream for the scheduling noise */
    int i;
    r.s = j->seed * 1000003u + (uint64_t)j->idx * 7919u + 17;
    yr.s = r.s ^ 0x5555555555555555ull;
    for(i = 0; i < j->nops; i++) one_op(&r, &yr, &j->log, j->yield);
    return 0;
}

int main(int ac, char **av) {
    uint64_t seed = ac > 1 ? strtoull(av[1], 0, 10) : 1;
    int nthr = ac > 2 ? atoi(av[2]) : 4;
    int nops = ac > 3 ? atoi(av[3]) : 200;
    struct job *solo = calloc(nthr, sizeof *solo), *conc = calloc(nthr, sizeof *conc);
    pthread_t *th = calloc(nthr, sizeof *th);
    int i, bad = 0;
    size_t total = 0;
    for(i = 0; i < nthr; i++) {
        solo[i].seed = conc[i].seed = seed;
        solo[i].idx = conc[i].idx = i;
        solo[i].nops = conc[i].nops = nops;
        solo[i].yield = 0; conc[i].yield = 1;
    }
    /* concurrent phase first: a lazily initialised table is then first touched by racing threads */
    for(i = 0; i < nthr; i++) pthread_create(&th[i], 0, run_job, &conc[i]);
    for(i = 0; i < nthr; i++) pthread_join(th[i], 0);
    for(i = 0; i < nthr; i++) run_job(&solo[i]);     /* alone, one after the other */
    for(i = 0; i < nthr; i++) {
        total += solo[i].log.n;
        if(solo[i].log.n != conc[i].log.n || memcmp(solo[i].log.p, conc[i].log.p, solo[i].log.n)) {
            size_t k = 0, a, b;
            while(k < solo[i].log.n && k < conc[i].log.n && solo[i].log.p[k] == conc[i].log.p[k]) k++;
            a = k; while(a > 0 && solo[i].log.p[a - 1] != '\n') a--;
            b = k; while(b < solo[i].log.n && solo[i].log.p[b] != '\n') b++;
            printf("THR DIFF thread=%d offset=%zu\n solo: %.*s\n", i, k, (int)(b - a), solo[i].log.p + a);
            b = k; while(b < conc[i].log.n && conc[i].log.p[b] != '\n') b++;
            printf(" conc: %.*s\n", (int)(b > a ? b - a : 0), conc[i].log.p + a);
            bad = 1;
        }
    }
    if(ac > 4) { FILE *f = fopen(av[4], "w"); if(f) { fwrite(solo[0].log.p, 1, solo[0].log.n, f); fclose(f); } }
    printf("THR %s seed=%llu threads=%d ops=%d logbytes=%zu\n", bad ? "DIFF" : "ok", (unsigned long long)seed, nthr, nops, total);
    return bad ? 3 : 0;
}
