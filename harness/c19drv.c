/* c19drv.c — C19: the full operation battery over EVERY type descriptor of one
 * generated module (the closure of pdu_table[] under member/element types, so
 * anonymous inner types and the built-in types the module uses are included).
 *
 *   c19drv types
 *       list the descriptor closure
 *   c19drv log <seed> <thread-index> <iters>
 *       run one script alone and print its log (replay aid)
 *   c19drv ro <seed> <iters>
 *       single thread.  The writable PT_LOAD segment(s) of libc19mod.so (all
 *       skeleton + generated objects, nothing else) are snapshotted and then
 *       mprotect()ed read-only BEFORE any type is used; the battery runs; every
 *       store into them faults, is logged (pc, address, old/new bytes, current
 *       operation + type), single-stepped with the page briefly unprotected,
 *       and the run goes on.  At the end the segment is compared with the
 *       snapshot byte by byte.  Built without sanitizers, with
 *       -finstrument-functions on the library side: the set of library
 *       functions entered is printed (FUNC lines) so the check can say which
 *       functions the battery never reached.
 *       output: SEG / STORE / DIFF / CRASH / FUNC / RO lines (offsets relative
 *       to the load address of libc19mod.so; the check symbolises them).
 *   c19drv thr <seed> <nthreads> <iters>
 *       (ThreadSanitizer build, static link.)  <nthreads> threads are created
 *       and wait at a barrier BEFORE any type is used; then every thread runs
 *       the battery over all types on its own values (own PRNG stream); then
 *       the same scripts run alone, one after the other; logs must be equal.
 *       output: THR ok|DIFF ...; exit 3 on a differing log; TSan exit code 66.
 *
 * random() is defined here (thread-local splitmix64), so asn_random_fill draws
 * from the calling thread's own stream: values are reproducible per thread and
 * libc's shared random state is not involved.
 */
#define _GNU_SOURCE
#include <pthread.h>
#include <sched.h>
#include <signal.h>
#include <setjmp.h>
#include <stdio.h>
#include <stdlib.h>
#include <string.h>
#include <stdint.h>
#include <errno.h>
#include <time.h>
#include <unistd.h>
#include <link.h>
#include <ucontext.h>
#include <sys/mman.h>

#include <asn_application.h>
#include <asn_internal.h>
#include <asn_random_fill.h>
#include <constr_CHOICE.h>
#include <constr_SEQUENCE.h>
#include <constr_SET.h>
#include <constr_SET_OF.h>
#include <constr_SEQUENCE_OF.h>
#include <asn_SET_OF.h>
#include <asn_SEQUENCE_OF.h>
#include <INTEGER.h>
#include <NativeInteger.h>
#include <NativeEnumerated.h>
#include <ENUMERATED.h>
#include <OCTET_STRING.h>
#include <BIT_STRING.h>
#include <OBJECT_IDENTIFIER.h>
#include <RELATIVE-OID.h>
#include <REAL.h>
#include <NativeReal.h>
#include <UTF8String.h>
#include <GeneralizedTime.h>
#include <UTCTime.h>
#include <ANY.h>
#include <OPEN_TYPE.h>
#include <ber_tlv_tag.h>
#include <ber_tlv_length.h>
#include <xer_encoder.h>
#include <xer_decoder.h>
#ifndef ASN_DISABLE_PER_SUPPORT
#include <per_encoder.h>
#include <per_decoder.h>
#endif
#ifndef ASN_DISABLE_OER_SUPPORT
#include <oer_encoder.h>
#include <oer_decoder.h>
#endif

#define NOINSTR __attribute__((no_instrument_function))

/* written by the check: every named type of the module; `seeds` is an optional NULL-terminated
 * list of hex DER encodings used as value source where asn_random_fill is not available
 * (types containing ANY or an open type) */
struct pdu_ent { const char *name; asn_TYPE_descriptor_t *td; const char *const *seeds; };
extern struct pdu_ent pdu_table[];

/* ------------------------------------------------------------------ PRNG */
static __thread uint64_t tl_rng = 88172645463325252ull;
static NOINSTR uint64_t rnext(void) {
    uint64_t z = (tl_rng += 0x9E3779B97F4A7C15ull);
    z = (z ^ (z >> 30)) * 0xBF58476D1CE4E5B9ull;
    z = (z ^ (z >> 27)) * 0x94D049BB133111EBull;
    return z ^ (z >> 31);
}
static NOINSTR unsigned rbelow(unsigned n) { return n ? (unsigned)(rnext() % n) : 0; }
/* interposes libc's random(): asn_random_fill / asn_random_between draw from the caller's stream */
NOINSTR long random(void) { return (long)(rnext() >> 33); }

/* ------------------------------------------------------------------ log */
typedef struct { char *p; size_t n, cap; int on; } log_t;
static NOINSTR void lput(log_t *l, const void *b, size_t n) {
    if(!l->on) return;
    if(l->n + n + 1 > l->cap) {
        l->cap = (l->cap + n + 1) * 2;
        l->p = realloc(l->p, l->cap);
        if(!l->p) abort();
    }
    memcpy(l->p + l->n, b, n);
    l->n += n;
    l->p[l->n] = 0;
}
static NOINSTR void lstr(log_t *l, const char *s) { lput(l, s, strlen(s)); }
static NOINSTR void lnum(log_t *l, const char *k, long v) {
    char b[96];
    int n = snprintf(b, sizeof b, " %s=%ld", k, v);
    lput(l, b, n);
}
static NOINSTR void lhex(log_t *l, const uint8_t *b, size_t n) {
    static const char hx[] = "0123456789abcdef";
    char t[2];
    size_t i;
    if(n > 48) n = 48;   /* the prefix is enough to tell results apart; keeps logs small */
    for(i = 0; i < n; i++) { t[0] = hx[b[i] >> 4]; t[1] = hx[b[i] & 15]; lput(l, t, 2); }
}

typedef struct { uint8_t *p; size_t n, cap; } buf_t;
static NOINSTR int cb_buf(const void *b, size_t n, void *k) {
    buf_t *o = k;
    if(o->n + n > (1u << 22)) return -1;   /* safety net: an encoder that never stops (BIT_STRING_encode_oer padding loop, C07) */
    if(o->n + n + 1 > o->cap) { o->cap = (o->cap + n + 1) * 2; o->p = realloc(o->p, o->cap); if(!o->p) abort(); }
    memcpy(o->p + o->n, b, n);
    o->n += n;
    return 0;
}
static NOINSTR void cb_ctfail(void *key, const asn_TYPE_descriptor_t *td, const void *sptr, const char *fmt, ...) {
    (void)td; (void)sptr; (void)fmt;
    (*(int *)key)++;
}

/* ------------------------------------------------------------------ type closure */
#define MAXT 512
static asn_TYPE_descriptor_t *TY[MAXT];
static int NTY;
static unsigned char HAS_NOPER[MAXT], HAS_NOOER[MAXT], HAS_NOFILL[MAXT], HAS_OPEN[MAXT], IS_REC[MAXT], NOT_PDU[MAXT];
static const char *const *SEEDS[MAXT];

static NOINSTR int ty_index(const asn_TYPE_descriptor_t *td) {
    int i;
    for(i = 0; i < NTY; i++) if(TY[i] == td) return i;
    return -1;
}
static NOINSTR void ty_add(asn_TYPE_descriptor_t *td) {
    unsigned i;
    if(!td || ty_index(td) >= 0 || NTY >= MAXT) return;
    TY[NTY++] = td;
    for(i = 0; i < td->elements_count; i++) ty_add(td->elements[i].type);
}
/* a descriptor (or one below it) without a PER / OER codec: calling the codec would
 * jump through a NULL op slot in the unchanged library (recorded under C01/C07) */
static NOINSTR int lacks(const asn_TYPE_descriptor_t *td, int what, int depth, const asn_TYPE_descriptor_t **stack) {
    unsigned i; int d;
    for(d = 0; d < depth; d++) if(stack[d] == td) return 0;
    if(depth >= 60) return 1;
    if(what == 0 && (!td->op->uper_encoder || (!td->op->uper_decoder && td->op != &asn_OP_OPEN_TYPE))) return 1;
    if(what == 1 && (!td->op->oer_encoder || !td->op->oer_decoder)) return 1;
    if(what == 2 && !td->op->random_fill) return 1;
    if(what == 3 && td->op == &asn_OP_OPEN_TYPE) return 1;
    stack[depth] = td;
    for(i = 0; i < td->elements_count; i++)
        if(td->elements[i].type && lacks(td->elements[i].type, what, depth + 1, stack)) return 1;
    return 0;
}
static NOINSTR int reaches(const asn_TYPE_descriptor_t *from, const asn_TYPE_descriptor_t *target, int depth, unsigned char *seen) {
    unsigned i; int k = ty_index(from);
    if(k < 0 || depth > 60) return 0;
    for(i = 0; i < from->elements_count; i++) {
        const asn_TYPE_descriptor_t *c = from->elements[i].type;
        int ck;
        if(c == target) return 1;
        ck = ty_index(c);
        if(ck >= 0 && !seen[ck]) { seen[ck] = 1; if(reaches(c, target, depth + 1, seen)) return 1; }
    }
    return 0;
}
static NOINSTR void collect_types(void) {
    struct pdu_ent *p;
    int i;
    const asn_TYPE_descriptor_t *stack[64];
    for(p = pdu_table; p->name; p++) ty_add(p->td);
    for(p = pdu_table; p->name; p++) SEEDS[ty_index(p->td)] = p->seeds;
    for(i = 0; i < NTY; i++) {
        unsigned char seen[MAXT];
        HAS_NOPER[i] = (unsigned char)lacks(TY[i], 0, 0, stack);
        HAS_NOOER[i] = (unsigned char)lacks(TY[i], 1, 0, stack);
        HAS_NOFILL[i] = (unsigned char)lacks(TY[i], 2, 0, stack);
        HAS_OPEN[i] = (unsigned char)lacks(TY[i], 3, 0, stack);
        /* an open-type member has no decoder of its own: it is not a type a value can be decoded as */
        NOT_PDU[i] = (unsigned char)(!TY[i]->op->ber_decoder || !TY[i]->op->xer_decoder || TY[i]->op == &asn_OP_OPEN_TYPE);
        memset(seen, 0, sizeof seen);
        IS_REC[i] = (unsigned char)reaches(TY[i], TY[i], 0, seen);
    }
}

/* ------------------------------------------------------------------ the battery */
struct ctx {
    log_t log;
    int yield;          /* sprinkle sched_yield() (concurrent phase) */
    uint64_t yrng;      /* separate stream for the scheduling noise: never influences the script */
    const char *op;     /* current operation label (ro mode: read by the fault handler) */
    unsigned long nops; /* library calls made */
    const asn_TYPE_descriptor_t *td;
};
static __thread struct ctx *CUR;

static NOINSTR void maybe_yield(struct ctx *c) {
    if(!c->yield) return;
    c->yrng = c->yrng * 6364136223846793005ull + 1442695040888963407ull;
    if(((c->yrng >> 33) & 3) == 0) sched_yield();
}
#define OP(c, name) do { (c)->op = (name); (c)->nops++; maybe_yield(c); } while(0)

static const struct { enum asn_transfer_syntax enc, dec; const char *name; int per, oer, xer; } SYN[] = {
    {ATS_DER, ATS_BER, "der", 0, 0, 0},
    {ATS_DER, ATS_DER, "der2", 0, 0, 0},
    {ATS_BER, ATS_BER, "ber", 0, 0, 0},
    {ATS_BASIC_OER, ATS_BASIC_OER, "oer", 0, 1, 0},
    {ATS_CANONICAL_OER, ATS_CANONICAL_OER, "coer", 0, 1, 0},
    {ATS_UNALIGNED_BASIC_PER, ATS_UNALIGNED_BASIC_PER, "uper", 1, 0, 0},
    {ATS_UNALIGNED_CANONICAL_PER, ATS_UNALIGNED_CANONICAL_PER, "cuper", 1, 0, 0},
    {ATS_BASIC_XER, ATS_BASIC_XER, "xer", 0, 0, 1},
    {ATS_CANONICAL_XER, ATS_CANONICAL_XER, "cxer", 0, 0, 1},
    {ATS_NONSTANDARD_PLAINTEXT, ATS_INVALID, "text", 0, 0, 0},
};
#define NSYN (sizeof(SYN) / sizeof(SYN[0]))

static NOINSTR int use_value(struct ctx *c, const asn_TYPE_descriptor_t *td, const void *st, const char *tag) {
    char errbuf[160];
    size_t errlen = sizeof errbuf;
    int rc, nfail = 0, valid;
    char *mem = 0; size_t memlen = 0;
    FILE *f;
    lstr(&c->log, " ["); lstr(&c->log, tag);
    OP(c, "asn_check_constraints");
    rc = asn_check_constraints(td, st, errbuf, &errlen);
    valid = (rc == 0);
    lnum(&c->log, "chk", rc);
    if(rc) { lstr(&c->log, " err="); lput(&c->log, errbuf, errlen); }
    OP(c, "check_constraints(cb)");
    rc = td->encoding_constraints.general_constraints(td, st, cb_ctfail, &nfail);
    lnum(&c->log, "chk2", rc); lnum(&c->log, "nfail", nfail);
    OP(c, "check_constraints(nocb)");
    rc = td->encoding_constraints.general_constraints(td, st, 0, 0);
    lnum(&c->log, "chk3", rc);
    OP(c, "asn_fprint");
    f = open_memstream(&mem, &memlen);
    rc = asn_fprint(f, td, st);
    fclose(f);
    lnum(&c->log, "print", rc); lnum(&c->log, "plen", (long)memlen);
    lstr(&c->log, " "); lput(&c->log, mem, memlen > 200 ? 200 : memlen);
    free(mem);
    if(td->tags_count || td->op->outmost_tag) {
        OP(c, "outmost_tag");
        lnum(&c->log, "tag", (long)asn_TYPE_outmost_tag(td, st, 0, 0));
    }
    lstr(&c->log, "]");
    return valid;
}

/* helper functions that apply to values of a particular built-in representation */
static NOINSTR void kind_helpers(struct ctx *c, asn_TYPE_descriptor_t *td, void *st) {
    log_t *L = &c->log;
    const asn_TYPE_operation_t *op = td->op;
    if(op == &asn_OP_INTEGER || op == &asn_OP_ENUMERATED) {
        long l = 0; unsigned long ul = 0; intmax_t im = 0; uintmax_t um = 0;
        INTEGER_t tmp; const asn_INTEGER_enum_map_t *em;
        OP(c, "asn_INTEGER2x");
        lnum(L, "i2l", asn_INTEGER2long(st, &l)); lnum(L, "l", l);
        lnum(L, "i2ul", asn_INTEGER2ulong(st, &ul));
        lnum(L, "i2im", asn_INTEGER2imax(st, &im)); lnum(L, "i2um", asn_INTEGER2umax(st, &um));
        memset(&tmp, 0, sizeof tmp);
        OP(c, "asn_x2INTEGER");
        lnum(L, "l2i", asn_long2INTEGER(&tmp, l)); lnum(L, "ul2i", asn_ulong2INTEGER(&tmp, ul));
        lnum(L, "im2i", asn_imax2INTEGER(&tmp, im)); lnum(L, "um2i", asn_umax2INTEGER(&tmp, um));
        lhex(L, tmp.buf, tmp.size);
        ASN_STRUCT_FREE_CONTENTS_ONLY(asn_DEF_INTEGER, &tmp);
        if(td->specifics) {
            OP(c, "INTEGER_map_value2enum");
            em = INTEGER_map_value2enum(td->specifics, l);
            lstr(L, " enum="); lstr(L, em ? em->enum_name : "-");
        }
    } else if(op == &asn_OP_NativeInteger || op == &asn_OP_NativeEnumerated) {
        if(td->specifics) {
            const asn_INTEGER_enum_map_t *em;
            OP(c, "INTEGER_map_value2enum");
            em = INTEGER_map_value2enum(td->specifics, *(long *)st);
            lstr(L, " enum="); lstr(L, em ? em->enum_name : "-");
        }
    } else if(op == &asn_OP_OBJECT_IDENTIFIER || op == &asn_OP_RELATIVE_OID) {
        asn_oid_arc_t arcs[24]; ssize_t n; int k;
        OBJECT_IDENTIFIER_t tmp;
        memset(&tmp, 0, sizeof tmp);
        OP(c, "OID_get_arcs");
        n = (op == &asn_OP_OBJECT_IDENTIFIER) ? OBJECT_IDENTIFIER_get_arcs(st, arcs, 24) : RELATIVE_OID_get_arcs(st, arcs, 24);
        lnum(L, "arcs", (long)n);
        for(k = 0; k < n && k < 24; k++) lnum(L, "a", (long)arcs[k]);
        if(n > 0 && n <= 24) {
            OP(c, "OID_set_arcs");
            lnum(L, "set", (op == &asn_OP_OBJECT_IDENTIFIER) ? OBJECT_IDENTIFIER_set_arcs(&tmp, arcs, n) : RELATIVE_OID_set_arcs(&tmp, arcs, n));
            lhex(L, tmp.buf, tmp.size);
            ASN_STRUCT_FREE_CONTENTS_ONLY(asn_DEF_OBJECT_IDENTIFIER, &tmp);
        }
        OP(c, "OID_parse_arcs");
        lnum(L, "parse", (long)OBJECT_IDENTIFIER_parse_arcs("1.2.840.113549.1", -1, arcs, 24, 0));
    } else if(op == &asn_OP_REAL) {
        double d = 0; REAL_t tmp;
        memset(&tmp, 0, sizeof tmp);
        OP(c, "asn_REAL2double");
        lnum(L, "r2d", asn_REAL2double(st, &d));
        OP(c, "asn_double2REAL");
        lnum(L, "d2r", asn_double2REAL(&tmp, d));
        lhex(L, tmp.buf, tmp.size);
        ASN_STRUCT_FREE_CONTENTS_ONLY(asn_DEF_REAL, &tmp);
    } else if(op == &asn_OP_GeneralizedTime) {
        struct tm tm; int fv = 0, fd = 0; time_t t;
        GeneralizedTime_t *g;
        memset(&tm, 0, sizeof tm);
        OP(c, "asn_GT2time");
        t = asn_GT2time(st, &tm, 1); lnum(L, "gt", (long)t);
        t = asn_GT2time_frac(st, &fv, &fd, &tm, 1); lnum(L, "gtf", (long)t); lnum(L, "fv", fv);
        t = asn_GT2time_prec(st, &fv, 3, &tm, 1); lnum(L, "gtp", (long)t);
        if(t != (time_t)-1) {
            OP(c, "asn_time2GT");
            g = asn_time2GT(0, &tm, 1);
            if(g) { lstr(L, " t2gt="); lput(L, g->buf, g->size); ASN_STRUCT_FREE(asn_DEF_GeneralizedTime, g); }
            g = asn_time2GT_frac(0, &tm, 123, 3, 1);
            if(g) { lstr(L, " t2gtf="); lput(L, g->buf, g->size); ASN_STRUCT_FREE(asn_DEF_GeneralizedTime, g); }
        }
    } else if(op == &asn_OP_UTCTime) {
        struct tm tm; time_t t; UTCTime_t *u;
        memset(&tm, 0, sizeof tm);
        OP(c, "asn_UT2time");
        t = asn_UT2time(st, &tm, 1); lnum(L, "ut", (long)t);
        if(t != (time_t)-1) {
            OP(c, "asn_time2UT");
            u = asn_time2UT(0, &tm, 1);
            if(u) { lstr(L, " t2ut="); lput(L, u->buf, u->size); ASN_STRUCT_FREE(asn_DEF_UTCTime, u); }
        }
    } else if(op == &asn_OP_UTF8String) {
        uint32_t w[16];
        OP(c, "UTF8String_length");
        lnum(L, "u8len", (long)UTF8String_length(st));
        lnum(L, "u8wcs", (long)UTF8String_to_wcs(st, w, 16));
    } else if(op == &asn_OP_CHOICE) {
        unsigned pres;
        OP(c, "CHOICE_variant_get_presence");
        pres = CHOICE_variant_get_presence(td, st);
        lnum(L, "pres", pres);
        OP(c, "CHOICE_variant_set_presence");
        lnum(L, "setpres", CHOICE_variant_set_presence(td, st, pres));
    }
    if(op->print_struct == OCTET_STRING_print || op->print_struct == OCTET_STRING_print_utf8 || op->free_struct == OCTET_STRING_free) {
        if(op != &asn_OP_ANY && td->specifics != &asn_SPC_BIT_STRING_specs && op != &asn_OP_BIT_STRING) {
            OCTET_STRING_t *o;
            OP(c, "OCTET_STRING_new_fromBuf");
            o = OCTET_STRING_new_fromBuf(td, "19700101000000Z", 15);
            if(o) {
                OP(c, "OCTET_STRING_fromBuf");
                lnum(L, "frombuf", OCTET_STRING_fromBuf(o, "abc", -1));
                lnum(L, "osz", o->size);
                ASN_STRUCT_FREE(*td, o);
            }
        }
    }
}

static NOINSTR void decode_and_use(struct ctx *c, asn_TYPE_descriptor_t *td, int s, const uint8_t *b, size_t n, const void *orig, const char *tag) {
    void *st2 = 0;
    asn_dec_rval_t rv;
    OP(c, "asn_decode");
    rv = asn_decode(0, SYN[s].dec, td, &st2, b, n);
    lstr(&c->log, " "); lstr(&c->log, tag); lnum(&c->log, "dec", rv.code); lnum(&c->log, "used", (long)rv.consumed);
    if(rv.code == RC_OK && st2) {
        if(orig) {
            OP(c, "compare_struct");
            lnum(&c->log, "cmp", td->op->compare_struct(td, orig, st2));
            lnum(&c->log, "cmpr", td->op->compare_struct(td, st2, orig));
        }
        use_value(c, td, st2, "d");
    }
    OP(c, "free");
    ASN_STRUCT_FREE(*td, st2);
}

static NOINSTR void one_round(struct ctx *c, int ti) {
    asn_TYPE_descriptor_t *td = TY[ti];
    log_t *L = &c->log;
    void *st = 0, *st2 = 0;
    int rc, valid;
    size_t s, k;
    asn_enc_rval_t er;
    asn_dec_rval_t rv;
    uint8_t fixed[64];

    c->td = td;
    if(NOT_PDU[ti]) return;
    lstr(L, td->name); lstr(L, ":");
    if(SEEDS[ti] && SEEDS[ti][0] && (HAS_NOFILL[ti] || rbelow(2))) {
        /* value from a hand-made DER encoding */
        int ns = 0; const char *h; uint8_t sb[256]; size_t sn = 0;
        while(SEEDS[ti][ns]) ns++;
        h = SEEDS[ti][rbelow(ns)];
        for(; h[0] && h[1] && sn < sizeof sb; h += 2) { unsigned v = 0; sscanf(h, "%2x", &v); sb[sn++] = (uint8_t)v; }
        OP(c, "ber_decode(seed)");
        rv = ber_decode(0, td, &st, sb, sn);
        lnum(L, "seed", rv.code);
        if(rv.code != RC_OK) { OP(c, "free"); ASN_STRUCT_FREE(*td, st); st = 0; }
    } else if(!HAS_NOFILL[ti]) {
        OP(c, "asn_random_fill");
        rc = asn_random_fill(td, &st, IS_REC[ti] ? 24 : 60 + rbelow(200));
        lnum(L, "fill", rc);
        if(rc != 0) st = 0;
    }
    if(!st) { lstr(L, " novalue\n"); return; }
    valid = use_value(c, td, st, "v");
    OP(c, "compare_struct(self)");
    lnum(L, "self", td->op->compare_struct(td, st, st));
    /* compare with NULL is left out: BIT_STRING_compare dereferences a NULL operand in the unchanged library */
    kind_helpers(c, td, st);

    for(s = 0; s < NSYN; s++) {
        buf_t out = {0, 0, 0};
        asn_encode_to_new_buffer_result_t nb;
        if(SYN[s].per && HAS_NOPER[ti]) continue;
        if(SYN[s].oer && HAS_NOOER[ti]) continue;
        /* a value that fails its own constraint check is not OER-encoded: BIT_STRING_encode_oer never
         * terminates on a fixed-size BIT STRING value that is too short (unchanged library; C07's area) */
        if(SYN[s].oer && !valid) continue;
        lstr(L, " {"); lstr(L, SYN[s].name);
        OP(c, "asn_encode");
        er = asn_encode(0, SYN[s].enc, td, st, cb_buf, &out);
        lnum(L, "enc", (long)er.encoded); lstr(L, " "); lhex(L, out.p, out.n);
        /* failing output callbacks are not part of the battery: the unchanged library asserts on them
         * (SEQUENCE_encode_oer `ret == 0`, asn_encode `errno == EBADF`; recorded under C07) */
        OP(c, "asn_encode_to_buffer");
        er = asn_encode_to_buffer(0, SYN[s].enc, td, st, fixed, sizeof fixed);
        lnum(L, "tobuf", (long)er.encoded);
        OP(c, "asn_encode_to_new_buffer");
        nb = asn_encode_to_new_buffer(0, SYN[s].enc, td, st);
        lnum(L, "newbuf", (long)nb.result.encoded);
        free(nb.buffer);
        if(SYN[s].dec != ATS_INVALID && out.n < 100000) {
            decode_and_use(c, td, s, out.p, out.n, st, "rt");
            /* invalid / damaged inputs (types holding an open type included since /repo commit 1c56988 fixed the
             * failure clean-up of OPEN_TYPE_*_get, finding C18-opentype-null-specifics) */
            if(out.n > 0) {
                uint8_t *m = malloc(out.n + 8);
                size_t cut = rbelow((unsigned)out.n);
                memcpy(m, out.p, out.n);
                decode_and_use(c, td, s, m, cut, 0, "cut");
                for(k = 0; k < 2; k++) {
                    size_t pos = rbelow((unsigned)out.n);
                    uint8_t old = m[pos];
                    m[pos] ^= (uint8_t)(1u << rbelow(8));
                    decode_and_use(c, td, s, m, out.n, 0, "flip");
                    m[pos] = old;
                }
                memset(m + out.n, 0, 8);
                decode_and_use(c, td, s, m, out.n + 8, 0, "pad");
                free(m);
            }
            {
                uint8_t junk[24];
                for(k = 0; k < sizeof junk; k++) junk[k] = (uint8_t)rnext();
                decode_and_use(c, td, s, junk, 1 + rbelow(sizeof junk - 1), 0, "junk");
            }
        }
        free(out.p);
        lstr(L, "}");
    }

    /* the per-syntax entry points themselves */
    {
        buf_t out = {0, 0, 0};
        uint8_t *nbuf = 0; ssize_t nn;
        char *mem = 0; size_t memlen = 0; FILE *f;
        lstr(L, " {direct");
        OP(c, "der_encode");
        er = der_encode(td, st, cb_buf, &out); lnum(L, "der", (long)er.encoded);
        OP(c, "der_encode_to_buffer");
        er = der_encode_to_buffer(td, st, fixed, sizeof fixed); lnum(L, "derb", (long)er.encoded);
        OP(c, "ber_decode");
        st2 = 0; rv = ber_decode(0, td, &st2, out.p, out.n); lnum(L, "ber", rv.code);
        if(rv.code == RC_OK && st2) {
            OP(c, "xer_equivalent");
            lnum(L, "xeq", xer_equivalent(td, st, st2, 0));
        }
        OP(c, "free(reset)");
        if(st2) { ASN_STRUCT_RESET(*td, st2); OP(c, "free"); ASN_STRUCT_FREE(*td, st2); }
        /* restartable decode, one byte at a time at first */
        if(out.n > 1 && out.n < 400) {
            size_t off = 0, step = 1; int guard = 0;
            st2 = 0;
            OP(c, "ber_decode(chunked)");
            do {
                size_t take = off + step > out.n ? out.n - off : step;
                rv = ber_decode(0, td, &st2, out.p + off, take);
                off += rv.consumed;
                if(rv.code == RC_WMORE && rv.consumed == 0) step++;
            } while(rv.code == RC_WMORE && off < out.n && ++guard < 2000);
            lnum(L, "chunk", rv.code);
            OP(c, "free");
            ASN_STRUCT_FREE(*td, st2);
        }
        out.n = 0;
        OP(c, "xer_encode");
        er = xer_encode(td, st, XER_F_BASIC, cb_buf, &out); lnum(L, "xer", (long)er.encoded);
        OP(c, "xer_decode");
        st2 = 0; rv = xer_decode(0, td, &st2, out.p, out.n); lnum(L, "xdec", rv.code);
        OP(c, "free");
        ASN_STRUCT_FREE(*td, st2);
        if(out.n > 1 && out.n < 600) {
            size_t off = 0, step = 3; int guard = 0;
            st2 = 0;
            OP(c, "xer_decode(chunked)");
            do {
                size_t take = off + step > out.n ? out.n - off : step;
                rv = xer_decode(0, td, &st2, out.p + off, take);
                off += rv.consumed;
                if(rv.code == RC_WMORE && rv.consumed == 0) step += 3;
            } while(rv.code == RC_WMORE && off < out.n && ++guard < 2000);
            lnum(L, "xchunk", rv.code);
            OP(c, "free");
            ASN_STRUCT_FREE(*td, st2);
        }
        OP(c, "xer_fprint");
        f = open_memstream(&mem, &memlen);
        lnum(L, "xfp", xer_fprint(f, td, st));
        fclose(f); free(mem);
#ifndef ASN_DISABLE_PER_SUPPORT
        if(!HAS_NOPER[ti]) {
            out.n = 0;
            OP(c, "uper_encode");
            er = uper_encode(td, 0, st, cb_buf, &out); lnum(L, "uper", (long)er.encoded);
            OP(c, "uper_encode_to_buffer");
            er = uper_encode_to_buffer(td, 0, st, fixed, sizeof fixed); lnum(L, "uperb", (long)er.encoded);
            OP(c, "uper_encode_to_new_buffer");
            nn = uper_encode_to_new_buffer(td, 0, st, (void **)&nbuf); lnum(L, "upern", (long)nn);
            free(nbuf);
            OP(c, "uper_decode_complete");
            st2 = 0; rv = uper_decode_complete(0, td, &st2, out.p, out.n); lnum(L, "updc", rv.code);
            OP(c, "free");
            ASN_STRUCT_FREE(*td, st2);
            OP(c, "uper_decode");
            st2 = 0; rv = uper_decode(0, td, &st2, out.p, out.n, 0, 0); lnum(L, "upd", rv.code);
            OP(c, "free");
            ASN_STRUCT_FREE(*td, st2);
        }
#endif
#ifndef ASN_DISABLE_OER_SUPPORT
        if(!HAS_NOOER[ti] && valid) {
            out.n = 0;
            OP(c, "oer_encode");
            er = oer_encode(td, st, cb_buf, &out); lnum(L, "oer", (long)er.encoded);
            OP(c, "oer_encode_to_buffer");
            er = oer_encode_to_buffer(td, 0, st, fixed, sizeof fixed); lnum(L, "oerb", (long)er.encoded);
            OP(c, "oer_decode");
            st2 = 0; rv = oer_decode(0, td, &st2, out.p, out.n); lnum(L, "oerd", rv.code);
            OP(c, "free");
            ASN_STRUCT_FREE(*td, st2);
        }
#endif
        free(out.p);
        lstr(L, "}");
    }

    /* ANY_fromType / ANY_to_type wrap every type */
    {
        ANY_t any, *pa;
        memset(&any, 0, sizeof any);
        OP(c, "ANY_fromType");
        rc = ANY_fromType(&any, td, st);
        lnum(L, "any", rc); lnum(L, "anysz", any.size);
        if(rc == 0) {
            st2 = 0;
            OP(c, "ANY_to_type");
            rc = ANY_to_type(&any, td, &st2);
            lnum(L, "anyto", rc);
            if(rc == 0 && st2) { OP(c, "compare_struct"); lnum(L, "anycmp", td->op->compare_struct(td, st, st2)); }
            OP(c, "free");
            ASN_STRUCT_FREE(*td, st2);
        }
        ASN_STRUCT_FREE_CONTENTS_ONLY(asn_DEF_ANY, &any);
        OP(c, "ANY_new_fromType");
        pa = ANY_new_fromType(td, st);
        if(pa) { use_value(c, &asn_DEF_ANY, pa, "any"); ASN_STRUCT_FREE(asn_DEF_ANY, pa); }
    }

    /* random fill through the decoder front end */
    st2 = 0;
    rv.code = RC_FAIL;
    if(!HAS_NOFILL[ti] && !IS_REC[ti]) {
        OP(c, "asn_decode(ATS_RANDOM)");
        rv = asn_decode(0, ATS_RANDOM, td, &st2, "", 0);
        lnum(L, "rnd", rv.code);
    }
    if(rv.code == RC_OK && st2) {
        OP(c, "compare_struct");
        lnum(L, "cmp2", td->op->compare_struct(td, st, st2));
        /* list surgery on a value nobody else owns */
        if(td->op == &asn_OP_SET_OF || td->op == &asn_OP_SEQUENCE_OF) {
            asn_anonymous_set_ *lst = (asn_anonymous_set_ *)st2;   /* the list head is the first member */
            void *el = 0;
            OP(c, "asn_set_add");
            if(asn_random_fill(td->elements[0].type, &el, 20) == 0 && el) {
                if(asn_set_add(lst, el) != 0) ASN_STRUCT_FREE(*td->elements[0].type, el);
            }
            lnum(L, "cnt", lst->count);
            OP(c, "asn_set_del");
            if(lst->count > 0) {
                void *victim = lst->array[0];
                if(td->op == &asn_OP_SEQUENCE_OF) asn_sequence_del(lst, 0, 0); else asn_set_del(lst, 0, 0);
                ASN_STRUCT_FREE(*td->elements[0].type, victim);
            }
            lnum(L, "cnt", lst->count);
            use_value(c, td, st2, "l");
        }
    }
    OP(c, "free(contents)");
    if(st2) { ASN_STRUCT_FREE_CONTENTS_ONLY(*td, st2); free(st2); }
    OP(c, "free");
    ASN_STRUCT_FREE(*td, st);
    lstr(L, "\n");
}

/* operations that take no structure: tag / length / number helpers */
static NOINSTR void leaf_round(struct ctx *c) {
    log_t *L = &c->log;
    uint8_t b[32]; char t[64];
    ber_tlv_tag_t tag = 0; ber_tlv_len_t len = 0;
    size_t n, k;
    char *mem = 0; size_t memlen = 0; FILE *f;
    intmax_t im = 0; uintmax_t um = 0; long l = 0; unsigned long ul = 0;
    const char *end;
    static const char *nums[] = {"0", "-1", "123456789", "99999999999999999999999", "  42", "12x", "", "+7", "-9223372036854775808"};
    c->td = 0;
    lstr(L, "leaf:");
    for(k = 0; k < sizeof b; k++) b[k] = (uint8_t)rnext();
    OP(c, "ber_fetch_tag");
    lnum(L, "ft", (long)ber_fetch_tag(b, sizeof b, &tag)); lnum(L, "tag", (long)tag);
    OP(c, "ber_tlv_tag_serialize");
    n = ber_tlv_tag_serialize(tag, b, sizeof b); lnum(L, "ts", (long)n);
    OP(c, "ber_tlv_tag_snprint");
    lnum(L, "sn", (long)ber_tlv_tag_snprint(tag, t, sizeof t)); lstr(L, " "); lstr(L, t);
    OP(c, "ber_tlv_tag_fwrite");
    f = open_memstream(&mem, &memlen); lnum(L, "fw", (long)ber_tlv_tag_fwrite(tag, f)); fclose(f); free(mem);
    for(k = 0; k < sizeof b; k++) b[k] = (uint8_t)rnext();
    OP(c, "ber_fetch_length");
    lnum(L, "fl", (long)ber_fetch_length(rbelow(2), b, sizeof b, &len)); lnum(L, "len", (long)len);
    OP(c, "der_tlv_length_serialize");
    lnum(L, "ls", (long)der_tlv_length_serialize(len < 0 ? 5 : len, b, sizeof b));
    OP(c, "ber_skip_length");
    lnum(L, "sk", (long)ber_skip_length(0, 1, b, sizeof b));
    for(k = 0; k < sizeof nums / sizeof nums[0]; k++) {
        OP(c, "asn_strtox_lim");
        end = nums[k] + strlen(nums[k]); lnum(L, "sim", asn_strtoimax_lim(nums[k], &end, &im)); lnum(L, "v", (long)im);
        end = nums[k] + strlen(nums[k]); lnum(L, "sum", asn_strtoumax_lim(nums[k], &end, &um));
        end = nums[k] + strlen(nums[k]); lnum(L, "sl", asn_strtol_lim(nums[k], &end, &l));
        end = nums[k] + strlen(nums[k]); lnum(L, "sul", asn_strtoul_lim(nums[k], &end, &ul));
    }
    OP(c, "asn_random_between");
    lnum(L, "rb", (long)asn_random_between(-5, 500));
    OP(c, "asn_generic_no_constraint");
    lnum(L, "gnc", asn_generic_no_constraint(&asn_DEF_ANY, 0, 0, 0));
    {   /* XER text with entity references and a comment, into a built-in type */
        static const char x[] = "<UTF8String>a&amp;b&lt;&#x41;&#66;<!-- c -->z</UTF8String>";
        void *u = 0; asn_dec_rval_t rv;
        c->td = &asn_DEF_UTF8String;
        OP(c, "xer_decode(entities)");
        rv = xer_decode(0, &asn_DEF_UTF8String, &u, x, sizeof x - 1);
        lnum(L, "xent", rv.code);
        if(rv.code == RC_OK && u) { lstr(L, " "); lput(L, ((UTF8String_t *)u)->buf, ((UTF8String_t *)u)->size); }
        OP(c, "free");
        ASN_STRUCT_FREE(asn_DEF_UTF8String, u);
        c->td = 0;
    }
    OP(c, "get_asn1c_environment_version");
    lnum(L, "envver", get_asn1c_environment_version() > 0);
    lstr(L, "\n");
}

static NOINSTR void script(struct ctx *c, uint64_t seed, int idx, int iters) {
    int it, i;
    tl_rng = seed * 1000003u + (uint64_t)idx * 7919u + 17;
    c->yrng = tl_rng ^ 0x5555555555555555ull;
    CUR = c;
    for(it = 0; it < iters; it++) {
        /* every thread starts at a different type and walks all of them */
        int start = (int)((seed + (uint64_t)idx * 5 + (uint64_t)it * 3) % (uint64_t)(NTY ? NTY : 1));
        leaf_round(c);
        for(i = 0; i < NTY; i++) one_round(c, (start + i) % NTY);
    }
}

/* ================================================================== thr mode */
struct job { struct ctx c; uint64_t seed; int idx, iters; pthread_barrier_t *bar; };
static NOINSTR void *run_job(void *arg) {
    struct job *j = arg;
    if(j->bar) pthread_barrier_wait(j->bar);
    script(&j->c, j->seed, j->idx, j->iters);
    return 0;
}

static NOINSTR int main_thr(uint64_t seed, int nthr, int iters) {
    struct job *solo = calloc(nthr, sizeof *solo), *conc = calloc(nthr, sizeof *conc);
    pthread_t *th = calloc(nthr, sizeof *th);
    pthread_barrier_t bar;
    int i, bad = 0;
    size_t total = 0;
    pthread_barrier_init(&bar, 0, nthr);
    for(i = 0; i < nthr; i++) {
        solo[i].seed = conc[i].seed = seed;
        solo[i].idx = conc[i].idx = i;
        solo[i].iters = conc[i].iters = iters;
        solo[i].c.log.on = conc[i].c.log.on = 1;
        conc[i].c.yield = 1; conc[i].bar = &bar;
    }
    /* no type has been used yet (collect_types only follows pointers): first use is raced */
    for(i = 0; i < nthr; i++) pthread_create(&th[i], 0, run_job, &conc[i]);
    for(i = 0; i < nthr; i++) pthread_join(th[i], 0);
    for(i = 0; i < nthr; i++) run_job(&solo[i]);
    for(i = 0; i < nthr; i++) {
        log_t *a = &solo[i].c.log, *b = &conc[i].c.log;
        total += a->n;
        if(a->n != b->n || memcmp(a->p, b->p, a->n)) {
            size_t k = 0, s, e;
            while(k < a->n && k < b->n && a->p[k] == b->p[k]) k++;
            s = k; while(s > 0 && a->p[s - 1] != '\n') s--;
            e = k; while(e < a->n && a->p[e] != '\n') e++;
            printf("THR DIFF thread=%d offset=%zu at=%zu\n solo: %.*s\n", i, k, k - s, (int)(e - s > 1500 ? 1500 : e - s), a->p + s);
            e = k; while(e < b->n && b->p[e] != '\n') e++;
            printf(" conc: %.*s\n", (int)(e > s ? (e - s > 1500 ? 1500 : e - s) : 0), b->p + s);
            bad = 1;
        }
    }
    {
        unsigned long ops = 0;
        for(i = 0; i < nthr; i++) ops += conc[i].c.nops;
        printf("THR %s seed=%llu threads=%d iters=%d types=%d ops=%lu logbytes=%zu\n", bad ? "DIFF" : "ok", (unsigned long long)seed, nthr, iters, NTY, ops, total);
    }
    return bad ? 3 : 0;
}

/* ================================================================== ro mode */
#ifdef C19_CANARY
extern void c19_canary_poke(void);
extern int c19_canary_data, c19_canary_bss, c19_canary_same;
#endif
/* the detector's self-test objects are reported apart (CANARY lines) and do not count */
static NOINSTR const char *canary_name(uintptr_t a) {
#ifdef C19_CANARY
    if(a >= (uintptr_t)&c19_canary_data && a < (uintptr_t)(&c19_canary_data + 1)) return "c19_canary_data";
    if(a >= (uintptr_t)&c19_canary_bss && a < (uintptr_t)(&c19_canary_bss + 1)) return "c19_canary_bss";
    if(a >= (uintptr_t)&c19_canary_same && a < (uintptr_t)(&c19_canary_same + 1)) return "c19_canary_same";
#endif
    (void)a;
    return 0;
}
#define MAXSEG 8
static struct seg { uintptr_t lo, hi; uint8_t *snap; } SEGS[MAXSEG];
static int NSEG;
static uintptr_t LIB_BASE, RELRO_LO, RELRO_HI;
static long PAGE;

struct store_ev { uintptr_t pc, addr; uint8_t oldb[16], newb[16]; const char *op; const char *type; unsigned long count; };
#define MAXEV 4096
static struct store_ev EV[MAXEV];
static int NEV;
static unsigned long NSTORES;
static volatile uintptr_t pending_addr;
static volatile int pending_ev;
static sigjmp_buf RECOVER;
static volatile int recover_armed;
static struct ctx *RO_CTX;

static NOINSTR int phdr_cb(struct dl_phdr_info *info, size_t size, void *data) {
    int i;
    (void)size; (void)data;
    if(!info->dlpi_name || !strstr(info->dlpi_name, "libc19mod")) return 0;
    LIB_BASE = info->dlpi_addr;
    for(i = 0; i < info->dlpi_phnum; i++) {
        const ElfW(Phdr) *ph = &info->dlpi_phdr[i];
        if(ph->p_type == PT_LOAD && (ph->p_flags & PF_W) && NSEG < MAXSEG) {
            SEGS[NSEG].lo = info->dlpi_addr + ph->p_vaddr;
            SEGS[NSEG].hi = info->dlpi_addr + ph->p_vaddr + ph->p_memsz;
            NSEG++;
        }
        if(ph->p_type == PT_GNU_RELRO) {
            RELRO_LO = info->dlpi_addr + ph->p_vaddr;
            RELRO_HI = RELRO_LO + ph->p_memsz;
        }
    }
    return 0;
}
static NOINSTR int in_segs(uintptr_t a) {
    int i;
    for(i = 0; i < NSEG; i++)
        if(a >= (SEGS[i].lo & ~(uintptr_t)(PAGE - 1)) && a < ((SEGS[i].hi + PAGE - 1) & ~(uintptr_t)(PAGE - 1))) return 1;
    return 0;
}
static NOINSTR void protect_all(int prot) {
    int i;
    for(i = 0; i < NSEG; i++) {
        uintptr_t lo = SEGS[i].lo & ~(uintptr_t)(PAGE - 1), hi = (SEGS[i].hi + PAGE - 1) & ~(uintptr_t)(PAGE - 1);
        if(mprotect((void *)lo, hi - lo, prot) != 0) { perror("mprotect"); _exit(9); }
    }
}
static NOINSTR void on_segv(int sig, siginfo_t *si, void *ucv) {
    ucontext_t *uc = ucv;
    uintptr_t a = (uintptr_t)si->si_addr;
    if(sig == SIGSEGV && si->si_code == SEGV_ACCERR && in_segs(a) && !pending_addr) {
        uintptr_t pc = (uintptr_t)uc->uc_mcontext.gregs[REG_RIP];
        uintptr_t pg = a & ~(uintptr_t)(PAGE - 1);
        int i, slot = -1;
        NSTORES++;
        for(i = 0; i < NEV; i++) if(EV[i].pc == pc && EV[i].addr == a) { slot = i; break; }
        if(slot < 0 && NEV < MAXEV) {
            slot = NEV++;
            EV[slot].pc = pc; EV[slot].addr = a; EV[slot].count = 0;
            EV[slot].op = RO_CTX && RO_CTX->op ? RO_CTX->op : "?";
            EV[slot].type = RO_CTX && RO_CTX->td ? RO_CTX->td->name : "-";
            memcpy(EV[slot].oldb, (void *)(a & ~(uintptr_t)7), 16);
        }
        if(slot >= 0) EV[slot].count++;
        pending_ev = slot;
        pending_addr = a;
        /* let this one instruction through: page (and the next, for a straddling store) writable, trap flag on */
        mprotect((void *)pg, 2 * PAGE, PROT_READ | PROT_WRITE);
        uc->uc_mcontext.gregs[REG_EFL] |= 0x100;
        return;
    }
    /* a genuine crash of the code under test (not this property's subject): abandon the operation */
    if(recover_armed) siglongjmp(RECOVER, sig);
    signal(sig, SIG_DFL);
    raise(sig);
}
static NOINSTR void on_trap(int sig, siginfo_t *si, void *ucv) {
    ucontext_t *uc = ucv;
    (void)sig; (void)si;
    if(pending_addr) {
        uintptr_t a = pending_addr;
        if(pending_ev >= 0 && EV[pending_ev].count == 1) memcpy(EV[pending_ev].newb, (void *)(a & ~(uintptr_t)7), 16);
        pending_addr = 0;
        protect_all(PROT_READ);
    }
    uc->uc_mcontext.gregs[REG_EFL] &= ~(greg_t)0x100;
}

/* function coverage of the library side (-finstrument-functions) */
#define FSET 16384
static void *FSEEN[FSET];
NOINSTR void __cyg_profile_func_enter(void *fn, void *site) {
    uintptr_t h = ((uintptr_t)fn >> 2) * 2654435761u;
    unsigned i;
    (void)site;
    for(i = 0; i < FSET; i++) {
        unsigned k = (unsigned)((h + i) % FSET);
        if(FSEEN[k] == fn) return;
        if(!FSEEN[k]) { FSEEN[k] = fn; return; }
    }
}
NOINSTR void __cyg_profile_func_exit(void *fn, void *site) { (void)fn; (void)site; }

static NOINSTR void hex16(const uint8_t *b) { int i; for(i = 0; i < 16; i++) printf("%02x", b[i]); }

static NOINSTR int main_ro(uint64_t seed, int iters) {
    struct ctx c;
    struct sigaction sa;
    stack_t ss;
    int i, it, ncrash = 0, nev_canary = 0;
    unsigned long ndiff = 0;
    memset(&c, 0, sizeof c);
    c.log.on = 0;
    RO_CTX = &c;
    PAGE = sysconf(_SC_PAGESIZE);
    dl_iterate_phdr(phdr_cb, 0);
    if(!NSEG) { printf("RO error no-writable-segment-of-libc19mod-found\n"); return 2; }
    for(i = 0; i < NSEG; i++) {
        SEGS[i].snap = malloc(SEGS[i].hi - SEGS[i].lo);
        memcpy(SEGS[i].snap, (void *)SEGS[i].lo, SEGS[i].hi - SEGS[i].lo);
        printf("SEG %d lo=0x%lx hi=0x%lx relro_lo=0x%lx relro_hi=0x%lx\n", i, (unsigned long)(SEGS[i].lo - LIB_BASE), (unsigned long)(SEGS[i].hi - LIB_BASE),
               (unsigned long)(RELRO_LO - LIB_BASE), (unsigned long)(RELRO_HI - LIB_BASE));
    }
    ss.ss_sp = malloc(1 << 16); ss.ss_size = 1 << 16; ss.ss_flags = 0;
    sigaltstack(&ss, 0);
    memset(&sa, 0, sizeof sa);
    sa.sa_flags = SA_SIGINFO | SA_ONSTACK | SA_NODEFER;
    sigemptyset(&sa.sa_mask);
    sa.sa_sigaction = on_segv;
    sigaction(SIGSEGV, &sa, 0);
    sigaction(SIGBUS, &sa, 0);
    sigaction(SIGABRT, &sa, 0);   /* assertion failures of the code under test: abandon the operation, go on */
    sigaction(SIGFPE, &sa, 0);
    sa.sa_sigaction = on_trap;
    sigaction(SIGTRAP, &sa, 0);
    fflush(stdout);
    protect_all(PROT_READ);   /* before the first use of any type */
#ifdef C19_CANARY
    c.op = "selftest";
    c19_canary_poke();        /* three stores the detector must report (the check verifies that it does) */
#endif

    tl_rng = seed * 1000003u + 17;
    CUR = &c;
    for(it = 0; it < iters; it++) {
        for(i = -1; i < NTY; i++) {
            int sig;
            recover_armed = 1;
            if((sig = sigsetjmp(RECOVER, 1)) == 0) {
                if(i < 0) leaf_round(&c); else one_round(&c, i);
            } else {
                ncrash++;
                if(pending_addr) { pending_addr = 0; protect_all(PROT_READ); }
                printf("CRASH sig=%d op=%s type=%s iter=%d\n", sig, c.op ? c.op : "?", i >= 0 ? TY[i]->name : "-", it);
            }
            recover_armed = 0;
        }
    }
    for(i = 0; i < NEV; i++) {
        if(canary_name(EV[i].addr)) { printf("CANARY store %s\n", canary_name(EV[i].addr)); nev_canary++; continue; }
        printf("STORE pc=0x%lx addr=0x%lx count=%lu old=", (unsigned long)(EV[i].pc - LIB_BASE), (unsigned long)(EV[i].addr - LIB_BASE), EV[i].count);
        hex16(EV[i].oldb); printf(" new="); hex16(EV[i].newb);
        printf(" type=%s op=%s\n", EV[i].type, EV[i].op);
    }
    for(i = 0; i < NSEG; i++) {
        size_t k, n = SEGS[i].hi - SEGS[i].lo;
        const uint8_t *now = (const uint8_t *)SEGS[i].lo;
        for(k = 0; k < n; k++) {
            if(now[k] != SEGS[i].snap[k]) {
                size_t e = k;
                while(e < n && now[e] != SEGS[i].snap[e]) e++;
                if(canary_name(SEGS[i].lo + k)) { printf("CANARY diff %s\n", canary_name(SEGS[i].lo + k)); k = e; continue; }
                if(ndiff < 200) printf("DIFF off=0x%lx len=%zu\n", (unsigned long)(SEGS[i].lo + k - LIB_BASE), e - k);
                ndiff++;
                k = e;
            }
        }
    }
    for(i = 0; i < FSET; i++)
        if(FSEEN[i]) printf("FUNC 0x%lx\n", (unsigned long)((uintptr_t)FSEEN[i] - LIB_BASE));
    printf("RO %s seed=%llu iters=%d types=%d ops=%lu stores=%lu distinct=%d diffs=%lu crashes=%d\n", (NEV - nev_canary || ndiff) ? "WRITTEN" : "clean",
           (unsigned long long)seed, iters, NTY, c.nops, NSTORES - nev_canary, NEV - nev_canary, ndiff, ncrash);
    fflush(stdout);
    _exit((NEV - nev_canary || ndiff) ? 4 : 0);   /* no destructors: the library image stays read-only */
}

NOINSTR int main(int ac, char **av) {
    const char *mode = ac > 1 ? av[1] : "types";
    uint64_t seed = ac > 2 ? strtoull(av[2], 0, 10) : 1;
    int i;
    collect_types();
    if(!strcmp(mode, "types")) {
        for(i = 0; i < NTY; i++)
            printf("TYPE %s elements=%u noper=%d nooer=%d rec=%d nofill=%d open=%d notpdu=%d seeds=%d\n", TY[i]->name, TY[i]->elements_count,
                   HAS_NOPER[i], HAS_NOOER[i], IS_REC[i], HAS_NOFILL[i], HAS_OPEN[i], NOT_PDU[i], SEEDS[i] && SEEDS[i][0] ? 1 : 0);
        return 0;
    }
    if(!strcmp(mode, "log")) {   /* one script alone, log to stdout (replay aid) */
        struct ctx c;
        memset(&c, 0, sizeof c);
        c.log.on = 1;
        script(&c, seed, ac > 3 ? atoi(av[3]) : 0, ac > 4 ? atoi(av[4]) : 1);
        fwrite(c.log.p, 1, c.log.n, stdout);
        return 0;
    }
    if(!strcmp(mode, "ro")) return main_ro(seed, ac > 3 ? atoi(av[3]) : 1);
    if(!strcmp(mode, "thr")) return main_thr(seed, ac > 3 ? atoi(av[3]) : 2, ac > 4 ? atoi(av[4]) : 1);
    fprintf(stderr, "usage: c19drv types | ro <seed> <iters> | thr <seed> <nthreads> <iters>\n");
    return 2;
}
