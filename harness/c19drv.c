/* c19drv.c — C19: the full operation battery over EVERY type descriptor of one
 * generated module (the closure of pdu_table[] under member/element types, so
 * anonymous inner types and the built-in types the module uses are included).
 *
 *   c19drv types
 *       list the descriptor closure
 *   c19drv log <seed> <thread-index> <iters>
 *       run one script alone and print its log (replay aid)
 *   c19drv ro <seed> <iters>
 *       single thread.  The writable PT_LOAD segment(s) of libc19mod.so (all
 *       skeleton + generated objects, nothing else) are snapshotted and then
 *       mprotect()ed read-only BEFORE any type is used; the battery runs; every
 *       store into them faults, is logged (pc, address, old/new bytes, current
 *       operation + type), single-stepped with the page briefly unprotected,
 *       and the run goes on.  At the end the segment is compared with the
 *       snapshot byte by byte.  Built without sanitizers, with
 *       -finstrument-functions on the library side: the set of library
 *       functions entered is printed (FUNC lines) so the check can say which
 *       functions the battery never reached.
 *       output: SEG / STORE / DIFF / CRASH / FUNC / RO lines (offsets relative
 *       to the load address of libc19mod.so; the check symbolises them).
 *   c19drv thr <seed> <nthreads> <iters>
 *       (ThreadSanitizer build, static link.)  <nthreads> threads are created
 *       and wait at a barrier BEFORE any type is used; then every thread runs
 *       the battery over all types on its own values (own PRNG stream); then
 *       the same scripts run alone, one after the other; logs must be equal.
 *       output: THR ok|DIFF ...; exit 3 on a differing log; TSan exit code 66.
 *
 * random() is defined here (thread-local splitmix64), so asn_random_fill draws
 * from the calling thread's own stream: values are reproducible per thread and
 * libc's shared random state is not involved.
 */
#define _GNU_SOURCE
#include <pthread.h>
#include <sched.h>
#include <signal.h>
#include <setjmp.h>
#include <stdio.h>
#include <stdlib.h>
#include <string.h>
#include <stdint.h>
#include <errno.h>
#include <time.h>
#include <unistd.h>
#include <link.h>
#include <ucontext.h>
#include <sys/mman.h>

#include <asn_application.h>
#include <asn_internal.h>
#include <asn_random_fill.h>
#include <constr_CHOICE.h>
#include <constr_SEQUENCE.h>
#include <constr_SET.h>
#include <constr_SET_OF.h>
#include <constr_SEQUENCE_OF.h>
#include <asn_SET_OF.h>
#include <asn_SEQUENCE_OF.h>
#include <INTEGER.h>
#include <NativeInteger.h>
#include <NativeEnumerated.h>
#include <ENUMERATED.h>
#include <OCTET_STRING.h>
#include <BIT_STRING.h>
#include <OBJECT_IDENTIFIER.h>
#include <RELATIVE-OID.h>
#include <REAL.h>
#include <NativeReal.h>
#include <UTF8String.h>
#include <GeneralizedTime.h>
#include <UTCTime.h>
#include <ANY.h>
#include <OPEN_TYPE.h>
#include <ber_tlv_tag.h>
#include <ber_tlv_length.h>
#include <xer_encoder.h>
#include <xer_decoder.h>
#ifndef ASN_DISABLE_PER_SUPPORT
#include <per_encoder.h>
#include <per_decoder.h>
#endif
#ifndef ASN_DISABLE_OER_SUPPORT
#include <oer_encoder.h>
#include <oer_decoder.h>
#endif

#define NOINSTR __attribute__((no_instrument_function))

/* written by the check: every named type of the module; `seeds` is an optional NULL-terminated
 * list of hex DER encodings used as value source where asn_random_fill is not available
 * (types containing ANY or an open type) */
struct pdu_ent { const char *name; asn_TYPE_descriptor_t *td; const char *const *seeds;
                 const char *const *decode_as;   /* optional NULL-terminated list of type names: encodings of THIS type are also decoded as those */ };
extern struct pdu_ent pdu_table[];

/* ------------------------------------------------------------------ PRNG */
static __thread uint64_t tl_rng = 88172645463325252ull;
static NOINSTR uint64_t rnext(void) {
    uint64_t z = (tl_rng += 0x9E3779B97F4A7C15ull);
    z = (z ^ (z >> 30)) * 0xBF58476D1CE4E5B9ull;
    z = (z ^ (z >> 27)) * 0x94D049BB133111EBull;
    return z ^ (z >> 31);
}
static NOINSTR unsigned rbelow(unsigned n) { return n ? (unsigned)(rnext() % n) : 0; }
/* interposes libc's random(): asn_random_fill / asn_random_between draw from the caller's stream */
NOINSTR long random(void) { return (long)(rnext() >> 33); }

/* ------------------------------------------------------------------ log */
typedef struct { char *p; size_t n, cap; int on; } log_t;
static NOINSTR void lput(log_t *l, const void *b, size_t n) {
    if(!l->on) return;
    if(l->n + n + 1 > l->cap) {
        l->cap = (l->cap + n + 1) * 2;
        l->p = realloc(l->p, l->cap);
        if(!l->p) abort();
    }
    memcpy(l->p + l->n, b, n);
    l->n += n;
    l->p[l->n] = 0;
}
static NOINSTR void lstr(log_t *l, const char *s) { lput(l, s, strlen(s)); }
static NOINSTR void lnum(log_t *l, const char *k, long v) {
    char b[96];
    int n = snprintf(b, sizeof b, " %s=%ld", k, v);
    lput(l, b, n);
}
static NOINSTR void lhex(log_t *l, const uint8_t *b, size_t n) {
    static const char hx[] = "0123456789abcdef";
    char t[2];
    size_t i;
    if(n > 48) n = 48;   /* the prefix is enough to tell results apart; keeps logs small */
    for(i = 0; i < n; i++) { t[0] = hx[b[i] >> 4]; t[1] = hx[b[i] & 15]; lput(l, t, 2); }
}

typedef struct { uint8_t *p; size_t n, cap; unsigned long calls; long fail_at; } buf_t;
static NOINSTR int cb_buf(const void *b, size_t n, void *k) {
    buf_t *o = k;
    if(o->fail_at > 0 && (long)o->calls + 1 == o->fail_at) { o->calls++; return -1; }   /* fault position: the fail_at-th invocation fails */
    o->calls++;
    if(o->n + n > (1u << 22)) return -1;   /* safety net: an encoder that never stops (BIT_STRING_encode_oer padding loop, C07) */
    if(o->n + n + 1 > o->cap) { o->cap = (o->cap + n + 1) * 2; o->p = realloc(o->p, o->cap); if(!o->p) abort(); }
    memcpy(o->p + o->n, b, n);
    o->n += n;
    return 0;
}
static NOINSTR void cb_ctfail(void *key, const asn_TYPE_descriptor_t *td, const void *sptr, const char *fmt, ...) {
    (void)td; (void)sptr; (void)fmt;
    (*(int *)key)++;
}

/* ------------------------------------------------------------------ type closure */
#define MAXT 512
static asn_TYPE_descriptor_t *TY[MAXT];
static int NTY;
static unsigned char HAS_NOPER[MAXT], HAS_NOOER[MAXT], HAS_NOFILL[MAXT], HAS_OPEN[MAXT], IS_REC[MAXT], NOT_PDU[MAXT];
static const char *const *SEEDS[MAXT];
/* types with a member that has no PER / OER codec used to be kept away from those codecs (NULL op slot called by the constructed
 * codecs); since /repo commit b8310cc the codecs fail cleanly, so these failure paths are part of the battery */
static int SKIP_NOCODEC = 0;
static unsigned long NVALID[MAXT + 1], NINVALID[MAXT + 1];   /* ro/cov mode (single thread): values seen per descriptor, by verdict of its own checker */
static int COUNT_VALUES;
#define MAXPEER 6
static int DECODE_AS[MAXT][MAXPEER], NDECODE_AS[MAXT];

static NOINSTR int ty_index(const asn_TYPE_descriptor_t *td) {
    int i;
    for(i = 0; i < NTY; i++) if(TY[i] == td) return i;
    return -1;
}
static NOINSTR void ty_add(asn_TYPE_descriptor_t *td) {
    unsigned i;
    if(!td || ty_index(td) >= 0 || NTY >= MAXT) return;
    TY[NTY++] = td;
    for(i = 0; i < td->elements_count; i++) ty_add(td->elements[i].type);
}
/* a descriptor (or one below it) without a PER / OER codec: calling the codec would
 * jump through a NULL op slot in the unchanged library (recorded under C01/C07) */
static NOINSTR int lacks(const asn_TYPE_descriptor_t *td, int what, int depth, const asn_TYPE_descriptor_t **stack) {
    unsigned i; int d;
    for(d = 0; d < depth; d++) if(stack[d] == td) return 0;
    if(depth >= 60) return 1;
    if(what == 0 && (!td->op->uper_encoder || (!td->op->uper_decoder && td->op != &asn_OP_OPEN_TYPE))) return 1;
    if(what == 1 && (!td->op->oer_encoder || !td->op->oer_decoder)) return 1;
    if(what == 2 && !td->op->random_fill) return 1;
    if(what == 3 && td->op == &asn_OP_OPEN_TYPE) return 1;
    stack[depth] = td;
    for(i = 0; i < td->elements_count; i++)
        if(td->elements[i].type && lacks(td->elements[i].type, what, depth + 1, stack)) return 1;
    return 0;
}
static NOINSTR int reaches(const asn_TYPE_descriptor_t *from, const asn_TYPE_descriptor_t *target, int depth, unsigned char *seen) {
    unsigned i; int k = ty_index(from);
    if(k < 0 || depth > 60) return 0;
    for(i = 0; i < from->elements_count; i++) {
        const asn_TYPE_descriptor_t *c = from->elements[i].type;
        int ck;
        if(c == target) return 1;
        ck = ty_index(c);
        if(ck >= 0 && !seen[ck]) { seen[ck] = 1; if(reaches(c, target, depth + 1, seen)) return 1; }
    }
    return 0;
}
static NOINSTR void collect_types(void) {
    struct pdu_ent *p;
    int i;
    const asn_TYPE_descriptor_t *stack[64];
    for(p = pdu_table; p->name; p++) ty_add(p->td);
    for(p = pdu_table; p->name; p++) SEEDS[ty_index(p->td)] = p->seeds;
    for(p = pdu_table; p->name; p++) {
        int me = ty_index(p->td), k;
        struct pdu_ent *q;
        for(k = 0; p->decode_as && p->decode_as[k]; k++)
            for(q = pdu_table; q->name; q++)
                if(!strcmp(q->name, p->decode_as[k]) && NDECODE_AS[me] < MAXPEER) DECODE_AS[me][NDECODE_AS[me]++] = ty_index(q->td);
    }
    for(i = 0; i < NTY; i++) {
        unsigned char seen[MAXT];
        HAS_NOPER[i] = (unsigned char)lacks(TY[i], 0, 0, stack);
        HAS_NOOER[i] = (unsigned char)lacks(TY[i], 1, 0, stack);
        HAS_NOFILL[i] = (unsigned char)lacks(TY[i], 2, 0, stack);
        HAS_OPEN[i] = (unsigned char)lacks(TY[i], 3, 0, stack);
        /* an open-type member has no decoder of its own: it is not a type a value can be decoded as */
        NOT_PDU[i] = (unsigned char)(!TY[i]->op->ber_decoder || !TY[i]->op->xer_decoder || TY[i]->op == &asn_OP_OPEN_TYPE);
        memset(seen, 0, sizeof seen);
        IS_REC[i] = (unsigned char)reaches(TY[i], TY[i], 0, seen);
    }
}

/* ------------------------------------------------------------------ the battery */
struct ctx {
    log_t log;
    int yield;          /* sprinkle sched_yield() (concurrent phase) */
    uint64_t yrng;      /* separate stream for the scheduling noise: never influences the script */
    const char *op;     /* current operation label (ro mode: read by the fault handler) */
    unsigned long nops; /* library calls made */
    unsigned visits[MAXT]; /* rounds run per type: hand-made values and random ones alternate, the hand-made ones in turn */
    int idx;            /* script index (thread number) */
    const asn_TYPE_descriptor_t *td;
};
static __thread struct ctx *CUR;

static NOINSTR void maybe_yield(struct ctx *c) {
    if(!c->yield) return;
    c->yrng = c->yrng * 6364136223846793005ull + 1442695040888963407ull;
    if(((c->yrng >> 33) & 3) == 0) sched_yield();
}
/* ro/cov mode: library calls per operation label (labels are string literals: keyed by address) */
#define MAXOPL 160
static struct { const char *name; unsigned long n; } OPL[MAXOPL];
static int COUNT_OPS;
static NOINSTR void count_op(const char *name) {
    int i;
    for(i = 0; i < MAXOPL; i++) {
        if(OPL[i].name == name) { OPL[i].n++; return; }
        if(!OPL[i].name) { OPL[i].name = name; OPL[i].n = 1; return; }
    }
}
#define OP(c, name) do { (c)->op = (name); (c)->nops++; if(COUNT_OPS) count_op(name); maybe_yield(c); } while(0)

static const struct { enum asn_transfer_syntax enc, dec; const char *name; int per, oer, xer; } SYN[] = {
    {ATS_DER, ATS_BER, "der", 0, 0, 0},
    {ATS_DER, ATS_DER, "der2", 0, 0, 0},
    {ATS_BER, ATS_BER, "ber", 0, 0, 0},
    {ATS_BASIC_OER, ATS_BASIC_OER, "oer", 0, 1, 0},
    {ATS_CANONICAL_OER, ATS_CANONICAL_OER, "coer", 0, 1, 0},
    {ATS_UNALIGNED_BASIC_PER, ATS_UNALIGNED_BASIC_PER, "uper", 1, 0, 0},
    {ATS_UNALIGNED_CANONICAL_PER, ATS_UNALIGNED_CANONICAL_PER, "cuper", 1, 0, 0},
    {ATS_BASIC_XER, ATS_BASIC_XER, "xer", 0, 0, 1},
    {ATS_CANONICAL_XER, ATS_CANONICAL_XER, "cxer", 0, 0, 1},
    {ATS_NONSTANDARD_PLAINTEXT, ATS_INVALID, "text", 0, 0, 0},
};
#define NSYN (sizeof(SYN) / sizeof(SYN[0]))

static NOINSTR int use_value(struct ctx *c, const asn_TYPE_descriptor_t *td, const void *st, const char *tag) {
    char errbuf[160];
    size_t errlen = sizeof errbuf;
    int rc, nfail = 0, valid;
    char *mem = 0; size_t memlen = 0;
    FILE *f;
    lstr(&c->log, " ["); lstr(&c->log, tag);
    OP(c, "asn_check_constraints");
    rc = asn_check_constraints(td, st, errbuf, &errlen);
    valid = (rc == 0);
    if(COUNT_VALUES) { int k = ty_index(td); if(k < 0) k = MAXT; if(valid) NVALID[k]++; else NINVALID[k]++; }
    lnum(&c->log, "chk", rc);
    if(rc) { lstr(&c->log, " err="); lput(&c->log, errbuf, errlen); }
    OP(c, "check_constraints(cb)");
    rc = td->encoding_constraints.general_constraints(td, st, cb_ctfail, &nfail);
    lnum(&c->log, "chk2", rc); lnum(&c->log, "nfail", nfail);
    OP(c, "check_constraints(nocb)");
    rc = td->encoding_constraints.general_constraints(td, st, 0, 0);
    lnum(&c->log, "chk3", rc);
    OP(c, "asn_fprint");
    f = open_memstream(&mem, &memlen);
    rc = asn_fprint(f, td, st);
    fclose(f);
    lnum(&c->log, "print", rc); lnum(&c->log, "plen", (long)memlen);
    lstr(&c->log, " "); lput(&c->log, mem, memlen > 200 ? 200 : memlen);
    free(mem);
    if(td->tags_count || td->op->outmost_tag) {
        OP(c, "outmost_tag");
        lnum(&c->log, "tag", (long)asn_TYPE_outmost_tag(td, st, 0, 0));
    }
    lstr(&c->log, "]");
    return valid;
}

/* helper functions that apply to values of a particular built-in representation */
static NOINSTR void kind_helpers(struct ctx *c, asn_TYPE_descriptor_t *td, void *st) {
    log_t *L = &c->log;
    const asn_TYPE_operation_t *op = td->op;
    if(op == &asn_OP_INTEGER || op == &asn_OP_ENUMERATED) {
        long l = 0; unsigned long ul = 0; intmax_t im = 0; uintmax_t um = 0;
        INTEGER_t tmp; const asn_INTEGER_enum_map_t *em;
        OP(c, "asn_INTEGER2x");
        lnum(L, "i2l", asn_INTEGER2long(st, &l)); lnum(L, "l", l);
        lnum(L, "i2ul", asn_INTEGER2ulong(st, &ul));
        lnum(L, "i2im", asn_INTEGER2imax(st, &im)); lnum(L, "i2um", asn_INTEGER2umax(st, &um));
        memset(&tmp, 0, sizeof tmp);
        OP(c, "asn_x2INTEGER");
        lnum(L, "l2i", asn_long2INTEGER(&tmp, l)); lnum(L, "ul2i", asn_ulong2INTEGER(&tmp, ul));
        lnum(L, "im2i", asn_imax2INTEGER(&tmp, im)); lnum(L, "um2i", asn_umax2INTEGER(&tmp, um));
        lhex(L, tmp.buf, tmp.size);
        ASN_STRUCT_FREE_CONTENTS_ONLY(asn_DEF_INTEGER, &tmp);
        if(td->specifics) {
            OP(c, "INTEGER_map_value2enum");
            em = INTEGER_map_value2enum(td->specifics, l);
            lstr(L, " enum="); lstr(L, em ? em->enum_name : "-");
        }
    } else if(op == &asn_OP_NativeInteger || op == &asn_OP_NativeEnumerated) {
        if(td->specifics) {
            const asn_INTEGER_enum_map_t *em;
            OP(c, "INTEGER_map_value2enum");
            em = INTEGER_map_value2enum(td->specifics, *(long *)st);
            lstr(L, " enum="); lstr(L, em ? em->enum_name : "-");
        }
    } else if(op == &asn_OP_OBJECT_IDENTIFIER || op == &asn_OP_RELATIVE_OID) {
        asn_oid_arc_t arcs[24]; ssize_t n; int k;
        OBJECT_IDENTIFIER_t tmp;
        memset(&tmp, 0, sizeof tmp);
        OP(c, "OID_get_arcs");
        n = (op == &asn_OP_OBJECT_IDENTIFIER) ? OBJECT_IDENTIFIER_get_arcs(st, arcs, 24) : RELATIVE_OID_get_arcs(st, arcs, 24);
        lnum(L, "arcs", (long)n);
        for(k = 0; k < n && k < 24; k++) lnum(L, "a", (long)arcs[k]);
        if(n > 0 && n <= 24) {
            OP(c, "OID_set_arcs");
            lnum(L, "set", (op == &asn_OP_OBJECT_IDENTIFIER) ? OBJECT_IDENTIFIER_set_arcs(&tmp, arcs, n) : RELATIVE_OID_set_arcs(&tmp, arcs, n));
            lhex(L, tmp.buf, tmp.size);
            ASN_STRUCT_FREE_CONTENTS_ONLY(asn_DEF_OBJECT_IDENTIFIER, &tmp);
        }
        OP(c, "OID_parse_arcs");
        lnum(L, "parse", (long)OBJECT_IDENTIFIER_parse_arcs("1.2.840.113549.1", -1, arcs, 24, 0));
    } else if(op == &asn_OP_REAL) {
        double d = 0; REAL_t tmp;
        memset(&tmp, 0, sizeof tmp);
        OP(c, "asn_REAL2double");
        lnum(L, "r2d", asn_REAL2double(st, &d));
        OP(c, "asn_double2REAL");
        lnum(L, "d2r", asn_double2REAL(&tmp, d));
        lhex(L, tmp.buf, tmp.size);
        ASN_STRUCT_FREE_CONTENTS_ONLY(asn_DEF_REAL, &tmp);
    } else if(op == &asn_OP_GeneralizedTime) {
        struct tm tm; int fv = 0, fd = 0; time_t t;
        GeneralizedTime_t *g;
        memset(&tm, 0, sizeof tm);
        OP(c, "asn_GT2time");
        t = asn_GT2time(st, &tm, 1); lnum(L, "gt", (long)t);
        t = asn_GT2time_frac(st, &fv, &fd, &tm, 1); lnum(L, "gtf", (long)t); lnum(L, "fv", fv);
        t = asn_GT2time_prec(st, &fv, 3, &tm, 1); lnum(L, "gtp", (long)t);
        if(t != (time_t)-1) {
            OP(c, "asn_time2GT");
            g = asn_time2GT(0, &tm, 1);
            if(g) { lstr(L, " t2gt="); lput(L, g->buf, g->size); ASN_STRUCT_FREE(asn_DEF_GeneralizedTime, g); }
            g = asn_time2GT_frac(0, &tm, 123, 3, 1);
            if(g) { lstr(L, " t2gtf="); lput(L, g->buf, g->size); ASN_STRUCT_FREE(asn_DEF_GeneralizedTime, g); }
        }
    } else if(op == &asn_OP_UTCTime) {
        struct tm tm; time_t t; UTCTime_t *u;
        memset(&tm, 0, sizeof tm);
        OP(c, "asn_UT2time");
        t = asn_UT2time(st, &tm, 1); lnum(L, "ut", (long)t);
        if(t != (time_t)-1) {
            OP(c, "asn_time2UT");
            u = asn_time2UT(0, &tm, 1);
            if(u) { lstr(L, " t2ut="); lput(L, u->buf, u->size); ASN_STRUCT_FREE(asn_DEF_UTCTime, u); }
        }
    } else if(op == &asn_OP_UTF8String) {
        uint32_t w[16];
        OP(c, "UTF8String_length");
        lnum(L, "u8len", (long)UTF8String_length(st));
        lnum(L, "u8wcs", (long)UTF8String_to_wcs(st, w, 16));
    } else if(op == &asn_OP_CHOICE) {
        unsigned pres;
        OP(c, "CHOICE_variant_get_presence");
        pres = CHOICE_variant_get_presence(td, st);
        lnum(L, "pres", pres);
        OP(c, "CHOICE_variant_set_presence");
        lnum(L, "setpres", CHOICE_variant_set_presence(td, st, pres));
    }
    if(op->print_struct == OCTET_STRING_print || op->print_struct == OCTET_STRING_print_utf8 || op->free_struct == OCTET_STRING_free) {
        if(op != &asn_OP_ANY && td->specifics != &asn_SPC_BIT_STRING_specs && op != &asn_OP_BIT_STRING) {
            OCTET_STRING_t *o;
            OP(c, "OCTET_STRING_new_fromBuf");
            o = OCTET_STRING_new_fromBuf(td, "19700101000000Z", 15);
            if(o) {
                OP(c, "OCTET_STRING_fromBuf");
                lnum(L, "frombuf", OCTET_STRING_fromBuf(o, "abc", -1));
                lnum(L, "osz", o->size);
                ASN_STRUCT_FREE(*td, o);
            }
        }
    }
}


/* ------------------------------------------------------------------ other BER forms of a DER encoding */
/* mode 1: every constructed TLV in the indefinite form (80 ... 00 00); mode 2: every length in the long form (82 hi lo);
 * mode 3: primitive universal-class string TLVs re-written as constructed strings of two segments (inside indefinite form). */
static NOINSTR void bput(buf_t *o, const void *b, size_t n) {
    if(o->n + n + 1 > o->cap) { o->cap = (o->cap + n + 1) * 2; o->p = realloc(o->p, o->cap); if(!o->p) abort(); }
    memcpy(o->p + o->n, b, n);
    o->n += n;
}
static NOINSTR void bput1(buf_t *o, unsigned v) { uint8_t c = (uint8_t)v; bput(o, &c, 1); }
static NOINSTR void bput_len(buf_t *o, size_t len, int mode) {
    if(mode == 2 && len < 65536) { bput1(o, 0x82); bput1(o, (unsigned)(len >> 8)); bput1(o, (unsigned)(len & 255)); return; }
    if(len < 128) { bput1(o, (unsigned)len); return; }
    if(len < 256) { bput1(o, 0x81); bput1(o, (unsigned)len); return; }
    if(len < 65536) { bput1(o, 0x82); bput1(o, (unsigned)(len >> 8)); bput1(o, (unsigned)(len & 255)); return; }
    bput1(o, 0x83); bput1(o, (unsigned)(len >> 16)); bput1(o, (unsigned)((len >> 8) & 255)); bput1(o, (unsigned)(len & 255));
}
static NOINSTR int is_univ_string_tag(unsigned t) {
    return t == 3 || t == 4 || t == 7 || t == 12 || (t >= 18 && t <= 22) || (t >= 25 && t <= 28) || t == 30;
}
/* -> 0 ok, -1 not a sequence of definite-length TLVs (then the variant is simply not tried) */
static NOINSTR int ber_rewrite(const uint8_t *b, size_t n, buf_t *o, int mode, int depth) {
    size_t i = 0;
    if(depth > 48) return -1;
    while(i < n) {
        size_t t0 = i, len = 0, k;
        unsigned first = b[i++], tagno = first & 31;
        if(tagno == 31) { tagno = 0; do { if(i >= n) return -1; tagno = (tagno << 7) | (b[i] & 127); } while(b[i++] & 128); }
        if(i >= n) return -1;
        if(b[i] & 128) {
            unsigned nl = b[i++] & 127;
            if(nl == 0 || nl > 3 || i + nl > n) return -1;
            for(k = 0; k < nl; k++) len = (len << 8) | b[i++];
        } else len = b[i++];
        if(i + len > n) return -1;
        if(first & 0x20) {                       /* constructed */
            buf_t in = {0, 0, 0, 0, 0};
            if(ber_rewrite(b + i, len, &in, mode, depth + 1)) { free(in.p); return -1; }
            bput(o, b + t0, (size_t)((b[t0] & 31) == 31 ? 0 : 1));
            if((b[t0] & 31) == 31) { size_t e = t0 + 1; while(b[e] & 128) e++; bput(o, b + t0, e + 1 - t0); }
            if(mode == 1 || mode == 3) { bput1(o, 0x80); bput(o, in.p, in.n); bput1(o, 0); bput1(o, 0); }
            else { bput_len(o, in.n, mode); bput(o, in.p, in.n); }
            free(in.p);
        } else if(mode == 3 && (first & 0xC0) == 0 && is_univ_string_tag(tagno) && len >= (tagno == 3 ? 3u : 2u)) {
            /* constructed string: two segments; a BIT STRING keeps its unused-bits octet on the last one */
            size_t cut = (tagno == 3) ? 1 + (len - 1) / 2 : len / 2;
            bput1(o, first | 0x20); bput1(o, 0x80);
            if(tagno == 3) {
                bput1(o, 3); bput_len(o, cut, 0); bput1(o, 0); bput(o, b + i + 1, cut - 1);
                bput1(o, 3); bput_len(o, 1 + (len - cut), 0); bput1(o, b[i]); bput(o, b + i + cut, len - cut);
            } else {
                bput1(o, 4); bput_len(o, cut, 0); bput(o, b + i, cut);
                bput1(o, 4); bput_len(o, len - cut, 0); bput(o, b + i + cut, len - cut);
            }
            bput1(o, 0); bput1(o, 0);
        } else {
            size_t e = t0 + 1;
            if((b[t0] & 31) == 31) { while(b[e] & 128) e++; e++; }
            bput(o, b + t0, e - t0);
            bput_len(o, len, mode);
            bput(o, b + i, len);
        }
        i += len;
    }
    return 0;
}

/* size of the C structure of a type, where the tables say it (constructed types and the OCTET STRING family) */
static NOINSTR size_t struct_size_of(const asn_TYPE_descriptor_t *td) {
    if(td->op == &asn_OP_SEQUENCE || td->op == &asn_OP_SET || td->op == &asn_OP_CHOICE || td->op == &asn_OP_SET_OF || td->op == &asn_OP_SEQUENCE_OF)
        return td->specifics ? *(const unsigned *)td->specifics : 0;
    if(td->op->free_struct == OCTET_STRING_free && td->op != &asn_OP_ANY)
        return td->specifics ? ((const asn_OCTET_STRING_specifics_t *)td->specifics)->struct_size : sizeof(OCTET_STRING_t);
    return 0;
}

/* every encoder on a value that may violate its constraints (decoded from a damaged / foreign-version / unconstrained-sibling
 * encoding, or mutilated in place): the encoders' own failure paths */
static NOINSTR void encode_all(struct ctx *c, asn_TYPE_descriptor_t *td, const void *st, const char *tag) {
    size_t s;
    int ti = ty_index(td);
    lstr(&c->log, " <"); lstr(&c->log, tag);
    for(s = 0; s < NSYN; s++) {
        buf_t out = {0, 0, 0, 0, 0};
        asn_enc_rval_t er;
        if(SKIP_NOCODEC && ti >= 0 && SYN[s].per && HAS_NOPER[ti]) continue;
        if(SKIP_NOCODEC && ti >= 0 && SYN[s].oer && HAS_NOOER[ti]) continue;
        OP(c, "asn_encode(unchecked value)");
        er = asn_encode(0, SYN[s].enc, td, st, cb_buf, &out);
        lstr(&c->log, " "); lstr(&c->log, SYN[s].name); lnum(&c->log, "e", (long)er.encoded);
        if(er.encoded < 0 && er.failed_type) { lstr(&c->log, " ft="); lstr(&c->log, er.failed_type->name); }
        lstr(&c->log, " "); lhex(&c->log, out.p, out.n);
        free(out.p);
    }
    lstr(&c->log, ">");
}

/* A type without an OER codec (every SET, ANY) is part of the battery like any other: oer_decode()/oer_encode() and
 * asn_decode(ATS_*_OER) answer RC_FAIL / -1 for it (they called the NULL slot until the repair of C19-oer-entry-null-codec;
 * the `ro` mode additionally probes both entry points once per such type in a recovery scope of their own). */

static NOINSTR void decode_and_use(struct ctx *c, asn_TYPE_descriptor_t *td, int s, const uint8_t *b, size_t n, const void *orig, const char *tag, int reenc) {
    void *st2 = 0;
    asn_dec_rval_t rv;
    OP(c, "asn_decode");
    rv = asn_decode(0, SYN[s].dec, td, &st2, b, n);
    lstr(&c->log, " "); lstr(&c->log, tag); lnum(&c->log, "dec", rv.code); lnum(&c->log, "used", (long)rv.consumed);
    if(rv.code == RC_OK && st2) {
        if(orig) {
            OP(c, "compare_struct");
            lnum(&c->log, "cmp", td->op->compare_struct(td, orig, st2));
            lnum(&c->log, "cmpr", td->op->compare_struct(td, st2, orig));
        }
        use_value(c, td, st2, "d");
        if(reenc) encode_all(c, td, st2, tag);
    }
    OP(c, "free");
    ASN_STRUCT_FREE(*td, st2);
}

/* values no decoder produces: a mandatory member missing, nothing / something impossible selected in a CHOICE, the all-zero structure */
static NOINSTR void mutilated_round(struct ctx *c, int ti) {
    asn_TYPE_descriptor_t *td = TY[ti];
    log_t *L = &c->log;
    void *st = 0;
    unsigned i, nptr = 0;
    int isseq = (td->op == &asn_OP_SEQUENCE), isset = (td->op == &asn_OP_SET), isch = (td->op == &asn_OP_CHOICE);
    if(!(isseq || isset || isch) || HAS_NOFILL[ti] || NOT_PDU[ti]) return;
    lstr(L, td->name); lstr(L, ":mut");
    OP(c, "asn_random_fill");
    if(asn_random_fill(td, &st, IS_REC[ti] ? 24 : 80) != 0 || !st) { lstr(L, " novalue\n"); return; }
    if(isseq || isset) {
        /* drop one mandatory member that is held by pointer */
        for(i = 0; i < td->elements_count; i++)
            if((td->elements[i].flags & ATF_POINTER) && !td->elements[i].optional) nptr++;
        if(nptr) {
            unsigned pick = rbelow(nptr);
            for(i = 0; i < td->elements_count; i++) {
                asn_TYPE_member_t *elm = &td->elements[i];
                if(!((elm->flags & ATF_POINTER) && !elm->optional)) continue;
                if(pick-- == 0) {
                    void **pp = (void **)((char *)st + elm->memb_offset);
                    OP(c, "free");
                    if(*pp) { ASN_STRUCT_FREE(*elm->type, *pp); *pp = 0; }
                    lnum(L, "dropped", (long)i);
                    break;
                }
            }
            use_value(c, td, st, "m");
            OP(c, "compare_struct(self)");
            lnum(L, "self", td->op->compare_struct(td, st, st));
            encode_all(c, td, st, "missing");
        }
    } else {
        /* a presence selector beyond the alternatives; put back before the value is released */
        unsigned keep;
        OP(c, "CHOICE_variant_get_presence");
        keep = CHOICE_variant_get_presence(td, st);
        {
            const asn_CHOICE_specifics_t *specs = (const asn_CHOICE_specifics_t *)td->specifics;
            if(specs->pres_size == sizeof(int)) {
                int *pres = (int *)((char *)st + specs->pres_offset);
                *pres = (int)td->elements_count + 3;
                use_value(c, td, st, "m");
                encode_all(c, td, st, "badpres");
                *pres = (int)keep;
            }
        }
    }
    /* the all-zero structure (what ASN_STRUCT_RESET leaves): nothing selected / every pointer member absent */
    OP(c, "free(reset)");
    ASN_STRUCT_RESET(*td, st);
    use_value(c, td, st, "z");
    OP(c, "compare_struct(self)");
    lnum(L, "self", td->op->compare_struct(td, st, st));
    encode_all(c, td, st, "zero");
    OP(c, "free");
    ASN_STRUCT_FREE(*td, st);
    lstr(L, "\n");
}

static NOINSTR void one_round(struct ctx *c, int ti) {
    asn_TYPE_descriptor_t *td = TY[ti];
    log_t *L = &c->log;
    void *st = 0, *st2 = 0;
    int rc;
    unsigned visit;
    size_t s, k;
    asn_enc_rval_t er;
    asn_dec_rval_t rv;
    uint8_t fixed[64];

    c->td = td;
    if(NOT_PDU[ti]) return;
    lstr(L, td->name); lstr(L, ":");
    visit = c->visits[ti]++;
    if(SEEDS[ti] && SEEDS[ti][0] && (HAS_NOFILL[ti] || (visit & 1) == 0)) {
        /* value from a hand-made DER encoding */
        int ns = 0; const char *h; uint8_t sb[256]; size_t sn = 0;
        while(SEEDS[ti][ns]) ns++;
        h = SEEDS[ti][((HAS_NOFILL[ti] ? visit : visit / 2) + (unsigned)c->idx) % (unsigned)ns];
        {   /* "oer:", "uper:", "xer:" in front of the hex digits select the syntax of a hand-made encoding; BER otherwise */
            enum asn_transfer_syntax syn = ATS_BER;
            if(!strncmp(h, "oer:", 4)) { syn = ATS_BASIC_OER; h += 4; }
            else if(!strncmp(h, "uper:", 5)) { syn = ATS_UNALIGNED_BASIC_PER; h += 5; }
            else if(!strncmp(h, "xer:", 4)) { syn = ATS_BASIC_XER; h += 4; }
            for(; h[0] && h[1] && sn < sizeof sb; h += 2) { unsigned v = 0; sscanf(h, "%2x", &v); sb[sn++] = (uint8_t)v; }
            OP(c, "asn_decode(seed)");
            rv = asn_decode(0, syn, td, &st, sb, sn);
        }
        lnum(L, "seed", rv.code);
        if(rv.code != RC_OK) { OP(c, "free"); ASN_STRUCT_FREE(*td, st); st = 0; }   /* a directed undecodable input: the decoder's failure path ran */
    }
    if(!st && !HAS_NOFILL[ti]) {
        OP(c, "asn_random_fill");
        rc = asn_random_fill(td, &st, IS_REC[ti] ? 24 : 60 + rbelow(200));
        lnum(L, "fill", rc);
        if(rc != 0) st = 0;
    }
    if(!st) { lstr(L, " novalue\n"); return; }
    use_value(c, td, st, "v");
    OP(c, "compare_struct(self)");
    lnum(L, "self", td->op->compare_struct(td, st, st));
    /* compare with NULL is left out: BIT_STRING_compare dereferences a NULL operand in the unchanged library */
    kind_helpers(c, td, st);

    for(s = 0; s < NSYN; s++) {
        buf_t out = {0, 0, 0, 0, 0};
        asn_encode_to_new_buffer_result_t nb;
        if(SKIP_NOCODEC && SYN[s].per && HAS_NOPER[ti]) continue;
        if(SKIP_NOCODEC && SYN[s].oer && HAS_NOOER[ti]) continue;
        /* (values that fail their own constraint check are OER-encoded too since /repo commit 668e2d3 ended the
         * BIT_STRING_encode_oer padding loop) */
        lstr(L, " {"); lstr(L, SYN[s].name);
        OP(c, "asn_encode");
        er = asn_encode(0, SYN[s].enc, td, st, cb_buf, &out);
        lnum(L, "enc", (long)er.encoded); lstr(L, " "); lhex(L, out.p, out.n);
        /* failing output callbacks are not part of the battery: the unchanged library asserts on them
         * (SEQUENCE_encode_oer `ret == 0`, asn_encode `errno == EBADF`; recorded under C07) */
        OP(c, "asn_encode_to_buffer");
        er = asn_encode_to_buffer(0, SYN[s].enc, td, st, fixed, sizeof fixed);
        lnum(L, "tobuf", (long)er.encoded);
        OP(c, "asn_encode_to_new_buffer");
        nb = asn_encode_to_new_buffer(0, SYN[s].enc, td, st);
        lnum(L, "newbuf", (long)nb.result.encoded);
        free(nb.buffer);
        /* fault position: the output callback fails at its first, second, a middle and its last invocation */
        {
            unsigned long ncalls = out.calls, kk;
            long pos[4];
            pos[0] = 1; pos[1] = 2; pos[2] = ncalls ? 1 + (long)rbelow((unsigned)ncalls) : 1; pos[3] = (long)ncalls;
            for(kk = 0; kk < 4; kk++) {
                buf_t fo = {0, 0, 0, 0, 0};
                if(pos[kk] < 1 || (unsigned long)pos[kk] > ncalls || (kk > 0 && pos[kk] == pos[kk - 1])) continue;
                fo.fail_at = pos[kk];
                OP(c, "asn_encode(callback fails)");
                errno = 0;
                er = asn_encode(0, SYN[s].enc, td, st, cb_buf, &fo);
                lnum(L, "cbf", pos[kk]); lnum(L, "r", (long)er.encoded); lnum(L, "calls", (long)fo.calls);
                free(fo.p);
            }
        }
        if(SYN[s].dec != ATS_INVALID && out.n < 100000) {
            int pk;
            decode_and_use(c, td, s, out.p, out.n, st, "rt", 0);
            if(s == 0) {
                /* the same value in the other BER forms: indefinite lengths, long-form lengths, constructed strings; one-shot and fed byte-wise */
                int mode;
                for(mode = 1; mode <= 3; mode++) {
                    buf_t alt = {0, 0, 0, 0, 0};
                    static const char *const MN[] = {"", "indef", "longlen", "cstr"};
                    if(ber_rewrite(out.p, out.n, &alt, mode, 0) == 0 && alt.n) {
                        decode_and_use(c, td, s, alt.p, alt.n, st, MN[mode], 0);
                        if(alt.n < 600) {
                            size_t off = 0, step = 1; int guard = 0;
                            st2 = 0;
                            OP(c, "ber_decode(chunked)");
                            do {
                                size_t take = off + step > alt.n ? alt.n - off : step;
                                rv = ber_decode(0, td, &st2, alt.p + off, take);
                                off += rv.consumed;
                                if(rv.code == RC_WMORE && rv.consumed == 0) step++; else step = 1;
                            } while(rv.code == RC_WMORE && off < alt.n && ++guard < 4000);
                            lnum(L, "chunk", rv.code); lnum(L, "off", (long)off);
                            OP(c, "free");
                            ASN_STRUCT_FREE(*td, st2);
                        }
                    }
                    free(alt.p);
                }
            }
            if(SYN[s].xer && out.n < 20000) {
                /* XML prolog, comment and white space in front of the document */
                static const char pro[] = "<?xml version=\"1.0\" encoding=\"UTF-8\"?>\n<!-- c19 -->\n  ";
                uint8_t *x = malloc(sizeof pro + out.n);
                memcpy(x, pro, sizeof pro - 1); memcpy(x + sizeof pro - 1, out.p, out.n);
                decode_and_use(c, td, s, x, sizeof pro - 1 + out.n, st, "prolog", 0);
                free(x);
            }
            {
                /* decode into a structure the caller provides, and under a stack limit (generous, then tiny) */
                size_t ssz = struct_size_of(td);
                asn_codec_ctx_t cx;
                if(ssz) {
                    st2 = calloc(1, ssz);
                    OP(c, "asn_decode(into caller's structure)");
                    rv = asn_decode(0, SYN[s].dec, td, &st2, out.p, out.n);
                    lnum(L, "pre", rv.code);
                    if(rv.code == RC_OK) { OP(c, "compare_struct"); lnum(L, "cmp", td->op->compare_struct(td, st, st2)); }
                    OP(c, "free");
                    ASN_STRUCT_FREE(*td, st2);
                }
                cx.max_stack_size = 1u << 20;
                st2 = 0;
                OP(c, "asn_decode(stack limit)");
                rv = asn_decode(&cx, SYN[s].dec, td, &st2, out.p, out.n);
                lnum(L, "lim", rv.code);
                OP(c, "free");
                ASN_STRUCT_FREE(*td, st2);
                cx.max_stack_size = 64;
                st2 = 0;
                OP(c, "asn_decode(stack limit)");
                rv = asn_decode(&cx, SYN[s].dec, td, &st2, out.p, out.n);
                lnum(L, "tiny", rv.code);
                OP(c, "free");
                ASN_STRUCT_FREE(*td, st2);
            }
            /* the same octets as another version / a differently constrained sibling of the type */
            for(pk = 0; pk < NDECODE_AS[ti]; pk++) {
                int di = DECODE_AS[ti][pk];
                if(di < 0 || NOT_PDU[di]) continue;
                if(SKIP_NOCODEC && ((SYN[s].per && HAS_NOPER[di]) || (SYN[s].oer && HAS_NOOER[di]))) continue;
                c->td = TY[di];
                lstr(L, " as:"); lstr(L, TY[di]->name);
                decode_and_use(c, TY[di], s, out.p, out.n, 0, "peer", 1);
                c->td = td;
            }
            /* invalid / damaged inputs (types holding an open type included since /repo commit 1c56988 fixed the
             * failure clean-up of OPEN_TYPE_*_get, finding C18-opentype-null-specifics) */
            if(out.n > 0) {
                uint8_t *m = malloc(out.n + 8);
                size_t cut = rbelow((unsigned)out.n);
                memcpy(m, out.p, out.n);
                decode_and_use(c, td, s, m, cut, 0, "cut", 0);
                for(k = 0; k < 2; k++) {
                    size_t pos = rbelow((unsigned)out.n);
                    uint8_t old = m[pos];
                    m[pos] ^= (uint8_t)(1u << rbelow(8));
                    decode_and_use(c, td, s, m, out.n, 0, "flip", 1);
                    m[pos] = old;
                }
                memset(m + out.n, 0, 8);
                decode_and_use(c, td, s, m, out.n + 8, 0, "pad", 0);
                free(m);
            }
            {
                uint8_t junk[24];
                for(k = 0; k < sizeof junk; k++) junk[k] = (uint8_t)rnext();
                decode_and_use(c, td, s, junk, 1 + rbelow(sizeof junk - 1), 0, "junk", 0);
            }
        }
        free(out.p);
        lstr(L, "}");
    }

    /* the per-syntax entry points themselves */
    {
        buf_t out = {0, 0, 0, 0, 0};
        uint8_t *nbuf = 0; ssize_t nn;
        char *mem = 0; size_t memlen = 0; FILE *f;
        lstr(L, " {direct");
        OP(c, "der_encode");
        er = der_encode(td, st, cb_buf, &out); lnum(L, "der", (long)er.encoded);
        OP(c, "der_encode_to_buffer");
        er = der_encode_to_buffer(td, st, fixed, sizeof fixed); lnum(L, "derb", (long)er.encoded);
        OP(c, "der_encode(no callback: size only)");
        er = der_encode(td, st, 0, 0); lnum(L, "dersz", (long)er.encoded);
        OP(c, "ber_decode");
        st2 = 0; rv = ber_decode(0, td, &st2, out.p, out.n); lnum(L, "ber", rv.code);
        if(rv.code == RC_OK && st2) {
            OP(c, "xer_equivalent");
            lnum(L, "xeq", xer_equivalent(td, st, st2, 0));
        }
        OP(c, "free(reset)");
        if(st2) { ASN_STRUCT_RESET(*td, st2); OP(c, "free"); ASN_STRUCT_FREE(*td, st2); }
        /* restartable decode, one byte at a time at first */
        if(out.n > 1 && out.n < 400) {
            size_t off = 0, step = 1; int guard = 0;
            st2 = 0;
            OP(c, "ber_decode(chunked)");
            do {
                size_t take = off + step > out.n ? out.n - off : step;
                rv = ber_decode(0, td, &st2, out.p + off, take);
                off += rv.consumed;
                if(rv.code == RC_WMORE && rv.consumed == 0) step++;
            } while(rv.code == RC_WMORE && off < out.n && ++guard < 2000);
            lnum(L, "chunk", rv.code);
            OP(c, "free");
            ASN_STRUCT_FREE(*td, st2);
        }
        out.n = 0;
        OP(c, "xer_encode");
        er = xer_encode(td, st, XER_F_BASIC, cb_buf, &out); lnum(L, "xer", (long)er.encoded);
        OP(c, "xer_decode");
        st2 = 0; rv = xer_decode(0, td, &st2, out.p, out.n); lnum(L, "xdec", rv.code);
        OP(c, "free");
        ASN_STRUCT_FREE(*td, st2);
        if(out.n > 1 && out.n < 600) {
            size_t off = 0, step = 3; int guard = 0;
            st2 = 0;
            OP(c, "xer_decode(chunked)");
            do {
                size_t take = off + step > out.n ? out.n - off : step;
                rv = xer_decode(0, td, &st2, out.p + off, take);
                off += rv.consumed;
                if(rv.code == RC_WMORE && rv.consumed == 0) step += 3;
            } while(rv.code == RC_WMORE && off < out.n && ++guard < 2000);
            lnum(L, "xchunk", rv.code);
            OP(c, "free");
            ASN_STRUCT_FREE(*td, st2);
        }
        OP(c, "xer_fprint");
        f = open_memstream(&mem, &memlen);
        lnum(L, "xfp", xer_fprint(f, td, st));
        fclose(f); free(mem);
#ifndef ASN_DISABLE_PER_SUPPORT
        if(!SKIP_NOCODEC || !HAS_NOPER[ti]) {
            out.n = 0;
            OP(c, "uper_encode");
            er = uper_encode(td, 0, st, cb_buf, &out); lnum(L, "uper", (long)er.encoded);
            OP(c, "uper_encode(no callback: size only)");
            er = uper_encode(td, 0, st, 0, 0); lnum(L, "upersz", (long)er.encoded);
            OP(c, "uper_encode_to_buffer");
            er = uper_encode_to_buffer(td, 0, st, fixed, sizeof fixed); lnum(L, "uperb", (long)er.encoded);
            OP(c, "uper_encode_to_new_buffer");
            nn = uper_encode_to_new_buffer(td, 0, st, (void **)&nbuf); lnum(L, "upern", (long)nn);
            free(nbuf);
            OP(c, "uper_decode_complete");
            st2 = 0; rv = uper_decode_complete(0, td, &st2, out.p, out.n); lnum(L, "updc", rv.code);
            OP(c, "free");
            ASN_STRUCT_FREE(*td, st2);
            OP(c, "uper_decode");
            st2 = 0; rv = uper_decode(0, td, &st2, out.p, out.n, 0, 0); lnum(L, "upd", rv.code);
            OP(c, "free");
            ASN_STRUCT_FREE(*td, st2);
        }
#endif
#ifndef ASN_DISABLE_OER_SUPPORT
        if(!SKIP_NOCODEC || !HAS_NOOER[ti]) {
            out.n = 0;
            OP(c, "oer_encode");
            er = oer_encode(td, st, cb_buf, &out); lnum(L, "oer", (long)er.encoded);
            OP(c, "oer_encode_to_buffer");
            er = oer_encode_to_buffer(td, 0, st, fixed, sizeof fixed); lnum(L, "oerb", (long)er.encoded);
            OP(c, "oer_decode");
            st2 = 0; rv = oer_decode(0, td, &st2, out.p, out.n); lnum(L, "oerd", rv.code);
            OP(c, "free");
            ASN_STRUCT_FREE(*td, st2);
        }
#endif
        free(out.p);
        lstr(L, "}");
    }

    /* ANY_fromType / ANY_to_type wrap every type */
    {
        ANY_t any, *pa;
        memset(&any, 0, sizeof any);
        OP(c, "ANY_fromType");
        rc = ANY_fromType(&any, td, st);
        lnum(L, "any", rc); lnum(L, "anysz", any.size);
        if(rc == 0) {
            st2 = 0;
            OP(c, "ANY_to_type");
            rc = ANY_to_type(&any, td, &st2);
            lnum(L, "anyto", rc);
            if(rc == 0 && st2) { OP(c, "compare_struct"); lnum(L, "anycmp", td->op->compare_struct(td, st, st2)); }
            OP(c, "free");
            ASN_STRUCT_FREE(*td, st2);
        }
        ASN_STRUCT_FREE_CONTENTS_ONLY(asn_DEF_ANY, &any);
        OP(c, "ANY_new_fromType");
        pa = ANY_new_fromType(td, st);
        if(pa) { use_value(c, &asn_DEF_ANY, pa, "any"); ASN_STRUCT_FREE(asn_DEF_ANY, pa); }
    }

    /* random fill through the decoder front end */
    st2 = 0;
    rv.code = RC_FAIL;
    if(!HAS_NOFILL[ti] && !IS_REC[ti]) {
        OP(c, "asn_decode(ATS_RANDOM)");
        rv = asn_decode(0, ATS_RANDOM, td, &st2, "", 0);
        lnum(L, "rnd", rv.code);
    }
    if(rv.code == RC_OK && st2) {
        OP(c, "compare_struct");
        lnum(L, "cmp2", td->op->compare_struct(td, st, st2));
        /* list surgery on a value nobody else owns */
        if(td->op == &asn_OP_SET_OF || td->op == &asn_OP_SEQUENCE_OF) {
            asn_anonymous_set_ *lst = (asn_anonymous_set_ *)st2;   /* the list head is the first member */
            void *el = 0;
            OP(c, "asn_set_add");
            if(asn_random_fill(td->elements[0].type, &el, 20) == 0 && el) {
                if(asn_set_add(lst, el) != 0) ASN_STRUCT_FREE(*td->elements[0].type, el);
            }
            lnum(L, "cnt", lst->count);
            OP(c, "asn_set_del");
            if(lst->count > 0) {
                void *victim = lst->array[0];
                if(td->op == &asn_OP_SEQUENCE_OF) asn_sequence_del(lst, 0, 0); else asn_set_del(lst, 0, 0);
                ASN_STRUCT_FREE(*td->elements[0].type, victim);
            }
            lnum(L, "cnt", lst->count);
            use_value(c, td, st2, "l");
        }
    }
    OP(c, "free(contents)");
    if(st2) { ASN_STRUCT_FREE_CONTENTS_ONLY(*td, st2); free(st2); }
    OP(c, "free");
    ASN_STRUCT_FREE(*td, st);
    lstr(L, "\n");
}


/* calls with no structure at all: every operation must answer (fail) without touching anything */
static NOINSTR void null_round(struct ctx *c, int ti) {
    asn_TYPE_descriptor_t *td = TY[ti];
    log_t *L = &c->log;
    char errbuf[64]; size_t errlen = sizeof errbuf;
    char *mem = 0; size_t memlen = 0; FILE *f;
    size_t s;
    if(NOT_PDU[ti]) return;
    c->td = td;
    lstr(L, td->name); lstr(L, ":null");
    OP(c, "asn_check_constraints(NULL)");
    lnum(L, "chk", asn_check_constraints(td, 0, errbuf, &errlen));
    OP(c, "asn_fprint(NULL)");
    f = open_memstream(&mem, &memlen);
    lnum(L, "print", asn_fprint(f, td, 0));
    fclose(f); free(mem);
    for(s = 0; s < NSYN; s++) {
        buf_t out = {0, 0, 0, 0, 0};
        asn_enc_rval_t er;
        if(SKIP_NOCODEC && SYN[s].per && HAS_NOPER[ti]) continue;
        if(SKIP_NOCODEC && SYN[s].oer && HAS_NOOER[ti]) continue;
        OP(c, "asn_encode(NULL)");
        er = asn_encode(0, SYN[s].enc, td, 0, cb_buf, &out);
        lnum(L, SYN[s].name, (long)er.encoded);
        free(out.p);
    }
    OP(c, "free(NULL)");
    ASN_STRUCT_FREE(*td, 0);
    lstr(L, "\n");
}

/* operations that take no structure: tag / length / number helpers */
static NOINSTR void leaf_round(struct ctx *c) {
    log_t *L = &c->log;
    uint8_t b[32]; char t[64];
    ber_tlv_tag_t tag = 0; ber_tlv_len_t len = 0;
    size_t n, k;
    char *mem = 0; size_t memlen = 0; FILE *f;
    intmax_t im = 0; uintmax_t um = 0; long l = 0; unsigned long ul = 0;
    const char *end;
    static const char *nums[] = {"0", "-1", "123456789", "99999999999999999999999", "  42", "12x", "", "+7", "-9223372036854775808"};
    c->td = 0;
    lstr(L, "leaf:");
    for(k = 0; k < sizeof b; k++) b[k] = (uint8_t)rnext();
    OP(c, "ber_fetch_tag");
    lnum(L, "ft", (long)ber_fetch_tag(b, sizeof b, &tag)); lnum(L, "tag", (long)tag);
    OP(c, "ber_tlv_tag_serialize");
    n = ber_tlv_tag_serialize(tag, b, sizeof b); lnum(L, "ts", (long)n);
    OP(c, "ber_tlv_tag_snprint");
    lnum(L, "sn", (long)ber_tlv_tag_snprint(tag, t, sizeof t)); lstr(L, " "); lstr(L, t);
    OP(c, "ber_tlv_tag_fwrite");
    f = open_memstream(&mem, &memlen); lnum(L, "fw", (long)ber_tlv_tag_fwrite(tag, f)); fclose(f); free(mem);
    for(k = 0; k < sizeof b; k++) b[k] = (uint8_t)rnext();
    OP(c, "ber_fetch_length");
    lnum(L, "fl", (long)ber_fetch_length(rbelow(2), b, sizeof b, &len)); lnum(L, "len", (long)len);
    OP(c, "der_tlv_length_serialize");
    lnum(L, "ls", (long)der_tlv_length_serialize(len < 0 ? 5 : len, b, sizeof b));
    OP(c, "ber_skip_length");
    lnum(L, "sk", (long)ber_skip_length(0, 1, b, sizeof b));
    for(k = 0; k < sizeof nums / sizeof nums[0]; k++) {
        OP(c, "asn_strtox_lim");
        end = nums[k] + strlen(nums[k]); lnum(L, "sim", asn_strtoimax_lim(nums[k], &end, &im)); lnum(L, "v", (long)im);
        end = nums[k] + strlen(nums[k]); lnum(L, "sum", asn_strtoumax_lim(nums[k], &end, &um));
        end = nums[k] + strlen(nums[k]); lnum(L, "sl", asn_strtol_lim(nums[k], &end, &l));
        end = nums[k] + strlen(nums[k]); lnum(L, "sul", asn_strtoul_lim(nums[k], &end, &ul));
    }
    OP(c, "asn_random_between");
    lnum(L, "rb", (long)asn_random_between(-5, 500));
    OP(c, "asn_generic_no_constraint");
    lnum(L, "gnc", asn_generic_no_constraint(&asn_DEF_ANY, 0, 0, 0));
    {   /* XER text with entity references and a comment, into a built-in type */
        static const char x[] = "<UTF8String>a&amp;b&lt;&#x41;&#66;<!-- c -->z</UTF8String>";
        void *u = 0; asn_dec_rval_t rv;
        c->td = &asn_DEF_UTF8String;
        OP(c, "xer_decode(entities)");
        rv = xer_decode(0, &asn_DEF_UTF8String, &u, x, sizeof x - 1);
        lnum(L, "xent", rv.code);
        if(rv.code == RC_OK && u) { lstr(L, " "); lput(L, ((UTF8String_t *)u)->buf, ((UTF8String_t *)u)->size); }
        OP(c, "free");
        ASN_STRUCT_FREE(asn_DEF_UTF8String, u);
        c->td = 0;
    }
    OP(c, "get_asn1c_environment_version");
    lnum(L, "envver", get_asn1c_environment_version() > 0);
    lstr(L, "\n");
}

static NOINSTR void script(struct ctx *c, uint64_t seed, int idx, int iters) {
    int it, i;
    tl_rng = seed * 1000003u + (uint64_t)idx * 7919u + 17;
    c->yrng = tl_rng ^ 0x5555555555555555ull;
    c->idx = idx;
    memset(c->visits, 0, sizeof c->visits);
    CUR = c;
    for(it = 0; it < iters; it++) {
        /* every thread starts at a different type and walks all of them */
        int start = (int)((seed + (uint64_t)idx * 5 + (uint64_t)it * 3) % (uint64_t)(NTY ? NTY : 1));
        leaf_round(c);
        for(i = 0; i < NTY; i++) { one_round(c, (start + i) % NTY); mutilated_round(c, (start + i) % NTY); null_round(c, (start + i) % NTY); }
    }
}

/* ================================================================== thr mode */
struct job { struct ctx c; uint64_t seed; int idx, iters; pthread_barrier_t *bar; };
static NOINSTR void *run_job(void *arg) {
    struct job *j = arg;
    if(j->bar) pthread_barrier_wait(j->bar);
    script(&j->c, j->seed, j->idx, j->iters);
    return 0;
}

static NOINSTR int main_thr(uint64_t seed, int nthr, int iters) {
    struct job *solo = calloc(nthr, sizeof *solo), *conc = calloc(nthr, sizeof *conc);
    pthread_t *th = calloc(nthr, sizeof *th);
    pthread_barrier_t bar;
    int i, bad = 0;
    size_t total = 0;
    pthread_barrier_init(&bar, 0, nthr);
    for(i = 0; i < nthr; i++) {
        solo[i].seed = conc[i].seed = seed;
        solo[i].idx = conc[i].idx = i;
        solo[i].iters = conc[i].iters = iters;
        solo[i].c.log.on = conc[i].c.log.on = 1;
        conc[i].c.yield = 1; conc[i].bar = &bar;
    }
    /* no type has been used yet (collect_types only follows pointers): first use is raced */
    for(i = 0; i < nthr; i++) pthread_create(&th[i], 0, run_job, &conc[i]);
    for(i = 0; i < nthr; i++) pthread_join(th[i], 0);
    for(i = 0; i < nthr; i++) run_job(&solo[i]);
    for(i = 0; i < nthr; i++) {
        log_t *a = &solo[i].c.log, *b = &conc[i].c.log;
        total += a->n;
        if(a->n != b->n || memcmp(a->p, b->p, a->n)) {
            size_t k = 0, s, e;
            while(k < a->n && k < b->n && a->p[k] == b->p[k]) k++;
            s = k; while(s > 0 && a->p[s - 1] != '\n') s--;
            e = k; while(e < a->n && a->p[e] != '\n') e++;
            printf("THR DIFF thread=%d offset=%zu at=%zu\n solo: %.*s\n", i, k, k - s, (int)(e - s > 1500 ? 1500 : e - s), a->p + s);
            e = k; while(e < b->n && b->p[e] != '\n') e++;
            printf(" conc: %.*s\n", (int)(e > s ? (e - s > 1500 ? 1500 : e - s) : 0), b->p + s);
            bad = 1;
        }
    }
    {
        unsigned long ops = 0;
        for(i = 0; i < nthr; i++) ops += conc[i].c.nops;
        printf("THR %s seed=%llu threads=%d iters=%d types=%d ops=%lu logbytes=%zu\n", bad ? "DIFF" : "ok", (unsigned long long)seed, nthr, iters, NTY, ops, total);
    }
    return bad ? 3 : 0;
}

/* ================================================================== ro mode */
#ifdef C19_CANARY
extern void c19_canary_poke(void);
extern int c19_canary_data, c19_canary_bss, c19_canary_same;
#endif
/* the detector's self-test objects are reported apart (CANARY lines) and do not count */
static NOINSTR const char *canary_name(uintptr_t a) {
#ifdef C19_CANARY
    if(a >= (uintptr_t)&c19_canary_data && a < (uintptr_t)(&c19_canary_data + 1)) return "c19_canary_data";
    if(a >= (uintptr_t)&c19_canary_bss && a < (uintptr_t)(&c19_canary_bss + 1)) return "c19_canary_bss";
    if(a >= (uintptr_t)&c19_canary_same && a < (uintptr_t)(&c19_canary_same + 1)) return "c19_canary_same";
#endif
    (void)a;
    return 0;
}
#define MAXSEG 8
static struct seg { uintptr_t lo, hi; uint8_t *snap; } SEGS[MAXSEG];
static int NSEG;
static uintptr_t LIB_BASE, RELRO_LO, RELRO_HI, LIB_LO = ~(uintptr_t)0, LIB_HI;
static long PAGE;

struct store_ev { uintptr_t pc, addr; uint8_t oldb[16], newb[16]; const char *op; const char *type; unsigned long count; };
#define MAXEV 4096
static struct store_ev EV[MAXEV];
static int NEV;
static unsigned long NSTORES;
static volatile uintptr_t pending_addr;
static volatile int pending_ev;
static sigjmp_buf RECOVER;
static volatile int recover_armed;
static struct ctx *RO_CTX;

static NOINSTR int phdr_cb(struct dl_phdr_info *info, size_t size, void *data) {
    int i;
    (void)size; (void)data;
    if(!info->dlpi_name || !strstr(info->dlpi_name, "libc19mod")) return 0;
    LIB_BASE = info->dlpi_addr;
    for(i = 0; i < info->dlpi_phnum; i++) {
        const ElfW(Phdr) *ph = &info->dlpi_phdr[i];
        if(ph->p_type == PT_LOAD) {
            if(info->dlpi_addr + ph->p_vaddr < LIB_LO) LIB_LO = info->dlpi_addr + ph->p_vaddr;
            if(info->dlpi_addr + ph->p_vaddr + ph->p_memsz > LIB_HI) LIB_HI = info->dlpi_addr + ph->p_vaddr + ph->p_memsz;
        }
        if(ph->p_type == PT_LOAD && (ph->p_flags & PF_W) && NSEG < MAXSEG) {
            SEGS[NSEG].lo = info->dlpi_addr + ph->p_vaddr;
            SEGS[NSEG].hi = info->dlpi_addr + ph->p_vaddr + ph->p_memsz;
            NSEG++;
        }
        if(ph->p_type == PT_GNU_RELRO) {
            RELRO_LO = info->dlpi_addr + ph->p_vaddr;
            RELRO_HI = RELRO_LO + ph->p_memsz;
        }
    }
    return 0;
}
static NOINSTR int in_segs(uintptr_t a) {
    int i;
    for(i = 0; i < NSEG; i++)
        if(a >= (SEGS[i].lo & ~(uintptr_t)(PAGE - 1)) && a < ((SEGS[i].hi + PAGE - 1) & ~(uintptr_t)(PAGE - 1))) return 1;
    return 0;
}
static NOINSTR void protect_all(int prot) {
    int i;
    for(i = 0; i < NSEG; i++) {
        uintptr_t lo = SEGS[i].lo & ~(uintptr_t)(PAGE - 1), hi = (SEGS[i].hi + PAGE - 1) & ~(uintptr_t)(PAGE - 1);
        if(mprotect((void *)lo, hi - lo, prot) != 0) { perror("mprotect"); _exit(9); }
    }
}
static NOINSTR void on_segv(int sig, siginfo_t *si, void *ucv) {
    ucontext_t *uc = ucv;
    uintptr_t a = (uintptr_t)si->si_addr;
    if(sig == SIGSEGV && si->si_code == SEGV_ACCERR && in_segs(a) && !pending_addr) {
        uintptr_t pc = (uintptr_t)uc->uc_mcontext.gregs[REG_RIP];
        uintptr_t pg = a & ~(uintptr_t)(PAGE - 1);
        int i, slot = -1;
        NSTORES++;
        for(i = 0; i < NEV; i++) if(EV[i].pc == pc && EV[i].addr == a) { slot = i; break; }
        if(slot < 0 && NEV < MAXEV) {
            slot = NEV++;
            EV[slot].pc = pc; EV[slot].addr = a; EV[slot].count = 0;
            EV[slot].op = RO_CTX && RO_CTX->op ? RO_CTX->op : "?";
            EV[slot].type = RO_CTX && RO_CTX->td ? RO_CTX->td->name : "-";
            memcpy(EV[slot].oldb, (void *)(a & ~(uintptr_t)7), 16);
        }
        if(slot >= 0) EV[slot].count++;
        pending_ev = slot;
        pending_addr = a;
        /* let this one instruction through: page (and the next, for a straddling store) writable, trap flag on */
        mprotect((void *)pg, 2 * PAGE, PROT_READ | PROT_WRITE);
        uc->uc_mcontext.gregs[REG_EFL] |= 0x100;
        return;
    }
    /* a genuine crash of the code under test (not this property's subject): abandon the operation */
    if(recover_armed) siglongjmp(RECOVER, sig);
    signal(sig, SIG_DFL);
    raise(sig);
}
static NOINSTR void on_trap(int sig, siginfo_t *si, void *ucv) {
    ucontext_t *uc = ucv;
    (void)sig; (void)si;
    if(pending_addr) {
        uintptr_t a = pending_addr;
        if(pending_ev >= 0 && EV[pending_ev].count == 1) memcpy(EV[pending_ev].newb, (void *)(a & ~(uintptr_t)7), 16);
        pending_addr = 0;
        protect_all(PROT_READ);
    }
    uc->uc_mcontext.gregs[REG_EFL] &= ~(greg_t)0x100;
}


/* Where do the parts of every descriptor live?  The hypothesis descr_unchanged is about a set D of locations; the detector
 * protects the writable PT_LOAD segment of libc19mod.so.  Every table a codec can reach from a descriptor (the descriptor, its
 * tag arrays, member table, specifics and the maps hanging off them, constraint records, and the same for every member) must be
 * inside that segment (class W: a store is seen) or in a read-only mapping of the library (class R: a store cannot happen);
 * a part anywhere else (heap, the executable, another object: class X) would be writable and unwatched. */
static unsigned long PARTS_W, PARTS_R, PARTS_X;
static NOINSTR void part(const asn_TYPE_descriptor_t *td, const char *what, const void *p) {
    uintptr_t a = (uintptr_t)p;
    int i;
    if(!p) return;
    for(i = 0; i < NSEG; i++) if(a >= SEGS[i].lo && a < SEGS[i].hi) { PARTS_W++; return; }
    if(a >= LIB_LO && a < LIB_HI) { PARTS_R++; return; }
    PARTS_X++;
    if(PARTS_X <= 40) printf("PARTX type=%s part=%s\n", td->name, what);
}
static NOINSTR void parts_of(const asn_TYPE_descriptor_t *td) {
    unsigned i;
    part(td, "descriptor", td); part(td, "name", td->name); part(td, "xml_tag", td->xml_tag); part(td, "op", td->op);
    part(td, "tags", td->tags); part(td, "all_tags", td->all_tags);
    part(td, "oer_constraints", td->encoding_constraints.oer_constraints); part(td, "per_constraints", td->encoding_constraints.per_constraints);
    part(td, "elements", td->elements); part(td, "specifics", td->specifics);
    for(i = 0; i < td->elements_count; i++) {
        const asn_TYPE_member_t *e = &td->elements[i];
        part(td, "member.type", e->type); part(td, "member.name", e->name);
        part(td, "member.oer_constraints", e->encoding_constraints.oer_constraints); part(td, "member.per_constraints", e->encoding_constraints.per_constraints);
    }
    if(!td->specifics) return;
    if(td->op == &asn_OP_SEQUENCE) {
        const asn_SEQUENCE_specifics_t *sp = td->specifics;
        part(td, "specifics.tag2el", sp->tag2el); part(td, "specifics.oms", sp->oms);
    } else if(td->op == &asn_OP_SET) {
        const asn_SET_specifics_t *sp = td->specifics;
        part(td, "specifics.tag2el", sp->tag2el); part(td, "specifics.tag2el_cxer", sp->tag2el_cxer); part(td, "specifics._mandatory_elements", sp->_mandatory_elements);
    } else if(td->op == &asn_OP_CHOICE) {
        const asn_CHOICE_specifics_t *sp = td->specifics;
        part(td, "specifics.tag2el", sp->tag2el); part(td, "specifics.to_canonical_order", sp->to_canonical_order);
        part(td, "specifics.from_canonical_order", sp->from_canonical_order);
    } else if(td->op == &asn_OP_INTEGER || td->op == &asn_OP_ENUMERATED || td->op == &asn_OP_NativeInteger || td->op == &asn_OP_NativeEnumerated) {
        const asn_INTEGER_specifics_t *sp = td->specifics;
        part(td, "specifics.value2enum", sp->value2enum); part(td, "specifics.enum2value", sp->enum2value);
        if(sp->value2enum && sp->map_count > 0) part(td, "specifics.value2enum[0].enum_name", sp->value2enum[0].enum_name);
    }
}


/* Pointer closure of the image (the hypothesis `closed` of coq/Conc/DescrClosure.v, tied directly): no word of the watched image
 * holds the address of WRITABLE memory outside the image (heap, another object's data, the stack).  Words pointing into the
 * library itself or into read-only / executable mappings are fine; everything else that looks like an address is reported
 * (the check drops the dynamic linker's own slots, .got / .got.plt, by section). */
#define MAXMAP 512
static struct { uintptr_t lo, hi; int writable; char name[48]; } MAPS[MAXMAP];
static int NMAPS;
static NOINSTR void read_maps(void) {
    FILE *f = fopen("/proc/self/maps", "r");
    char line[512];
    NMAPS = 0;
    if(!f) return;
    while(fgets(line, sizeof line, f) && NMAPS < MAXMAP) {
        unsigned long lo, hi; char perms[8]; int off = 0;
        if(sscanf(line, "%lx-%lx %7s %*s %*s %*s %n", &lo, &hi, perms, &off) < 3) continue;
        MAPS[NMAPS].lo = lo; MAPS[NMAPS].hi = hi; MAPS[NMAPS].writable = (perms[1] == 'w');
        {
            const char *nm = off ? line + off : "";
            const char *sl = strrchr(nm, '/');
            size_t k;
            if(sl) nm = sl + 1;
            for(k = 0; k < sizeof MAPS[0].name - 1 && nm[k] && nm[k] != '\n' && nm[k] != ' '; k++) MAPS[NMAPS].name[k] = nm[k];
            MAPS[NMAPS].name[k] = 0;
            if(!k) strcpy(MAPS[NMAPS].name, "anon");
        }
        NMAPS++;
    }
    fclose(f);
}
static NOINSTR unsigned long scan_closure(const char *when) {
    unsigned long nptr_in = 0, nbad = 0;
    int i, k;
    read_maps();
    for(i = 0; i < NSEG; i++) {
        uintptr_t a;
        for(a = (SEGS[i].lo + 7) & ~(uintptr_t)7; a + 8 <= SEGS[i].hi; a += 8) {
            uintptr_t v = *(const uintptr_t *)a;
            if(v < 4096) continue;
            if(v >= LIB_LO && v < LIB_HI) { nptr_in++; continue; }
            for(k = 0; k < NMAPS; k++)
                if(v >= MAPS[k].lo && v < MAPS[k].hi) {
                    if(MAPS[k].writable) {
                        nbad++;
                        if(nbad <= 64) printf("PTRX when=%s off=0x%lx target=%s\n", when, (unsigned long)(a - LIB_BASE), MAPS[k].name);
                    }
                    break;
                }
        }
    }
    printf("CLOSURE when=%s words_pointing_into_library=%lu words_pointing_to_writable_memory_outside=%lu\n", when, nptr_in, nbad);
    return nbad;
}

/* function coverage of the library side (-finstrument-functions) */
#define FSET 16384
static void *FSEEN[FSET];
NOINSTR void __cyg_profile_func_enter(void *fn, void *site) {
    uintptr_t h = ((uintptr_t)fn >> 2) * 2654435761u;
    unsigned i;
    (void)site;
    for(i = 0; i < FSET; i++) {
        unsigned k = (unsigned)((h + i) % FSET);
        if(FSEEN[k] == fn) return;
        if(!FSEEN[k]) { FSEEN[k] = fn; return; }
    }
}
NOINSTR void __cyg_profile_func_exit(void *fn, void *site) { (void)fn; (void)site; }

static NOINSTR void hex16(const uint8_t *b) { int i; for(i = 0; i < 16; i++) printf("%02x", b[i]); }

static NOINSTR int main_ro(uint64_t seed, int iters, int protect) {
    struct ctx c;
    struct sigaction sa;
    stack_t ss;
    int i, it, ncrash = 0, nev_canary = 0;
    unsigned long ndiff = 0;
    memset(&c, 0, sizeof c);
    c.log.on = 0;
    COUNT_VALUES = 1;
    COUNT_OPS = 1;
    RO_CTX = &c;
    PAGE = sysconf(_SC_PAGESIZE);
    if(protect) dl_iterate_phdr(phdr_cb, 0);
    if(protect && !NSEG) { printf("RO error no-writable-segment-of-libc19mod-found\n"); return 2; }
    for(i = 0; i < NSEG; i++) {
        SEGS[i].snap = malloc(SEGS[i].hi - SEGS[i].lo);
        memcpy(SEGS[i].snap, (void *)SEGS[i].lo, SEGS[i].hi - SEGS[i].lo);
        printf("SEG %d lo=0x%lx hi=0x%lx relro_lo=0x%lx relro_hi=0x%lx\n", i, (unsigned long)(SEGS[i].lo - LIB_BASE), (unsigned long)(SEGS[i].hi - LIB_BASE),
               (unsigned long)(RELRO_LO - LIB_BASE), (unsigned long)(RELRO_HI - LIB_BASE));
    }
    if(protect) {
        for(i = 0; i < NTY; i++) parts_of(TY[i]);
        printf("PARTS w=%lu r=%lu outside=%lu\n", PARTS_W, PARTS_R, PARTS_X);
        scan_closure("start");
    }
    ss.ss_sp = malloc(1 << 16); ss.ss_size = 1 << 16; ss.ss_flags = 0;
    sigaltstack(&ss, 0);
    memset(&sa, 0, sizeof sa);
    sa.sa_flags = SA_SIGINFO | SA_ONSTACK | SA_NODEFER;
    sigemptyset(&sa.sa_mask);
    sa.sa_sigaction = on_segv;
    sigaction(SIGSEGV, &sa, 0);
    sigaction(SIGBUS, &sa, 0);
    sigaction(SIGABRT, &sa, 0);   /* assertion failures of the code under test: abandon the operation, go on */
    sigaction(SIGFPE, &sa, 0);
    sa.sa_sigaction = on_trap;
    sigaction(SIGTRAP, &sa, 0);
    fflush(stdout);
    if(protect) protect_all(PROT_READ);   /* before the first use of any type */
#ifdef C19_CANARY
    c.op = "selftest";
    c19_canary_poke();        /* three stores the detector must report (the check verifies that it does) */
#endif

    tl_rng = seed * 1000003u + 17;
    CUR = &c;
    for(it = 0; it < iters; it++) {
        for(i = -1; i < NTY; i++) {
            int sig;
            recover_armed = 1;
            if((sig = sigsetjmp(RECOVER, 1)) == 0) {
                if(i < 0) leaf_round(&c); else { one_round(&c, i); mutilated_round(&c, i); null_round(&c, i); }
            } else {
                ncrash++;
                if(pending_addr) { pending_addr = 0; protect_all(PROT_READ); }
                printf("CRASH sig=%d op=%s type=%s iter=%d\n", sig, c.op ? c.op : "?", i >= 0 ? TY[i]->name : "-", it);
            }
            recover_armed = 0;
#ifndef ASN_DISABLE_OER_SUPPORT
            /* the OER entry points on a type without an OER codec, each in its own recovery scope: they must answer (RC_FAIL / -1),
             * a signal here is reported by the check as crash:oer-null-codec (the repaired C19-oer-entry-null-codec coming back) */
            if(i >= 0 && it == 0 && !NOT_PDU[i] && !TY[i]->op->oer_decoder) {
                recover_armed = 1;
                if((sig = sigsetjmp(RECOVER, 1)) == 0) {
                    void *pst = 0;
                    asn_dec_rval_t prv;
                    c.td = TY[i];
                    c.op = "asn_decode(OER) on a type without OER decoder"; c.nops++;
                    prv = asn_decode(0, ATS_BASIC_OER, TY[i], &pst, "", 0);
                    printf("PROBE oer-null-codec type=%s op=asn_decode survived rc=%d\n", TY[i]->name, (int)prv.code);
                    ASN_STRUCT_FREE(*TY[i], pst);
                } else {
                    if(pending_addr) { pending_addr = 0; protect_all(PROT_READ); }
                    printf("PROBE oer-null-codec type=%s op=asn_decode sig=%d\n", TY[i]->name, sig);
                }
                recover_armed = 0;
            }
            if(i >= 0 && it == 0 && !NOT_PDU[i] && !TY[i]->op->oer_encoder) {
                recover_armed = 1;
                if((sig = sigsetjmp(RECOVER, 1)) == 0) {
                    buf_t po = {0, 0, 0, 0, 0};
                    asn_enc_rval_t per;
                    c.td = TY[i];
                    c.op = "oer_encode() on a type without OER encoder"; c.nops++;
                    per = oer_encode(TY[i], &po /* any non-NULL structure pointer: it is never looked at */, cb_buf, &po);
                    printf("PROBE oer-null-codec type=%s op=oer_encode survived rc=%ld\n", TY[i]->name, (long)per.encoded);
                    free(po.p);
                } else {
                    if(pending_addr) { pending_addr = 0; protect_all(PROT_READ); }
                    printf("PROBE oer-null-codec type=%s op=oer_encode sig=%d\n", TY[i]->name, sig);
                }
                recover_armed = 0;
            }
#endif
        }
    }
    for(i = 0; i < NEV; i++) {
        if(canary_name(EV[i].addr)) { printf("CANARY store %s\n", canary_name(EV[i].addr)); nev_canary++; continue; }
        printf("STORE pc=0x%lx addr=0x%lx count=%lu old=", (unsigned long)(EV[i].pc - LIB_BASE), (unsigned long)(EV[i].addr - LIB_BASE), EV[i].count);
        hex16(EV[i].oldb); printf(" new="); hex16(EV[i].newb);
        printf(" type=%s op=%s\n", EV[i].type, EV[i].op);
    }
    for(i = 0; i < NSEG; i++) {
        size_t k, n = SEGS[i].hi - SEGS[i].lo;
        const uint8_t *now = (const uint8_t *)SEGS[i].lo;
        for(k = 0; k < n; k++) {
            if(now[k] != SEGS[i].snap[k]) {
                size_t e = k;
                while(e < n && now[e] != SEGS[i].snap[e]) e++;
                if(canary_name(SEGS[i].lo + k)) { printf("CANARY diff %s\n", canary_name(SEGS[i].lo + k)); k = e; continue; }
                if(ndiff < 200) printf("DIFF off=0x%lx len=%zu\n", (unsigned long)(SEGS[i].lo + k - LIB_BASE), e - k);
                ndiff++;
                k = e;
            }
        }
    }
    if(protect) scan_closure("end");
    for(i = 0; i < FSET; i++)
        if(FSEEN[i]) printf("FUNC 0x%lx\n", (unsigned long)((uintptr_t)FSEEN[i] - LIB_BASE));
    for(i = 0; i < NTY; i++)
        if(!NOT_PDU[i]) printf("VAL %lu %lu %s\n", NVALID[i], NINVALID[i], TY[i]->name);
    for(i = 0; i < MAXOPL && OPL[i].name; i++) printf("OPS %lu %s\n", OPL[i].n, OPL[i].name);
    printf("RO %s seed=%llu iters=%d types=%d ops=%lu stores=%lu distinct=%d diffs=%lu crashes=%d\n", (NEV - nev_canary || ndiff) ? "WRITTEN" : "clean",
           (unsigned long long)seed, iters, NTY, c.nops, NSTORES - nev_canary, NEV - nev_canary, ndiff, ncrash);
    fflush(stdout);
    if(!protect) return 0;   /* `cov` mode: leave through exit() so that the gcov counters are written */
    _exit((NEV - nev_canary || ndiff) ? 4 : 0);   /* no destructors: the library image stays read-only */
}


/* ================================================================== shapes: what the codecs branch on, read from the tables */
/* One line per descriptor (and one per member that carries PER/OER constraints of its own): the decisions the skeleton
 * codecs take on the contents of specifics / member tables / constraint records (lib/c19_zoo.py SHAPES names them and says
 * where each is tested).  Evaluated on the tables the generated code links, not on the ASN.1 text. */
static NOINSTR void setbit(unsigned *m, int v) { *m |= 1u << v; }
static NOINSTR void pset(const char *key, unsigned mask, const char *const *names) {
    int i, first = 1;
    if(!mask) return;
    printf(" %s=", key);
    for(i = 0; names[i]; i++) if(mask & (1u << i)) { printf("%s%s", first ? "" : ",", names[i]); first = 0; }
}
static const char *const N01[] = {"0", "1", 0};
static NOINSTR int is_string_type(const asn_TYPE_descriptor_t *td) {
    return td->op->free_struct == OCTET_STRING_free && td->op != &asn_OP_ANY;
}
static NOINSTR int is_int_type(const asn_TYPE_descriptor_t *td) {
    return td->op == &asn_OP_INTEGER || td->op == &asn_OP_ENUMERATED || td->op == &asn_OP_NativeInteger || td->op == &asn_OP_NativeEnumerated;
}
static NOINSTR int is_of_type(const asn_TYPE_descriptor_t *td) { return td->op == &asn_OP_SET_OF || td->op == &asn_OP_SEQUENCE_OF; }
static NOINSTR void constraint_shapes(const asn_TYPE_descriptor_t *td, const asn_encoding_constraints_t *ec) {
#ifndef ASN_DISABLE_PER_SUPPORT
    const asn_per_constraints_t *pc = ec->per_constraints;
    if(is_int_type(td)) {
        const char *v = "none";
        if(pc) {
            const asn_per_constraint_t *ct = &pc->value;
            if(ct->flags & APC_EXTENSIBLE) v = "ext";
            else if(ct->flags & APC_SEMI_CONSTRAINED) v = "semi";
            else if(ct->flags & APC_CONSTRAINED) v = ct->range_bits == 0 ? "0bits" : ct->range_bits <= 16 ? "le16" : "gt16";
        }
        printf(" int.per=%s", v);
    }
    if(is_string_type(td) || is_of_type(td)) {
        const char *v = "none";
        if(pc) {
            const asn_per_constraint_t *ct = &pc->size;
            if(ct->flags & APC_EXTENSIBLE) v = "ext";
            else if(ct->flags & APC_SEMI_CONSTRAINED) v = "semi";
            else if(ct->flags & APC_CONSTRAINED) {
                if(ct->effective_bits < 0 || ct->upper_bound >= 65536) v = "semi";
                else if(ct->lower_bound == ct->upper_bound) v = (is_string_type(td) && ct->upper_bound <= 2) ? "fixed_le2" : "fixed";
                else v = "range";
            }
        }
        printf(" %s=%s", is_of_type(td) ? "of.size_per" : "str.size_per", v);
    }
    if(is_string_type(td)) {
        const char *v = "none";
        if(pc && (pc->value.flags & APC_CONSTRAINED)) v = pc->value2code ? "map" : "range";
        printf(" str.alphabet_per=%s", v);
    }
#endif
#ifndef ASN_DISABLE_OER_SUPPORT
    if(is_int_type(td)) printf(" int.oer_width=%u", ec->oer_constraints ? ec->oer_constraints->value.width : 0);
#endif
    (void)td; (void)ec;
}
static NOINSTR void member_shapes(const asn_TYPE_descriptor_t *td) {
    static const char *const NTM[] = {"-1", "0", "1", 0};
    unsigned ptr = 0, ot = 0, any = 0, opt = 0, run = 0, tm = 0, uch = 0, dfl = 0, own = 0, named = 0;
    unsigned i;
    for(i = 0; i < td->elements_count; i++) {
        const asn_TYPE_member_t *e = &td->elements[i];
        setbit(&ptr, (e->flags & ATF_POINTER) ? 1 : 0);
        setbit(&ot, (e->flags & ATF_OPEN_TYPE) ? 1 : 0);
        setbit(&any, (e->flags & ATF_ANY_TYPE) ? 1 : 0);
        setbit(&opt, e->optional ? 1 : 0);
        /* SEQUENCE_decode_ber: opt_edx_end = edx + optional + 1, capped at elements_count; bsearch when more than 8 candidates */
        setbit(&run, (td->op == &asn_OP_SEQUENCE && i + e->optional + 1 <= td->elements_count && e->optional + 1 > 8) ? 1 : 0);
        setbit(&tm, e->tag_mode < 0 ? 0 : e->tag_mode == 0 ? 1 : 2);
        setbit(&uch, (e->tag == (ber_tlv_tag_t)-1 && !(e->flags & (ATF_ANY_TYPE | ATF_OPEN_TYPE))) ? 1 : 0);
        setbit(&dfl, (e->default_value_cmp || e->default_value_set) ? 1 : 0);
        setbit(&own, e->encoding_constraints.general_constraints ? 1 : 0);
        setbit(&named, (e->name && e->name[0]) ? 1 : 0);
    }
    pset("memb.pointer", ptr, N01); pset("memb.open_type", ot, N01); pset("memb.any_type", any, N01); pset("memb.optional", opt, N01);
    if(td->op == &asn_OP_SEQUENCE) pset("memb.optional_run_gt8", run, N01);
    pset("memb.tag_mode", tm, NTM); pset("memb.untagged_choice", uch, N01); pset("memb.default", dfl, N01); pset("memb.own_constraint", own, N01);
    if(is_of_type(td)) pset("memb.named", named, N01);
}
static NOINSTR void shape_of(const asn_TYPE_descriptor_t *td) {
    unsigned i;
    const char *kind = td->op == &asn_OP_SEQUENCE ? "SEQUENCE" : td->op == &asn_OP_SET ? "SET" : td->op == &asn_OP_CHOICE ? "CHOICE"
                     : td->op == &asn_OP_SEQUENCE_OF ? "SEQUENCE_OF" : td->op == &asn_OP_SET_OF ? "SET_OF" : td->op == &asn_OP_OPEN_TYPE ? "OPEN_TYPE" : "prim";
    printf(" kind=%s", kind);
    if(td->elements_count) member_shapes(td);
    if(td->op == &asn_OP_SEQUENCE && td->specifics) {
        const asn_SEQUENCE_specifics_t *sp = td->specifics;
        int dup = 0;
        for(i = 0; i < sp->tag2el_count; i++) if(sp->tag2el[i].toff_first || sp->tag2el[i].toff_last) dup = 1;
        printf(" seq.extensible=%d", sp->first_extension >= 0);
        if(sp->first_extension >= 0) printf(" seq.ext_members=%d", (unsigned)sp->first_extension < td->elements_count);
        printf(" seq.roms=%d seq.aoms=%d seq.tag2el_dup=%d", sp->roms_count > 0, sp->aoms_count > 0, dup);
    }
    if(td->op == &asn_OP_SET && td->specifics) {
        const asn_SET_specifics_t *sp = td->specifics;
        unsigned words = (td->elements_count + 31) / 32, any_mand = 0, differs = 0;
        for(i = 0; i < words; i++) if(sp->_mandatory_elements[i]) any_mand = 1;
        if(sp->tag2el_cxer_count != sp->tag2el_count) differs = 1;
        else for(i = 0; i < sp->tag2el_count; i++) if(sp->tag2el[i].el_no != sp->tag2el_cxer[i].el_no) differs = 1;
        printf(" set.own_tagmap=%d set.extensible=%d set.presence_words=%s set.all_optional=%d set.cxer_map_differs=%d",
               sp->tag2el_count != td->elements_count, sp->extensible != 0, words > 1 ? "2+" : "1", !any_mand, differs);
    }
    if(td->op == &asn_OP_CHOICE && td->specifics) {
        const asn_CHOICE_specifics_t *sp = td->specifics;
        int hi = 0;
        for(i = 0; i < td->elements_count; i++)
            if(td->elements[i].tag != (ber_tlv_tag_t)-1 && BER_TAG_VALUE(td->elements[i].tag) >= 63) hi = 1;
        printf(" choice.extensible=%d choice.canonical_order=%d choice.pres_size=%u choice.tagged=%d choice.tag2el_more=%d choice.alt_tag_ge63=%d",
               sp->ext_start >= 0, sp->to_canonical_order != 0, sp->pres_size, td->tags_count > 0, sp->tag2el_count > td->elements_count, hi);
    }
    if(is_of_type(td) && td->specifics) {
        const asn_SET_OF_specifics_t *sp = td->specifics;
        printf(" of.xml_value_list=%d of.elem_untagged_choice=%d", sp->as_XMLValueList, td->elements[0].tag == (ber_tlv_tag_t)-1);
    }
    {
        int lf = 0;
        for(i = 0; i < td->all_tags_count; i++) if(BER_TAG_VALUE(td->all_tags[i]) >= 31) lf = 1;
        for(i = 0; i < td->elements_count; i++)
            if(td->elements[i].tag != (ber_tlv_tag_t)-1 && BER_TAG_VALUE(td->elements[i].tag) >= 31) lf = 1;
        printf(" tags.count=%s tags.all_differs=%d tags.long_form=%d", td->tags_count == 0 ? "0" : td->tags_count == 1 ? "1" : "2+",
               td->all_tags_count != td->tags_count || (td->tags_count && memcmp(td->tags, td->all_tags, td->tags_count * sizeof(td->tags[0])) != 0), lf);
    }
    if(is_int_type(td)) {
        const asn_INTEGER_specifics_t *sp = td->specifics;
        printf(" int.specifics=%d", sp != 0);
        if(sp) printf(" int.map=%s int.map_extension=%d int.strict_enum=%d int.unsigned=%d", sp->map_count == 0 ? "0" : sp->map_count <= 8 ? "small" : "big",
                      sp->extension != 0, sp->strict_enumeration != 0, sp->field_unsigned != 0);
    }
    if(is_string_type(td)) {
        const asn_OCTET_STRING_specifics_t *sp = td->specifics ? td->specifics : &asn_SPC_OCTET_STRING_specs;
        static const char *const SV[] = {"ANY", "BIT", "STR", "U16", "U32"};
        printf(" str.subvariant=%s", (unsigned)sp->subvariant < 5 ? SV[sp->subvariant] : "?");
    }
    if(td->op == &asn_OP_ANY) printf(" str.subvariant=ANY");
    if(td->op == &asn_OP_NativeReal) {
        const asn_NativeReal_specifics_t *sp = td->specifics;
        printf(" real.float=%d", sp && sp->float_size == sizeof(float));
    }
    constraint_shapes(td, &td->encoding_constraints);
}
static NOINSTR int main_shapes(void) {
    int i;
    unsigned k;
    for(i = 0; i < NTY; i++) {
        const asn_TYPE_descriptor_t *td = TY[i];
        const char *src = !HAS_NOFILL[i] ? "fill" : (SEEDS[i] && SEEDS[i][0]) ? "seeds" : "none";
        if(NOT_PDU[i]) {   /* an open type member: values exist only inside its parents */
            int j;
            src = "notpdu";
            for(j = 0; j < NTY; j++)
                for(k = 0; k < TY[j]->elements_count; k++)
                    if(TY[j]->elements[k].type == td && (!HAS_NOFILL[j] || (SEEDS[j] && SEEDS[j][0]))) src = "parent";
        }
        printf("SHAPE %s src=%s", td->name, src);
        shape_of(td);
        printf("\n");
        /* constraints a member adds on top of its type are handed down by the parent codec (elm->encoding_constraints) */
        for(k = 0; k < td->elements_count; k++) {
            const asn_TYPE_member_t *e = &td->elements[k];
            if(!e->type || (!e->encoding_constraints.per_constraints && !e->encoding_constraints.oer_constraints)) continue;
            if(!(is_int_type(e->type) || is_string_type(e->type) || is_of_type(e->type))) continue;
            printf("SHAPE %s.%s src=%s", td->name, e->name, NOT_PDU[i] ? "notpdu" : !HAS_NOFILL[i] ? "fill" : (SEEDS[i] && SEEDS[i][0]) ? "seeds" : "none");
            constraint_shapes(e->type, &e->encoding_constraints);
            printf("\n");
        }
    }
    return 0;
}

NOINSTR int main(int ac, char **av) {
    const char *mode = ac > 1 ? av[1] : "types";
    uint64_t seed = ac > 2 ? strtoull(av[2], 0, 10) : 1;
    int i;
    collect_types();
    if(!strcmp(mode, "types")) {
        for(i = 0; i < NTY; i++)
            printf("TYPE %s elements=%u noper=%d nooer=%d rec=%d nofill=%d open=%d notpdu=%d seeds=%d\n", TY[i]->name, TY[i]->elements_count,
                   HAS_NOPER[i], HAS_NOOER[i], IS_REC[i], HAS_NOFILL[i], HAS_OPEN[i], NOT_PDU[i], SEEDS[i] && SEEDS[i][0] ? 1 : 0);
        return 0;
    }
    if(!strcmp(mode, "shapes")) return main_shapes();
    if(!strcmp(mode, "log")) {   /* one script alone, log to stdout (replay aid) */
        struct ctx c;
        memset(&c, 0, sizeof c);
        c.log.on = 1;
        script(&c, seed, ac > 3 ? atoi(av[3]) : 0, ac > 4 ? atoi(av[4]) : 1);
        fwrite(c.log.p, 1, c.log.n, stdout);
        return 0;
    }
    if(!strcmp(mode, "ro")) return main_ro(seed, ac > 3 ? atoi(av[3]) : 1, 1);
    if(!strcmp(mode, "cov")) return main_ro(seed, ac > 3 ? atoi(av[3]) : 1, 0);   /* the ro battery, image left writable (gcov build) */
    if(!strcmp(mode, "thr")) return main_thr(seed, ac > 3 ? atoi(av[3]) : 2, ac > 4 ? atoi(av[4]) : 1);
    fprintf(stderr, "usage: c19drv types | ro <seed> <iters> | thr <seed> <nthreads> <iters>\n");
    return 2;
}
