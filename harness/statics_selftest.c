/* statics_selftest.c — ground truth for harness/statics.py: compiled with the
 * same flags as the skeletons on every run of bin/vcheck C19; the translator
 * must classify every access below as written in EXPECT (statics.py:selftest). */
#include <stddef.h>
int g_read = 5;
int g_cmp = 7;
int g_written;
int g_rmw;
int g_addr;
int g_arr[8];
unsigned char g_bytes[16];
double g_dbl;
const int c_tab[4] = {1, 2, 3, 4};
const char *const c_ptrs[2] = {"a", "b"};
__thread int g_tls;

__attribute__((noinline)) static int helper(int x) { return x * 3 + 1; }
__attribute__((noinline)) static int helper2(int x) { return x * 5 + 2; }
__attribute__((noinline)) static int helper3(int x) { return x * 7 + 3; }

int f_read(void) { return g_read; }
int f_cmp(void) { return g_cmp == 3 ? 10 : 20; }
void f_write(int v) { g_written = v; }
void f_rmw(void) { g_rmw++; }
int *f_addr(void) { return &g_addr; }
void f_arr(int i, int v) { g_arr[i & 7] = v; }
void f_bytes(int i) { g_bytes[i & 15] |= 0x80; }
void f_dbl(double d) { g_dbl = d; }
int f_const(int i) { return c_tab[i & 3] + c_ptrs[i & 1][0]; }
int f_calls(int x) { return helper(x) + 1; }
int (*f_fnptr(void))(int) { return helper2; }
int f_local_static(void) { static int counter; return ++counter; }
int f_tls(void) { return ++g_tls; }
struct ops { int (*fn)(int); int *p; };
struct ops g_table = { helper3, &g_addr };
int f_switch(int x) {
    switch(x) { case 0: return 11; case 1: return 22; case 2: return f_read(); case 3: return 44; case 4: return f_cmp(); case 5: return 66; default: return 0; }
}
