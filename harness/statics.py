#!/usr/bin/env python3
"""statics.py — the C19 translator (object files -> Gen_Statics.v).

Builds every skeletons/*.c of a working tree the way the library ships it
(non-debug: no -DASN_DEBUG / EMIT_ASN_DEBUG unset; `gcc -O1 -g -c`), then reads
the objects with `readelf -SW/-sW/-rW` and `objdump -d` and produces

  * the symbol table: every FUNC symbol, every OBJECT symbol (incl. function-
    local statics such as `buf.0`), one anonymous node per (object file, section)
    for unnamed bytes (string literals, jump tables), one node per external
    (libc) symbol, plus one pseudo object `libc-state:<fn>` for every external
    function that is not on the committed list of reentrant externals;
  * edges  function -> function (call / address taken),
           function -> object   (load / store / lea / GOT),
           object   -> function|object (data initialiser relocations: op tables
           `asn_OP_*`, descriptors `asn_DEF_*`, member tables — these are the
           indirect-call edges);
  * per object in a section that is writable at run time: is it the target of a
    store instruction's relocation (`stored`), is its address taken (`escaped`:
    lea / GOT / absolute relocation in code, or a pointer to it sits in a data
    initialiser);
  * entry points: the public codec API by name, and every `asn_DEF_*`/`asn_OP_*`
    object (everything their initialisers point at is reachable), minus the
    `random_fill` slot of the op tables (not one of the operations C19 speaks
    about; the slot offset is taken from the tree's own constr_TYPE.h by
    compiling an offsetof probe);
  * the allowlist harness/statics_allow.json resolved to node ids — an entry
    matches only on (object file, symbol, section, size).

Gen_Statics.v states the obligation `no_writable_reachable ... = true` which
coq/Conc/Reach.v's proved checker decides by vm_compute.
"""
import bisect, json, os, re, subprocess, sys

PUBLIC_API = [
    # asn_application.c
    "asn_encode", "asn_encode_to_buffer", "asn_encode_to_new_buffer", "asn_decode",
    # BER/DER
    "ber_decode", "ber_decode_primitive", "ber_check_tags", "der_encode", "der_encode_to_buffer",
    "der_encode_primitive", "der_write_tags",
    # PER
    "uper_decode", "uper_decode_complete", "uper_encode", "uper_encode_to_buffer", "uper_encode_to_new_buffer",
    "uper_open_type_get", "uper_open_type_put", "uper_open_type_skip",
    # OER
    "oer_decode", "oer_encode", "oer_encode_to_buffer", "oer_decode_primitive", "oer_encode_primitive",
    "oer_open_type_get", "oer_open_type_put", "oer_open_type_skip",
    # XER
    "xer_decode", "xer_encode", "xer_fprint", "xer_equivalent", "xer_decode_general", "xer_decode_primitive",
    # validate / print / free / compare
    "asn_check_constraints", "asn_generic_no_constraint", "asn_generic_unknown_constraint",
    "asn_fprint",
]
# global functions that are NOT entry points, with the reason (everything else that is global is one)
ENTRY_EXCLUDE = [
    (r"_random_fill$|^asn_random_fill$|^asn_random_between$|^OCTET_STRING_random_length_constrained$",
     "random value generation: not one of encode/decode/validate/print/free; draws from libc random()"),
    (r"^ber_tlv_tag_string$|^asn_bit_data_string$",
     "documented debugging helper that returns a pointer to its own static buffer; not a codec call; must stay unreachable from every entry"),
]
OP_SLOTS = ["free_struct", "print_struct", "compare_struct", "ber_decoder", "der_encoder", "xer_decoder",
            "xer_encoder", "oer_decoder", "oer_encoder", "uper_decoder", "uper_encoder", "random_fill", "outmost_tag"]
EXCLUDED_OP_SLOTS = {"random_fill"}
SKEL_EXCLUDE = {"converter-example.c"}
CFLAGS = ["-std=gnu99", "-w", "-DASN_PDU_COLLECTION", "-O1", "-g"]

# mnemonics whose memory operand is only read even when it is the last operand
READ_ONLY_MNEMONICS = re.compile(
    r"^(cmp[bwlq]?|test[bwlq]?|push[wq]?|call[q]?|jmp[q]?|bt[wlq]?|u?comis[sd]|v?u?comis[sd]|"
    r"mul[bwlq]?|div[bwlq]?|idiv[bwlq]?|imul[bwlq]?|fld[slt]?|fild[sl]?|fildll|fcom[slp]*|ficom[slp]*|"
    r"fadd[sl]?|fmul[sl]?|fsub[sl]?|fsubr[sl]?|fdiv[sl]?|fdivr[sl]?|prefetch\w*|nop[wl]?)$")
ATOMIC = re.compile(r"^(lock|xchg|cmpxchg|xadd)")


PCREL = ("R_X86_64_PC32", "R_X86_64_PLT32", "R_X86_64_GOTPCREL", "R_X86_64_GOTPCRELX",
         "R_X86_64_REX_GOTPCRELX", "R_X86_64_PC64", "R_X86_64_GOTPC32")


class StaticsError(Exception):
    pass


def _run(cmd, cwd=None, timeout=300):
    p = subprocess.run(cmd, cwd=cwd, stdout=subprocess.PIPE, stderr=subprocess.STDOUT, text=True, errors="replace", timeout=timeout)
    if p.returncode != 0:
        raise StaticsError("command failed: %s\n%s" % (" ".join(cmd), p.stdout[-3000:]))
    return p.stdout


# ---------------------------------------------------------------------------
# build


def build_objects(repo, outdir, ncpu=8, extra_cflags=()):
    """compile every skeletons/*.c (as shipped, non-debug) into outdir; returns list of .o paths"""
    sk = os.path.join(repo, "skeletons")
    srcs = sorted(f for f in os.listdir(sk) if f.endswith(".c") and f not in SKEL_EXCLUDE)
    os.makedirs(outdir, exist_ok=True)
    flags = CFLAGS + ["-I" + sk] + list(extra_cflags)
    mk = ["CC=gcc", "CFLAGS=" + " ".join(flags), "OBJS=" + " ".join(s[:-2] + ".o" for s in srcs),
          "all: $(OBJS)", "%%.o: %s/%%.c" % sk, "\t$(CC) $(CFLAGS) -c $< -o $@"]
    open(os.path.join(outdir, "Makefile"), "w").write("\n".join(mk) + "\n")
    p = subprocess.run(["make", "-j%d" % ncpu], cwd=outdir, stdout=subprocess.PIPE, stderr=subprocess.STDOUT, text=True, errors="replace", timeout=900)
    if p.returncode != 0:
        raise StaticsError("skeleton build failed:\n" + p.stdout[-3000:])
    # offsetof probe for the op-table slots, from the tree's own headers
    probe = os.path.join(outdir, "_slots.c")
    body = ['#include <stdio.h>', '#include <stddef.h>', '#include <asn_application.h>', 'int main(void){',
            ' printf("sizeof %zu\\n", sizeof(asn_TYPE_operation_t));']
    for s in OP_SLOTS:
        body.append(' printf("%s %%zu\\n", offsetof(asn_TYPE_operation_t, %s));' % (s, s))
    body.append(" return 0; }")
    open(probe, "w").write("\n".join(body) + "\n")
    exe = os.path.join(outdir, "_slots")
    _run(["gcc", "-std=gnu99", "-w", "-I" + sk, probe, "-o", exe])
    slots = {}
    for line in _run([exe]).split("\n"):
        if line.strip():
            k, v = line.split()
            slots[k] = int(v)
    return [os.path.join(outdir, s[:-2] + ".o") for s in srcs], slots


# ---------------------------------------------------------------------------
# reading one object file


class Obj:
    def __init__(self, path):
        self.path = path
        self.file = os.path.basename(path)
        self.sections = {}    # idx -> (name, flags, size)
        self.symbols = []     # dicts
        self.relocs = {}      # section name the relocs apply to -> list of (offset, type, symidx-name, symvalue, addend, is_section_sym)
        self.insns = {}       # section name -> sorted list of (addr, mnemonic, operands)
        self._read()

    def _read(self):
        out = _run(["readelf", "-SW", self.path])
        for m in re.finditer(r"^\s*\[\s*(\d+)\]\s+(\S*)\s+(\S+)\s+([0-9a-f]+)\s+([0-9a-f]+)\s+([0-9a-f]+)\s+([0-9a-f]+)\s+([A-Za-z]*)\s+\d+\s+\d+\s+\d+\s*$", out, flags=re.M):
            idx, name, typ, addr, off, size, es, flags = m.groups()
            self.sections[int(idx)] = (name, flags, int(size, 16), typ)
        out = _run(["readelf", "-sW", self.path])
        for line in out.split("\n"):
            m = re.match(r"^\s*(\d+):\s+([0-9a-f]+)\s+(\d+|0x[0-9a-f]+)\s+(\S+)\s+(\S+)\s+(\S+)\s+(\S+)(?:\s+(.*))?$", line)
            if not m:
                continue
            num, val, size, typ, bind, vis, ndx, name = m.groups()
            size = int(size, 16) if size.startswith("0x") else int(size)
            self.symbols.append(dict(num=int(num), value=int(val, 16), size=size, type=typ, bind=bind, ndx=ndx, name=(name or "").strip()))
        out = _run(["readelf", "-rW", self.path])
        cur = None
        for line in out.split("\n"):
            m = re.match(r"^Relocation section '\.rela(\S*)' at offset", line)
            if m:
                cur = m.group(1)
                self.relocs[cur] = []
                continue
            m = re.match(r"^([0-9a-f]{16})\s+([0-9a-f]{16})\s+(R_X86_64_\w+)\s+(?:([0-9a-f]{16})\s+(.*?)\s+([+-])\s+([0-9a-f]+)|\s+([0-9a-f]+))\s*$", line)
            if m and cur is not None:
                off, info, typ, sval, sname, sign, add, add_only = m.groups()
                symidx = int(info, 16) >> 32
                if add_only is not None:
                    addend = int(add_only, 16)
                else:
                    addend = int(add, 16) * (1 if sign == "+" else -1)
                self.relocs[cur].append((int(off, 16), typ, symidx, addend))
        # disassembly of every executable section
        out = _run(["objdump", "-d", "--no-show-raw-insn", "-w", self.path])
        sec = None
        for line in out.split("\n"):
            m = re.match(r"^Disassembly of section (\S+):", line)
            if m:
                sec = m.group(1)
                self.insns[sec] = []
                continue
            m = re.match(r"^\s*([0-9a-f]+):\t(.*)$", line)
            if m and sec is not None:
                addr = int(m.group(1), 16)
                cm = re.search(r"#\s*([0-9a-f]+)\b", m.group(2))
                text = m.group(2).split("#")[0].strip()
                text = re.sub(r"\s*<[^>]*>\s*$", "", text)
                parts = text.split(None, 1)
                if not parts:
                    continue
                mn = parts[0]
                ops = parts[1] if len(parts) > 1 else ""
                # prefixes (lock, rep, notrack, data16, bnd ...) stay part of the mnemonic text
                while mn in ("lock", "rep", "repz", "repnz", "notrack", "data16", "bnd", "cs", "ds", "es", "fs", "gs", "ss") and ops:
                    p2 = ops.split(None, 1)
                    mn = mn + " " + p2[0]
                    ops = p2[1] if len(p2) > 1 else ""
                if "(%rip)" in ops and cm:
                    ops = ops + " #" + cm.group(1)
                self.insns[sec].append((addr, mn, ops))


def split_operands(ops):
    out, depth, cur = [], 0, ""
    for ch in ops:
        if ch == "(":
            depth += 1
        elif ch == ")":
            depth -= 1
        if ch == "," and depth == 0:
            out.append(cur.strip())
            cur = ""
        else:
            cur += ch
    if cur.strip():
        out.append(cur.strip())
    return out


def is_mem(op):
    op = op.strip()
    if op.startswith("*"):
        op = op[1:]
    if op.startswith("$") or op.startswith("%"):
        return False
    return True   # disp(base,index,scale), bare displacement, seg:disp


def classify_access(mn, ops, rel_type):
    """-> 'call' | 'lea' | 'load' | 'store' for an instruction carrying a relocation.
    Anything not positively recognised as a load is a store (conservative)."""
    base = mn.split()[-1]
    ops = re.sub(r"\s*#[0-9a-f]+$", "", ops)
    if rel_type in ("R_X86_64_GOTPCREL", "R_X86_64_GOTPCRELX", "R_X86_64_REX_GOTPCRELX", "R_X86_64_GOT32",
                    "R_X86_64_GOTOFF64", "R_X86_64_GOTPC32", "R_X86_64_GOT64", "R_X86_64_GOTPCREL64"):
        return "lea"          # the address of the symbol is materialised
    if rel_type == "R_X86_64_PLT32" or base.startswith("call") or (base.startswith("j") and "*" not in ops):
        if "*" in ops:
            return "load"     # call *sym(%rip): reads a function pointer variable
        return "call"
    if base.startswith("lea"):
        return "lea"
    opl = split_operands(ops)
    mems = [i for i, o in enumerate(opl) if is_mem(o)]
    if rel_type in ("R_X86_64_32", "R_X86_64_32S", "R_X86_64_64"):
        # absolute relocation inside code (non-PIC): immediate => address taken; displacement => access
        if not mems:
            return "lea"
    if not mems:
        return "lea"          # relocation in an immediate: address taken
    if ATOMIC.match(mn) or ATOMIC.match(base):
        return "store"
    if len(opl) >= 2 and mems[-1] != len(opl) - 1:
        return "load"         # memory operand is a source, destination is a register
    if READ_ONLY_MNEMONICS.match(base):
        return "load"
    return "store"


# ---------------------------------------------------------------------------
# the whole library


def writable_section(name, flags):
    """is an object in this section writable shared state at run time?"""
    if "T" in flags or name.startswith(".tbss") or name.startswith(".tdata"):
        return False        # thread-local: private to each thread
    if name.startswith(".data.rel.ro"):
        # const-qualified (or proved never written by the compiler) data that merely needs load-time
        # relocation; the same objects sit in .rodata in a non-PIC build and the linker maps them
        # read-only after relocation (RELRO).  Treated like .rodata — except that analyse() puts an
        # object of such a section back among the writable ones if a store instruction names it.
        return False
    return "W" in flags     # .data .bss .data.rel .data.rel.local COMMON


def analyse(obj_paths, slots, allow_path):
    objs = [Obj(p) for p in obj_paths]
    allow = json.load(open(allow_path))
    reentrant_ext = {e["name"]: e["why"] for e in allow.get("externals", [])}

    nodes = []          # dict(id, kind, name, file, section, size, bind)
    node_ix = {}        # key -> node

    def add_node(key, **kw):
        if key in node_ix:
            return node_ix[key]
        n = dict(id=len(nodes) + 1, key=key, **kw)
        nodes.append(n)
        node_ix[key] = n
        return n

    # pass 1: defined symbols
    globals_def = {}
    for o in objs:
        o.ranges = {}   # section idx -> list of (start, end, node)
        for s in o.symbols:
            if s["type"] not in ("FUNC", "OBJECT", "TLS", "GNU_IFUNC", "COMMON") or s["ndx"] in ("UND", "ABS"):
                continue
            if s["ndx"] == "COM":
                secname, flags, ndx = "COMMON", "WA", -1
            else:
                ndx = int(s["ndx"])
                secname, flags = o.sections[ndx][0], o.sections[ndx][1]
            kind = "func" if s["type"] in ("FUNC", "GNU_IFUNC") else "obj"
            key = ("g", s["name"]) if s["bind"] in ("GLOBAL", "WEAK") else ("l", o.file, s["name"], secname, s["value"])
            if key in node_ix and s["bind"] == "GLOBAL":
                raise StaticsError("symbol %s defined twice" % s["name"])
            n = add_node(key, kind=kind, name=s["name"], file=o.file, section=secname, flags=flags, size=s["size"], bind=s["bind"],
                         writable=(kind == "obj" and writable_section(secname, flags)))
            if s["bind"] in ("GLOBAL", "WEAK"):
                globals_def[s["name"]] = n
            o.ranges.setdefault(ndx, []).append((s["value"], s["value"] + max(s["size"], 1), n))

    # Unnamed bytes (string literals, switch jump tables).  A section that carries relocations of its
    # own (.rodata with jump tables) is cut into chunks at every offset that code refers to, so that each
    # jump table is a node of its own (its entries point back into the function that uses it); other
    # unnamed sections are one node per (file, section).
    for o in objs:
        o.cuts = {}
        secidx = {v[0]: k for k, v in o.sections.items()}
        for secname, rels in o.relocs.items():
            if secname not in secidx or "X" not in o.sections[secidx[secname]][1]:
                continue
            addrs = [i[0] for i in o.insns.get(secname, [])]
            for off, typ, symidx, addend in rels:
                sy = o.symbols[symidx]
                if sy["type"] != "SECTION":
                    continue
                tn = int(sy["ndx"])
                if "X" in o.sections[tn][1] or o.sections[tn][0] not in o.relocs:
                    continue
                k = bisect.bisect_right(addrs, off) - 1
                end = addrs[k + 1] if k + 1 < len(addrs) else o.sections[secidx[secname]][2]
                pcrel = typ in PCREL
                o.cuts.setdefault(tn, set()).add(addend + (end - off) if pcrel else addend)

    def anon(o, ndx, off):
        name, flags = o.sections[ndx][0], o.sections[ndx][1]
        kind = "func" if "X" in flags else "obj"
        cuts = sorted(c for c in o.cuts.get(ndx, ()) if c <= off)
        start = cuts[-1] if cuts else 0
        label = "<%s+0x%x>" % (name, start) if o.cuts.get(ndx) else "<%s>" % name
        return add_node(("a", o.file, name, start), kind=kind, name=label, file=o.file, section=name, flags=flags,
                        size=0, bind="ANON", writable=(kind == "obj" and writable_section(name, flags)))

    def locate(o, ndx, off):
        for a, b, n in o.ranges.get(ndx, []):
            if a <= off < b:
                return n
        return anon(o, ndx, off)

    def ext(name):
        n = add_node(("x", name), kind="ext", name=name, file="<external>", section="", flags="", size=0, bind="UND", writable=False)
        return n

    edges = {}   # (src id, dst id) -> set of kinds
    stored, escaped = {}, {}   # obj id -> list of witnesses

    def add_edge(a, b, kind):
        edges.setdefault((a["id"], b["id"]), set()).add(kind)

    def target_of(o, symidx, off_in_target_section):
        """resolve a relocation's symbol (+ section offset when it is a section symbol)"""
        s = o.symbols[symidx]
        assert s["num"] == symidx
        if s["type"] == "SECTION":
            return locate(o, int(s["ndx"]), off_in_target_section)
        if s["ndx"] == "UND":
            if s["name"] in globals_def:
                return globals_def[s["name"]]
            return ext(s["name"])
        if s["bind"] in ("GLOBAL", "WEAK"):
            return globals_def[s["name"]]
        if s["ndx"] == "COM":
            return node_ix[("g", s["name"])]
        ndx = int(s["ndx"])
        return locate(o, ndx, s["value"] + off_in_target_section) if s["type"] in ("NOTYPE",) else \
            node_ix[("l", o.file, s["name"], o.sections[ndx][0], s["value"])]

    op_edges_excluded = []
    for o in objs:
        secidx = {v[0]: k for k, v in o.sections.items()}
        for secname, rels in o.relocs.items():
            if secname.startswith(".debug") or secname in (".eh_frame",) or secname not in secidx:
                continue
            ndx = secidx[secname]
            flags = o.sections[ndx][1]
            if "X" in flags:
                ins = o.insns.get(secname, [])
                addrs = [i[0] for i in ins]
                has_reloc = set()
                for off, typ, symidx, addend in rels:
                    k = bisect.bisect_right(addrs, off) - 1
                    if k < 0:
                        raise StaticsError("%s: relocation at %x outside any instruction" % (o.file, off))
                    has_reloc.add(k)
                    addr, mn, ops = ins[k]
                    end = addrs[k + 1] if k + 1 < len(addrs) else o.sections[ndx][2]
                    src = locate(o, ndx, addr)
                    pcrel = typ in PCREL
                    toff = addend + (end - off) if pcrel else addend
                    dst = target_of(o, symidx, toff)
                    acc = classify_access(mn, ops, typ)
                    if dst["kind"] in ("func", "ext") and acc in ("call", "lea", "load"):
                        add_edge(src, dst, "call" if acc == "call" else "addr")
                    else:
                        add_edge(src, dst, acc)
                    if dst["kind"] == "ext" and acc not in ("call",) and dst["name"] not in ("stdout", "stderr", "stdin"):
                        pass
                    if dst["kind"] == "obj":
                        w = "%s:%s+0x%x: %s %s" % (o.file, src["name"], addr, mn, ops)
                        if acc == "store":
                            stored.setdefault(dst["id"], []).append(w)
                        elif acc in ("lea", "call"):
                            escaped.setdefault(dst["id"], []).append(w)
                o.reloc_insns = getattr(o, "reloc_insns", {})
                o.reloc_insns[secname] = has_reloc
            elif "A" in flags:
                for off, typ, symidx, addend in rels:
                    src = locate(o, ndx, off)
                    if typ in PCREL and src["bind"] == "ANON":
                        # jump-table entry `.long .Lcase - .Ltable`: S + A - P with P = table + 4k, so the
                        # case label is A - (P - table); the table starts where code refers to (the cut)
                        cuts = sorted(c for c in o.cuts.get(ndx, ()) if c <= off)
                        addend -= off - (cuts[-1] if cuts else 0)
                    dst = target_of(o, symidx, addend)
                    if src["name"].startswith("asn_OP_") and src["size"] == slots.get("sizeof"):
                        slot = [k for k, v in slots.items() if k != "sizeof" and v == off - [a for a, b, n in o.ranges[ndx] if n is src][0]]
                        if slot and slot[0] in EXCLUDED_OP_SLOTS:
                            op_edges_excluded.append((src["name"], slot[0], dst["name"]))
                            continue
                    add_edge(src, dst, "init")
                    if dst["kind"] == "obj":
                        escaped.setdefault(dst["id"], []).append("%s:%s+0x%x: data initialiser" % (o.file, src["name"], off))

    # direct calls / jumps inside one section carry no relocation: take the target from the disassembly
    for o in objs:
        secidx = {v[0]: k for k, v in o.sections.items()}
        for secname, ins in o.insns.items():
            ndx = secidx[secname]
            skip = getattr(o, "reloc_insns", {}).get(secname, set())
            for k, (addr, mn, ops) in enumerate(ins):
                base = mn.split()[-1]
                if k in skip:
                    continue
                m = re.search(r"\(%rip\).* #([0-9a-f]+)$", ops)
                if m:             # rip-relative operand resolved by the assembler: same section, e.g. lea of a static function
                    src, dst = locate(o, ndx, addr), locate(o, ndx, int(m.group(1), 16))
                    if src is not dst:
                        add_edge(src, dst, "addr")
                    continue
                if not (base.startswith("call") or base.startswith("j") or base.startswith("loop") or base == "xbegin"):
                    continue
                m = re.match(r"^([0-9a-f]+)$", ops.strip())
                if not m:
                    continue      # indirect through a register / memory: covered by the address-taken edges
                src, dst = locate(o, ndx, addr), locate(o, ndx, int(m.group(1), 16))
                if src is not dst:
                    add_edge(src, dst, "call")

    # a store that names an object of a relocated-read-only section makes it writable state after all
    for n in nodes:
        if n["kind"] == "obj" and n["section"].startswith(".data.rel.ro") and n["id"] in stored:
            n["writable"] = True

    # a global object's address is visible to the application and to every other object file
    for n in nodes:
        if n["kind"] == "obj" and n["bind"] in ("GLOBAL", "WEAK") and n["writable"]:
            escaped.setdefault(n["id"], []).append("%s:%s: global symbol" % (n["file"], n["name"]))

    # externals: anything not on the committed reentrant list touches hidden libc state
    for n in list(nodes):
        if n["kind"] == "ext" and n["name"] not in reentrant_ext:
            st = add_node(("s", n["name"]), kind="obj", name="libc-state:" + n["name"], file="<external>", section="<libc>", flags="WA",
                          size=0, bind="PSEUDO", writable=True)
            add_edge(n, st, "store")
            stored.setdefault(st["id"], []).append("external %s is not on the reentrant-externals list" % n["name"])

    # entries: every global function of the library except the documented exclusions, and every
    # asn_DEF_*/asn_OP_* object (whatever their initialisers point at can be called through them)
    entries, excluded_entries = [], []
    for n in nodes:
        if n["bind"] not in ("GLOBAL", "WEAK"):
            continue
        if n["kind"] == "func":
            why = [w for pat, w in ENTRY_EXCLUDE if re.search(pat, n["name"])]
            if why:
                excluded_entries.append((n["name"], why[0]))
            else:
                entries.append(n)
        if n["kind"] == "obj" and (n["name"].startswith("asn_DEF_") or n["name"].startswith("asn_OP_")):
            entries.append(n)
    missing_api = [a for a in PUBLIC_API if a not in globals_def]

    # allowlist
    allowed, allow_unused = [], []
    for e in allow.get("objects", []):
        hit = [n for n in nodes if n["kind"] == "obj" and n["file"] == e["file"] and re.sub(r"\.\d+$", "", n["name"]) == e["symbol"]
               and n["section"] == e["section"] and n["size"] == e["size"]]
        if hit:
            allowed += hit
        else:
            allow_unused.append(e)

    return dict(nodes=nodes, edges=edges, stored=stored, escaped=escaped, entries=entries, allowed=allowed,
                allow_unused=allow_unused, missing_api=missing_api, excluded_entries=excluded_entries, op_edges_excluded=op_edges_excluded, slots=slots,
                reentrant_ext=reentrant_ext, nobjs=len(objs))


def reach_py(res, skip_edges=()):
    """python copy of the closure, with one parent per node for reporting call paths"""
    succ = {}
    for (a, b) in res["edges"]:
        succ.setdefault(a, []).append(b)
    parent = {}
    todo = []
    for e in res["entries"]:
        if e["id"] not in parent:
            parent[e["id"]] = None
            todo.append(e["id"])
    while todo:
        nxt = []
        for a in todo:
            for b in sorted(succ.get(a, [])):
                if b not in parent:
                    parent[b] = a
                    nxt.append(b)
        todo = nxt
    return parent


def path_to(res, parent, nid):
    byid = {n["id"]: n for n in res["nodes"]}
    p = []
    while nid is not None:
        n = byid[nid]
        p.append(("%s:%s" % (n["file"], n["name"])) if n["bind"] not in ("GLOBAL", "WEAK") else n["name"])
        nid = parent[nid]
    return list(reversed(p))


def offending(res, known=()):
    """objects that make the obligation false: reachable, in a writable section, and stored to or escaped-and-not-allowlisted"""
    parent = reach_py(res)
    allowed = {n["id"] for n in res["allowed"]}
    out = []
    for n in res["nodes"]:
        if n["kind"] != "obj" or not n["writable"] or n["id"] not in parent:
            continue
        why = None
        if n["id"] in res["stored"]:
            why = ("stored", res["stored"][n["id"]])
        elif n["id"] in res["escaped"] and n["id"] not in allowed:
            why = ("address-taken-not-allowlisted", res["escaped"][n["id"]])
        if why:
            out.append(dict(file=n["file"], symbol=re.sub(r"\.\d+$", "", n["name"]), raw_symbol=n["name"], section=n["section"], size=n["size"],
                            reason=why[0], witnesses=why[1][:6], path=path_to(res, parent, n["id"]), id=n["id"]))
    return out, parent


def coq_name(n):
    return ("%s:%s" % (n["file"], n["name"])).replace('"', "'")


def emit_coq(res, path, known_ids=()):
    nodes = res["nodes"]
    W = sorted(n["id"] for n in nodes if n["kind"] == "obj" and n["writable"])
    stored = sorted(i for i in res["stored"] if i in set(W))
    escaped = sorted(i for i in res["escaped"] if i in set(W))
    allowed = sorted({n["id"] for n in res["allowed"]})
    entries = sorted({n["id"] for n in res["entries"]})
    edges = sorted(res["edges"].keys())

    def plist(xs, per=20):
        xs = ["%d" % x for x in xs]
        lines = ["; ".join(xs[i:i + per]) for i in range(0, len(xs), per)]
        return "[" + ";\n   ".join(lines) + "]"

    def elist(xs, per=8):
        xs = ["(%d,%d)" % x for x in xs]
        lines = ["; ".join(xs[i:i + per]) for i in range(0, len(xs), per)]
        return "[" + ";\n   ".join(lines) + "]"
    out = []
    out.append("(* Gen_Statics.v — GENERATED by harness/statics.py on every run of bin/vcheck C19; do not commit.")
    out.append("   %d object files, %d nodes, %d edges. Node ids (symbol table):" % (res["nobjs"], len(nodes), len(edges)))
    for n in nodes:
        tag = n["kind"] + ("/W" if n.get("writable") else "")
        out.append("   %5d %-6s %-22s %6d  %s" % (n["id"], tag, n["section"], n["size"], coq_name(n).replace("(*", "( *").replace("*)", "* )")))
    out.append("*)")
    out.append("From Coq Require Import List PArith Bool.")
    out.append("From A1 Require Import Conc.Reach Conc.ReachProofs Conc.Interleave Conc.Link.")
    out.append("Import ListNotations.")
    out.append("Local Open Scope positive_scope.")
    out.append("Definition g_edges : graph :=\n  %s." % elist(edges))
    out.append("Definition g_entries : list id :=\n  %s." % plist(entries))
    out.append("Definition g_wsec : list id :=\n  %s." % plist(W))
    out.append("Definition g_stored : list id :=\n  %s." % plist(stored))
    out.append("Definition g_escaped : list id :=\n  %s." % plist(escaped))
    out.append("Definition g_allow : list id :=\n  %s." % plist(allowed))
    out.append("Definition g_known : list id :=\n  %s." % plist(sorted(known_ids)))
    out.append("Definition g_facts : facts := mkFacts g_edges g_entries g_wsec g_stored g_escaped g_allow g_known.")
    out.append("")
    out.append("(* the per-run obligation: decided by the proved checker *)")
    out.append("Theorem statics_ok : no_writable_reachable g_facts = true.")
    out.append("Proof. vm_compute. reflexivity. Qed.")
    out.append("")
    out.append("(* what it means (ReachProofs.no_writable_reachable_sound): no flagged writable object is connected to an entry point *)")
    out.append("Theorem statics_meaning : forall x, path g_edges g_entries x -> flagged g_facts x = false.")
    out.append("Proof. exact (no_writable_reachable_sound g_facts statics_ok). Qed.")
    out.append("Print Assumptions statics_meaning.")
    out.append("")
    out.append("(* and, under the footprint assumption spelled out in Conc/Link.v, the interleaving theorem applies to")
    out.append("   every program of codec calls over this build of the library *)")
    out.append("Definition statics_conclusion :=")
    out.append("  fun cls obj_of calls m0 H1 H2 H3 => statics_imply_irrelevant g_facts cls obj_of calls m0 H1 H2 H3 statics_ok.")
    out.append("Check statics_conclusion.")
    out.append("Print Assumptions statics_conclusion.")
    open(path, "w").write("\n".join(out) + "\n")
    return dict(nodes=len(nodes), edges=len(edges), entries=len(entries), wsec=len(W), stored=len(stored), escaped=len(escaped), allowed=len(allowed))


# ---------------------------------------------------------------------------
# self-test: the whole pipeline on a file whose accesses are known

SELFTEST_EXPECT = [
    # (source node, target node, kinds that must be present, kinds that must be absent)
    ("f_read", "g_read", {"load"}, {"store", "lea"}),
    ("f_cmp", "g_cmp", {"load"}, {"store", "lea"}),
    ("f_write", "g_written", {"store"}, set()),
    ("f_rmw", "g_rmw", {"store"}, set()),
    ("f_addr", "g_addr", {"lea"}, {"store"}),
    ("f_dbl", "g_dbl", {"store"}, set()),
    ("f_calls", "helper", {"call"}, set()),
    ("f_fnptr", "helper2", {"addr"}, set()),
    ("g_table", "helper3", {"init"}, set()),
    ("g_table", "g_addr", {"init"}, set()),
    ("f_local_static", "counter.0", {"store"}, set()),
]


def selftest(outdir):
    """returns a list of failures (empty = the translator reads this toolchain's output correctly)"""
    here = os.path.dirname(os.path.abspath(__file__))
    os.makedirs(outdir, exist_ok=True)
    o = os.path.join(outdir, "statics_selftest.o")
    _run(["gcc"] + CFLAGS + ["-c", os.path.join(here, "statics_selftest.c"), "-o", o])
    empty = os.path.join(outdir, "empty_allow.json")
    open(empty, "w").write('{"objects": [], "externals": []}')
    res = analyse([o], {"sizeof": -1}, empty)
    byname = {}
    for n in res["nodes"]:
        byname.setdefault(n["name"], n)
    fails = []
    for src, dst, must, mustnot in SELFTEST_EXPECT:
        if src not in byname or dst not in byname:
            fails.append("node missing: %s or %s" % (src, dst))
            continue
        kinds = res["edges"].get((byname[src]["id"], byname[dst]["id"]), set())
        if not must <= kinds or kinds & mustnot:
            fails.append("%s -> %s: got %s, want %s without %s" % (src, dst, sorted(kinds), sorted(must), sorted(mustnot)))
    # array written through an index: either a relocated store or lea + indexed store; never a plain load
    for src, dst in (("f_arr", "g_arr"), ("f_bytes", "g_bytes")):
        kinds = res["edges"].get((byname[src]["id"], byname[dst]["id"]), set())
        if not kinds & {"store", "lea"}:
            fails.append("%s -> %s: got %s, want store or lea" % (src, dst, sorted(kinds)))
    # sections: const tables are not writable, the others are; thread-local is not shared
    for name, want in (("g_read", True), ("g_arr", True), ("counter.0", True), ("c_tab", False), ("c_ptrs", False), ("g_tls", False)):
        if name not in byname or bool(byname[name].get("writable")) != want:
            fails.append("writable(%s) should be %s" % (name, want))
    # the switch's jump table must lead back to code that reaches f_read and f_cmp
    res["entries"] = [byname["f_switch"]]
    parent = reach_py(res)
    for name in ("f_cmp", "g_read", "g_cmp"):    # f_read is inlined into the switch arm: its load of g_read is what remains
        if byname[name]["id"] not in parent:
            fails.append("%s not reachable from f_switch" % name)
    jt = [n for n in res["nodes"] if n["bind"] == "ANON" and n["id"] in parent and n["section"] == ".rodata"]
    for n in jt:     # every jump-table entry must resolve into f_switch itself
        for (a, b), kinds in res["edges"].items():
            if a == n["id"] and b != byname["f_switch"]["id"]:
                fails.append("jump table entry resolves outside f_switch")
    if not jt:
        fails.append("no jump table node found for f_switch")
    if byname["g_written"]["id"] in parent:
        fails.append("g_written reachable from f_switch")
    return fails


def main(argv):
    repo = argv[1] if len(argv) > 1 else "/repo"
    outdir = argv[2] if len(argv) > 2 else "/var/tmp/statics_out"
    here = os.path.dirname(os.path.abspath(__file__))
    print("selftest failures:", selftest(os.path.join(outdir, "selftest")))
    objs, slots = build_objects(repo, os.path.join(outdir, "obj"))
    res = analyse(objs, slots, os.path.join(here, "statics_allow.json"))
    bad, parent = offending(res)
    st = emit_coq(res, os.path.join(outdir, "Gen_Statics.v"))
    print(json.dumps(st))
    print("missing api:", res["missing_api"])
    print("excluded op edges:", len(res["op_edges_excluded"]))
    print("unused allowlist entries:", len(res["allow_unused"]))
    for b in bad:
        print("OFFENDING", json.dumps(b))
    if "--dump" in argv:
        W = [n for n in res["nodes"] if n["kind"] == "obj" and n["writable"]]
        for n in W:
            print("W", n["file"], n["name"], n["section"], n["size"], "reach" if n["id"] in parent else "unreach",
                  "stored" if n["id"] in res["stored"] else "-", "escaped" if n["id"] in res["escaped"] else "-")
        for n in res["nodes"]:
            if n["kind"] == "ext":
                print("EXT", n["name"], "reach" if n["id"] in parent else "unreach")


if __name__ == "__main__":
    main(sys.argv)
