/*
 * allocwrap — allocation ledger for C14, interposed at LINK time:
 *     gcc ... -Wl,--wrap=malloc,--wrap=calloc,--wrap=realloc,--wrap=free
 * Every call of malloc/calloc/realloc/free made from the objects of the link
 * (the skeletons: asn_internal.h's MALLOC/CALLOC/REALLOC/FREEMEM are plain
 * macros over them; the generated code; moddrv.c) lands here; __real_* are the
 * allocator underneath (ASan's interceptors when the build is sanitized — the
 * wrapping happens at symbol resolution, so the two do not fight).  Memory
 * obtained inside libc (getline, stdio) is not seen; it never reaches the
 * library's FREEMEM.
 *
 * The ledger knows every block handed out and not yet released:
 *   - live set with sizes (count, bytes);
 *   - an allocation counter for the armed window (aw_arm .. aw_disarm) and a
 *     trigger "the k-th allocation of the window returns NULL" (k counts from 0;
 *     malloc, calloc and realloc(ptr,n>0) each count as one allocation);
 *   - released blocks are QUARANTINED (the real free is deferred until
 *     aw_flush), so an address is never reused inside a history: a second free
 *     of the same block is recognised exactly (double free) and a free of an
 *     address never handed out is recognised (foreign free).  Both are
 *     REPORTED (aw_violations) instead of crashing; the offending free is
 *     dropped.  Quarantined bytes are poisoned (0xDD fill + ASan manual
 *     poisoning when available) so that a use after free is visible;
 *   - realloc always moves the block (old one is quarantined): stale pointers
 *     into a grown array are caught.
 * Not thread safe (moddrv is single threaded).
 */
#include <stddef.h>
#include <stdint.h>
#include <string.h>
#include <stdio.h>
#include <unistd.h>

void *__real_malloc(size_t);
void *__real_calloc(size_t, size_t);
void *__real_realloc(void *, size_t);
void __real_free(void *);

#if defined(__SANITIZE_ADDRESS__)
void __asan_poison_memory_region(void const volatile *addr, size_t size);
void __asan_unpoison_memory_region(void const volatile *addr, size_t size);
#define AW_POISON(p, n) __asan_poison_memory_region((p), (n))
#define AW_UNPOISON(p, n) __asan_unpoison_memory_region((p), (n))
#else
#define AW_POISON(p, n) ((void)0)
#define AW_UNPOISON(p, n) ((void)0)
#endif

enum { AW_EMPTY = 0, AW_LIVE = 1, AW_FREED = 2 };
struct aw_ent { void *ptr; size_t size; int state; };

static struct aw_ent *tab;
static size_t tab_cap, tab_used;          /* used = LIVE + FREED entries */
static size_t live_count, live_bytes, quarantine_bytes;

static int armed;
static long win_allocs;                   /* allocations requested in the window (including the failed one) */
static long fail_at = -1;                 /* index of the allocation that fails; <0 never */
static long failed_in_window;             /* how many allocations were made to fail */

#define AW_MAXVIOL 8
static int nviol;
static char viol[AW_MAXVIOL][64];
static long total_viol;

static size_t hash_ptr(const void *p) {
    uint64_t x = (uint64_t)(uintptr_t)p;
    x ^= x >> 33; x *= 0xff51afd7ed558ccdULL; x ^= x >> 33;
    return (size_t)x;
}

static struct aw_ent *lookup(const void *p) {
    if(!tab_cap) return 0;
    size_t i = hash_ptr(p) & (tab_cap - 1);
    while(tab[i].state != AW_EMPTY) {
        if(tab[i].ptr == p) return &tab[i];
        i = (i + 1) & (tab_cap - 1);
    }
    return 0;
}

static void insert_raw(struct aw_ent *t, size_t cap, void *p, size_t size, int state) {
    size_t i = hash_ptr(p) & (cap - 1);
    while(t[i].state != AW_EMPTY) i = (i + 1) & (cap - 1);
    t[i].ptr = p; t[i].size = size; t[i].state = state;
}

static void grow(void) {
    size_t ncap = tab_cap ? tab_cap * 2 : 1024;
    struct aw_ent *nt = __real_calloc(ncap, sizeof(*nt));
    if(!nt) { fprintf(stderr, "allocwrap: out of memory for the ledger\n"); _exit(70); }
    for(size_t i = 0; i < tab_cap; i++)
        if(tab[i].state != AW_EMPTY) insert_raw(nt, ncap, tab[i].ptr, tab[i].size, tab[i].state);
    __real_free(tab);
    tab = nt; tab_cap = ncap;
}

static void note(const char *what, const void *p, size_t size) {
    total_viol++;
    if(nviol < AW_MAXVIOL) snprintf(viol[nviol++], sizeof(viol[0]), "%s(%zu)", what, size);
    (void)p;
}

/* release quarantined blocks for real; live blocks stay */
void aw_flush(void) {
    if(!tab_cap) return;
    size_t nl = 0;
    struct aw_ent *keep = live_count ? __real_malloc(live_count * sizeof(*keep)) : 0;
    for(size_t i = 0; i < tab_cap; i++) {
        if(tab[i].state == AW_FREED) {
            AW_UNPOISON(tab[i].ptr, tab[i].size);
            __real_free(tab[i].ptr);
        } else if(tab[i].state == AW_LIVE && keep) {
            keep[nl++] = tab[i];
        }
    }
    memset(tab, 0, tab_cap * sizeof(*tab));
    for(size_t i = 0; i < nl; i++) insert_raw(tab, tab_cap, keep[i].ptr, keep[i].size, AW_LIVE);
    __real_free(keep);
    tab_used = nl; quarantine_bytes = 0;
}

static void record(void *p, size_t size) {
    if((tab_used + 1) * 2 > tab_cap) grow();
    struct aw_ent *e = lookup(p);
    if(e) {
        /* the real allocator handed out an address we still hold: cannot happen while quarantined */
        note("ledger-address-reuse", p, size);
        if(e->state == AW_LIVE) { live_count--; live_bytes -= e->size; }
        e->size = size; e->state = AW_LIVE;
    } else {
        insert_raw(tab, tab_cap, p, size, AW_LIVE);
        tab_used++;
    }
    live_count++; live_bytes += size;
}

static int should_fail(void) {
    if(!armed) return 0;
    long idx = win_allocs++;
    if(fail_at >= 0 && idx == fail_at) { failed_in_window++; return 1; }
    return 0;
}

static void release(void *p) {
    struct aw_ent *e = lookup(p);
    if(!e) {
        if(armed) { note("foreign-free", p, 0); return; }
        /* memory obtained inside libc (getline buffer of moddrv's main loop): not ours to judge */
        __real_free(p);
        return;
    }
    if(e->state == AW_FREED) { note("double-free", p, e->size); return; }
    e->state = AW_FREED;
    live_count--; live_bytes -= e->size;
    quarantine_bytes += e->size;
    memset(p, 0xDD, e->size);
    AW_POISON(p, e->size);
    if(quarantine_bytes > ((size_t)256 << 20) && !armed) aw_flush();
}

void *__wrap_malloc(size_t n) {
    if(should_fail()) return 0;
    void *p = __real_malloc(n ? n : 1);
    if(p) record(p, n);
    return p;
}

void *__wrap_calloc(size_t a, size_t b) {
    if(should_fail()) return 0;
    void *p = __real_calloc(a ? a : 1, b ? b : 1);
    if(p) record(p, a * b);
    return p;
}

void *__wrap_realloc(void *old, size_t n) {
    if(!old) return __wrap_malloc(n);
    if(n == 0) { release(old); return 0; }      /* glibc semantics */
    struct aw_ent *e = lookup(old);
    if(!e || e->state != AW_LIVE) {
        if(e) note("realloc-after-free", old, e->size);
        else if(armed) note("foreign-realloc", old, 0);
        else return __real_realloc(old, n);
        return 0;
    }
    if(should_fail()) return 0;                 /* old block stays valid, as the standard says */
    size_t osz = e->size;
    void *p = __real_malloc(n);
    if(!p) return 0;
    memcpy(p, old, osz < n ? osz : n);
    record(p, n);                               /* may rehash: do not use e afterwards */
    release(old);
    return p;
}

void __wrap_free(void *p) {
    if(!p) return;
    release(p);
}

/* ---------------------------------------------------------------- control */
void aw_arm(long k) { armed = 1; win_allocs = 0; fail_at = k; failed_in_window = 0; }
long aw_disarm(void) { armed = 0; fail_at = -1; return win_allocs; }
long aw_failed(void) { return failed_in_window; }
size_t aw_live_count(void) { return live_count; }
size_t aw_live_bytes(void) { return live_bytes; }
/* size of a live block, (size_t)-1 if the address is not a live block */
size_t aw_block_size(const void *p) {
    struct aw_ent *e = lookup(p);
    return (e && e->state == AW_LIVE) ? e->size : (size_t)-1;
}
long aw_total_violations(void) { return total_viol; }
/* prints and clears the violations recorded since the last call; returns their number */
int aw_report(FILE *f) {
    int n = nviol;
    if(!n) fprintf(f, "-");
    for(int i = 0; i < n; i++) fprintf(f, "%s%s", i ? "," : "", viol[i]);
    nviol = 0;
    return n;
}
