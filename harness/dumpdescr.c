/*
 * dumpdescr — translator of property C10.
 * Linked with the code asn1c generated for one module (its static archive
 * libasncodec.a and a PDU table), walks every asn_TYPE_descriptor_t reachable
 * from the table through elements[].type and prints each as a Gallina term of
 * type A1.Rt.WfDescr.descr (one term per line, preceded by a "#D" line with the
 * names, which stay outside Coq).
 *
 * Two PDU tables are understood: `pdu_table[]` of lib/modbuild.write_pdu_table
 * (compile with -DUSE_PDU_TABLE) and the `asn_pdu_collection[]` asn1c emits
 * itself with -pdu=all (default).
 *
 * The op-table KIND is found by comparing td->op with the asn_OP_* symbols.
 * They are declared weak: an op table the generated code does not reference is
 * not pulled out of the archive and compares as NULL, so the link is exactly
 * the one converter-example.mk performs.
 *
 * Round 3 (type references): after each descriptor a line
 *   #X <id> op=<n> el=<n> sp=<n> gc=<n> per=<n> oer=<n> ec=<count> rep=<n>
 * gives the IDENTITY of the pointer-valued slots as small tokens (0 = NULL,
 * otherwise 1 + the rank of first appearance of that address among all slots
 * of that column): two descriptors share an op table / member table /
 * specifics record iff their tokens are equal.  rep = what the specifics say
 * about the C REPRESENTATION for the kinds whose specifics are not printed
 * structurally: NativeReal - float_size (NULL: sizeof(double)); the OCTET STRING
 * family (strings, BIT STRING, ANY, time types) - 1 + subvariant + 8*struct_size
 * (NULL: 0); every other kind 0.  Parsers of the "(mkD" lines ignore the line.
 */
#include <stdio.h>
#include <stdlib.h>
#include <string.h>
#include <asn_application.h>
#include <asn_internal.h>
#include <constr_SEQUENCE.h>
#include <constr_CHOICE.h>
#include <constr_SET_OF.h>
#include <INTEGER.h>
#include <per_support.h>
#ifndef ASN_DISABLE_OER_SUPPORT
#include <oer_support.h>
#endif

/* constr_SET.h may be absent from the emitted file set: repeat the layout here
 * under a private name; sizes are cross-checked at run time when SET is linked */
typedef struct dd_SET_specifics_s {
    unsigned struct_size, ctx_offset, pres_offset;
    const asn_TYPE_tag2member_t *tag2el;
    unsigned tag2el_count;
    const asn_TYPE_tag2member_t *tag2el_cxer;
    unsigned tag2el_cxer_count;
    int extensible;
    const unsigned int *_mandatory_elements;
} dd_SET_specifics_t;

#define OPS(X) \
    X(SEQUENCE, "KSeq") X(SET, "KSet") X(CHOICE, "KChoice") X(SEQUENCE_OF, "KSeqOf") X(SET_OF, "KSetOf") \
    X(OPEN_TYPE, "KOpenType") X(NativeInteger, "KNativeInt") X(INTEGER, "KInt") \
    X(NativeEnumerated, "KNativeEnum") X(ENUMERATED, "KEnum") X(BOOLEAN, "KBool") X(NULL, "KNull") \
    X(OCTET_STRING, "KOctets") X(BIT_STRING, "KBits") X(ANY, "KAny") \
    X(REAL, "KReal") X(NativeReal, "KReal") X(OBJECT_IDENTIFIER, "KOid") X(RELATIVE_OID, "KOid") \
    X(UTCTime, "KTime") X(GeneralizedTime, "KTime") \
    X(IA5String, "KStr") X(PrintableString, "KStr") X(VisibleString, "KStr") X(NumericString, "KStr") \
    X(UTF8String, "KStr") X(BMPString, "KStr") X(UniversalString, "KStr") X(GeneralString, "KStr") \
    X(GraphicString, "KStr") X(ISO646String, "KStr") X(T61String, "KStr") X(TeletexString, "KStr") \
    X(VideotexString, "KStr") X(ObjectDescriptor, "KStr")

#define DECL(n, k) extern asn_TYPE_operation_t asn_OP_##n __attribute__((weak));
OPS(DECL)

static const char *kind_of(const asn_TYPE_descriptor_t *td) {
#define CMP(n, k) if(&asn_OP_##n && td->op == &asn_OP_##n) return k;
    OPS(CMP)
    return "KOther";
}

#ifdef USE_PDU_TABLE
struct pdu_ent { const char *name; asn_TYPE_descriptor_t *td; };
extern struct pdu_ent pdu_table[];
#else
extern asn_TYPE_descriptor_t *asn_pdu_collection[];
#endif

#define MAXD 20000
static const asn_TYPE_descriptor_t *tab[MAXD];
static int ntab;

static int idx_of(const asn_TYPE_descriptor_t *td) {
    int i;
    if(!td) return -1;
    for(i = 0; i < ntab; i++) if(tab[i] == td) return i;
    if(ntab >= MAXD) { fprintf(stderr, "dumpdescr: too many descriptors\n"); exit(3); }
    tab[ntab] = td;
    return ntab++;
}

/* private copies of two specifics layouts (their headers may be absent from the emitted file set) */
typedef struct { unsigned struct_size, ctx_offset; int subvariant; } dd_OS_specifics_t;
typedef struct { unsigned float_size; } dd_NativeReal_specifics_t;

static long rep_of(const asn_TYPE_descriptor_t *td, const char *k) {
    if(&asn_OP_NativeReal && td->op == &asn_OP_NativeReal)
        return td->specifics ? (long)((const dd_NativeReal_specifics_t *)td->specifics)->float_size : (long)sizeof(double);
    if(!strcmp(k, "KOctets") || !strcmp(k, "KBits") || !strcmp(k, "KAny") || !strcmp(k, "KStr") || !strcmp(k, "KTime")) {
        const dd_OS_specifics_t *s = (const dd_OS_specifics_t *)td->specifics;
        return s ? 1 + (long)s->subvariant + 8 * (long)s->struct_size : 0;
    }
    return 0;
}

/* identity tokens of pointer-valued slots, one name space per column */
#define NCOL 6
static const void *seen_ptr[NCOL][MAXD];
static int nseen[NCOL];
static int tok(int col, const void *p) {
    int i;
    if(!p) return 0;
    for(i = 0; i < nseen[col]; i++) if(seen_ptr[col][i] == p) return i + 1;
    if(nseen[col] >= MAXD) { fprintf(stderr, "dumpdescr: too many distinct pointers\n"); exit(3); }
    seen_ptr[col][nseen[col]] = p;
    return ++nseen[col];
}

static void pz(long v) { if(v < 0) printf("(%ld)", v); else printf("%ld", v); }
static void ptag(ber_tlv_tag_t t) { if(t == (ber_tlv_tag_t)-1) printf("(-1)"); else printf("%lu", (unsigned long)t); }

static void ptags(const ber_tlv_tag_t *t, unsigned n) {
    unsigned i;
    printf("[");
    for(i = 0; t && i < n; i++) { if(i) printf(";"); ptag(t[i]); }
    printf("]");
}

static void pper1(const asn_per_constraint_t *c) {
    printf("(mkP %d ", (int)c->flags); pz(c->range_bits); printf(" "); pz(c->effective_bits); printf(" ");
    pz(c->lower_bound); printf(" "); pz(c->upper_bound); printf(")");
}

static void pper(const asn_per_constraints_t *c) {
    if(!c) { printf("None"); return; }
    printf("(Some (mkPC "); pper1(&c->value); printf(" "); pper1(&c->size);
    printf(" %s %s))", c->value2code ? "true" : "false", c->code2value ? "true" : "false");
}

static int g_bad;   /* anomalies seen while printing the current descriptor */

static void poer(const asn_oer_constraints_t *c) {
    if(!c) { printf("None"); return; }
#ifdef ASN_DISABLE_OER_SUPPORT
    g_bad |= 32768;    /* OER support compiled out, yet a constraint record is referenced */
    printf("None");
#else
    printf("(Some (mkO %u %u ", c->value.width, c->value.positive); pz((long)c->size); printf("))");
#endif
}

static void pt2e(const asn_TYPE_tag2member_t *t, unsigned n, int *bad) {
    unsigned i;
    if(n && !t) { *bad |= 1; n = 0; }
    if(n > 100000) { *bad |= 2; n = 0; }
    printf("[");
    for(i = 0; i < n; i++) {
        if(i) printf(";");
        printf("mkT "); ptag(t[i].el_tag); printf(" %u ", t[i].el_no); pz(t[i].toff_first); printf(" "); pz(t[i].toff_last);
    }
    printf("]");
}

static void pbytes(const char *s, size_t n) {
    size_t i;
    printf("[");
    for(i = 0; s && i < n; i++) { if(i) printf(";"); printf("%u", (unsigned char)s[i]); }
    printf("]");
}

static void dump(int i) {
    const asn_TYPE_descriptor_t *td = tab[i];
    const char *k = kind_of(td);
    unsigned e;
    int bad = 0;
    unsigned ne = td->elements_count;
    g_bad = 0;
    printf("#D %d kind=%s name=%s xml=%s\n", i, k, td->name ? td->name : "(null)", td->xml_tag ? td->xml_tag : "(null)");
    if(!td->name) bad |= 4;
    if(ne && !td->elements) { bad |= 8; ne = 0; }
    if(ne > 100000) { bad |= 16; ne = 0; }
    if((td->tags_count && !td->tags) || (td->all_tags_count && !td->all_tags)) bad |= 32;
    printf("(mkD %d %s ", i, k);
    ptags(td->tags, td->tags_count); printf(" "); ptags(td->all_tags, td->all_tags_count);
    printf(" [");
    for(e = 0; e < ne; e++) {
        const asn_TYPE_member_t *m = &td->elements[e];
        if(e) printf(";");
        if(!m->type) bad |= 64;
        printf("mkM %d %u ", (int)m->flags, m->optional); ptag(m->tag); printf(" "); pz(m->tag_mode);
        printf(" %d ", idx_of(m->type));
        pper(m->encoding_constraints.per_constraints); printf(" ");
        poer(m->encoding_constraints.oer_constraints);
        printf(" %s %s", m->default_value_set ? "true" : "false", m->type_selector ? "true" : "false");
    }
    printf("] ");
    pper(td->encoding_constraints.per_constraints); printf(" ");
    poer(td->encoding_constraints.oer_constraints); printf(" ");
    if(!strcmp(k, "KSeq")) {
        const asn_SEQUENCE_specifics_t *s = (const asn_SEQUENCE_specifics_t *)td->specifics;
        if(!s) { bad |= 128; printf("SNone"); }
        else {
            unsigned no = s->roms_count + s->aoms_count, j;
            printf("(SSeq "); pt2e(s->tag2el, s->tag2el_count, &bad);
            if(no && !s->oms) { bad |= 256; no = 0; }
            if(no > 100000) { bad |= 512; no = 0; }
            printf(" [");
            for(j = 0; j < no; j++) { if(j) printf(";"); pz(s->oms[j]); }
            printf("] %u %u ", s->roms_count, s->aoms_count); pz(s->first_extension); printf(")");
        }
    } else if(!strcmp(k, "KSet")) {
        const dd_SET_specifics_t *s = (const dd_SET_specifics_t *)td->specifics;
        if(!s) { bad |= 128; printf("SNone"); }
        else {
            unsigned j, nw = ((ne + 31) / 32) * 4;   /* bytes, network order (the runtime applies sys_ntohl) */
            printf("(SSet "); pt2e(s->tag2el, s->tag2el_count, &bad); printf(" ");
            pt2e(s->tag2el_cxer, s->tag2el_cxer_count, &bad); printf(" "); pz(s->extensible);
            if(ne && !s->_mandatory_elements) { bad |= 1024; nw = 0; }
            printf(" [");
            for(j = 0; j < nw; j++) { if(j) printf(";"); printf("%u", ((const unsigned char *)s->_mandatory_elements)[j]); }
            printf("])");
        }
    } else if(!strcmp(k, "KChoice") || !strcmp(k, "KOpenType")) {
        const asn_CHOICE_specifics_t *s = (const asn_CHOICE_specifics_t *)td->specifics;
        if(!s) { bad |= 128; printf("SNone"); }
        else {
            unsigned j;
            printf("(SChoice "); pt2e(s->tag2el, s->tag2el_count, &bad); printf(" ");
            if(s->to_canonical_order && s->from_canonical_order) {
                printf("(Some ([");
                for(j = 0; j < ne; j++) { if(j) printf(";"); printf("%u", s->to_canonical_order[j]); }
                printf("],[");
                for(j = 0; j < ne; j++) { if(j) printf(";"); printf("%u", s->from_canonical_order[j]); }
                printf("]))");
            } else {
                if(s->to_canonical_order || s->from_canonical_order) bad |= 2048;
                printf("None");
            }
            printf(" "); pz(s->ext_start); printf(")");
        }
    } else if(!strcmp(k, "KSeqOf") || !strcmp(k, "KSetOf")) {
        const asn_SET_OF_specifics_t *s = (const asn_SET_OF_specifics_t *)td->specifics;
        if(!s) { bad |= 128; printf("SNone"); }
        else { printf("(SSetOf "); pz(s->as_XMLValueList); printf(")"); }
    } else if(!strcmp(k, "KNativeInt") || !strcmp(k, "KInt") || !strcmp(k, "KNativeEnum") || !strcmp(k, "KEnum")) {
        const asn_INTEGER_specifics_t *s = (const asn_INTEGER_specifics_t *)td->specifics;
        if(!s) printf("SNone");
        else {
            int j, n = s->map_count;
            if(n < 0 || n > 100000) { bad |= 4096; n = 0; }
            if(n && (!s->value2enum || !s->enum2value)) { bad |= 8192; n = 0; }
            printf("(SInt [");
            for(j = 0; j < n; j++) {
                if(j) printf(";");
                printf("("); pz(s->value2enum[j].nat_value); printf(",");
                if(!s->value2enum[j].enum_name || strlen(s->value2enum[j].enum_name) != s->value2enum[j].enum_len) bad |= 16384;
                pbytes(s->value2enum[j].enum_name, s->value2enum[j].enum_name ? s->value2enum[j].enum_len : 0); printf(")");
            }
            printf("] [");
            for(j = 0; j < n; j++) { if(j) printf(";"); printf("%u", s->enum2value[j]); }
            printf("] "); pz(s->extension); printf(" "); pz(s->strict_enumeration); printf(" "); pz(s->field_width);
            printf(" "); pz(s->field_unsigned); printf(")");
        }
    } else {
        printf("%s", td->specifics ? "SOther" : "SNone");
    }
    printf(" %d)\n", bad | g_bad);
    printf("#X %d op=%d el=%d sp=%d gc=%d per=%d oer=%d ec=%u rep=%ld\n", i, tok(0, td->op), tok(1, td->elements), tok(2, td->specifics),
           tok(3, (const void *)(size_t)td->encoding_constraints.general_constraints), tok(4, td->encoding_constraints.per_constraints),
           tok(5, td->encoding_constraints.oer_constraints), td->elements_count, rep_of(td, k));
}

int main(void) {
    int i;
#ifdef USE_PDU_TABLE
    for(i = 0; pdu_table[i].name; i++) idx_of(pdu_table[i].td);
#else
    for(i = 0; asn_pdu_collection[i]; i++) idx_of(asn_pdu_collection[i]);
#endif
    printf("#TABLE roots=%d sizeof_long=%d sizeof_tag=%d\n", ntab, (int)sizeof(long), (int)sizeof(ber_tlv_tag_t));
    for(i = 0; i < ntab; i++) dump(i);   /* ntab grows while members are discovered */
    printf("#END %d\n", ntab);
    return 0;
}
