#!/usr/bin/env python3
"""Runs only the DEFAULT x extension layer of C01 (lib/c01_dflt.py) and prints what it found:
   [VERIF_REPO=<copy>] [VERIF_SEED=n] python3 notes/c01_dflt_try.py [quick|thorough]
No evidence is written; for development and for replaying a violation of kind dflt:*."""
import sys, os, json
sys.path.insert(0, os.path.join(os.path.dirname(os.path.abspath(__file__)), "..", "lib"))
from vlib import *
import c01_dflt
tier = sys.argv[1] if len(sys.argv) > 1 else "quick"
run = Run("C01", tier)
c01_dflt.run(run, None, tier)
kinds = {}
for rp in run.violations:
    kinds.setdefault(rp["kind"], []).append(rp)
for k, v in sorted(kinds.items()):
    print("VIOLATION-KIND", k, len(v))
    r = dict(v[0]); r.pop("module", None)
    print("   ", json.dumps(r)[:1500])
print("known:", run.known)
print("counts:", {k: v for k, v in run.dist.items() if k.startswith("dflt")})
print("times:", c01_dflt.TIMES)
sys.exit(1 if run.violations else 0)
