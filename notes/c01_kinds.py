"""run checks/c01.py and print the histogram of violation kinds (vlib prints only the first 20 violations):
   [VERIF_REPO=<patched copy>] python3 notes/c01_kinds.py [quick|thorough]"""
import sys, os, collections
here = os.path.dirname(os.path.abspath(__file__))
sys.path.insert(0, os.path.join(here, "..", "lib"))
sys.path.insert(0, os.path.join(here, "..", "checks"))
import vlib
_fin = vlib.Run.finish


def finish(self, *a, **k):
    h = collections.Counter(v["kind"] for v in self.violations)
    for kind, n in sorted(h.items()):
        first = next(v for v in self.violations if v["kind"] == kind)
        print("KIND %-40s %5d  first: %s" % (kind, n, str(first.get("command_line"))[:90]))
    return _fin(self, *a, **k)


vlib.Run.finish = finish
import c01
sys.exit(c01.main(sys.argv[1] if len(sys.argv) > 1 else "quick"))
