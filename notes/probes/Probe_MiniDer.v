From Coq Require Import ZArith List Lia Bool ZifyBool.
Require Import Probe_BerLength.
Import ListNotations.
Local Open Scope Z_scope.

Inductive ty := TBool | TOctets | TSeq (ms : list ty) | TSeqOf (t : ty).
Inductive val := VBool (b : bool) | VOctets (bs : list Z) | VSeq (vs : list val) | VList (vs : list val).

Definition tag_of (t : ty) : Z :=
  match t with TBool => 1 | TOctets => 4 | TSeq _ => 48 | TSeqOf _ => 48 end.
Definition tlv (tag : Z) (content : list Z) : list Z :=
  tag :: len_serialize (Z.of_nat (length content)) ++ content.

Definition cat2 (a b : option (list Z)) : option (list Z) :=
  match a, b with Some x, Some y => Some (x ++ y) | _, _ => None end.

Definition enc_zip (f : val -> ty -> option (list Z)) :=
  fix go (ms : list ty) (vs : list val) {struct vs} : option (list Z) :=
  match ms, vs with
  | [], [] => Some []
  | m :: ms', v :: vs' => cat2 (f v m) (go ms' vs')
  | _, _ => None
  end.
Definition enc_all (f : val -> option (list Z)) :=
  fix go (vs : list val) {struct vs} : option (list Z) :=
  match vs with
  | [] => Some []
  | v :: vs' => cat2 (f v) (go vs')
  end.

Fixpoint encv (v : val) (t : ty) {struct v} : option (list Z) :=
  match t, v with
  | TBool, VBool b => Some (tlv 1 [if b then 255 else 0])
  | TOctets, VOctets bs => Some (tlv 4 bs)
  | TSeq ms, VSeq vs => option_map (tlv 48) (enc_zip encv ms vs)
  | TSeqOf et, VList vs => option_map (tlv 48) (enc_all (fun v => encv v et) vs)
  | _, _ => None
  end.
Definition enc (t : ty) (v : val) := encv v t.

Definition header (tag : Z) (bs : list Z) : option (list Z * list Z) :=
  match bs with
  | [] => None
  | t :: tl =>
    if negb (t =? tag) then None else
    match fetch_length false tl with
    | FOk len n =>
        let body := skipn n tl in
        if Z.of_nat (length body) <? len then None
        else Some (firstn (Z.to_nat len) body, skipn (Z.to_nat len) body)
    | _ => None
    end
  end.

Definition D := ty -> list Z -> option (val * list Z).
Fixpoint dec_members (d : D) (ms : list ty) (c : list Z) : option (list val) :=
  match ms with
  | [] => match c with [] => Some [] | _ => None end
  | m :: ms' => match d m c with
                | Some (v, c') => option_map (cons v) (dec_members d ms' c')
                | None => None end
  end.
Fixpoint dec_elems (d : list Z -> option (val * list Z)) (n : nat) (c : list Z) : option (list val) :=
  match c with
  | [] => Some []
  | _ => match n with
         | O => None
         | S n' => match d c with
                   | Some (v, c') => option_map (cons v) (dec_elems d n' c')
                   | None => None end
         end
  end.

Fixpoint dec (fuel : nat) (t : ty) (bs : list Z) : option (val * list Z) :=
  match fuel with
  | O => None
  | S f =>
    match header (tag_of t) bs with
    | None => None
    | Some (content, rest) =>
      match t with
      | TBool => match content with
                 | [b] => Some (VBool (negb (b =? 0)), rest)
                 | _ => None end
      | TOctets => Some (VOctets content, rest)
      | TSeq ms => option_map (fun vs => (VSeq vs, rest)) (dec_members (dec f) ms content)
      | TSeqOf et => option_map (fun vs => (VList vs, rest)) (dec_elems (dec f et) f content)
      end
    end
  end.

Fixpoint vsize (v : val) : nat :=
  match v with
  | VBool _ | VOctets _ => 1
  | VSeq vs | VList vs => S (fold_right (fun v a => vsize v + a)%nat 0%nat vs)
  end.

Definition small (bs : list Z) := Z.of_nat (length bs) < 2 ^ 62.

Lemma header_tlv tag content rest :
  small content -> header tag (tlv tag content ++ rest) = Some (content, rest).
Proof.
  intros Hs. unfold header, tlv. cbn [app]. rewrite Z.eqb_refl. cbn [negb].
  rewrite <- app_assoc.
  rewrite length_roundtrip by (unfold small in Hs; lia).
  rewrite skipn_app, skipn_all, Nat.sub_diag. cbn [skipn app].
  rewrite app_length.
  destruct (Z.of_nat (length content + length rest) <? Z.of_nat (length content)) eqn:E; [lia|].
  rewrite Nat2Z.id.
  rewrite firstn_app, firstn_all, Nat.sub_diag. cbn [firstn]. rewrite app_nil_r.
  rewrite skipn_app, skipn_all, Nat.sub_diag. cbn [skipn app]. reflexivity.
Qed.

Lemma tlv_length tag c : (length c < length (tlv tag c))%nat.
Proof. unfold tlv. cbn [length]. rewrite app_length. lia. Qed.
Lemma tlv_nonempty tag c : tlv tag c <> [].
Proof. unfold tlv; discriminate. Qed.

Section ValInd.
  Variable P : val -> Prop.
  Hypothesis Hb : forall b, P (VBool b).
  Hypothesis Ho : forall bs, P (VOctets bs).
  Hypothesis Hs : forall vs, Forall P vs -> P (VSeq vs).
  Hypothesis Hl : forall vs, Forall P vs -> P (VList vs).
  Fixpoint val_ind' (v : val) : P v :=
    match v with
    | VBool b => Hb b
    | VOctets bs => Ho bs
    | VSeq vs => Hs vs ((fix go vs := match vs return Forall P vs with
                          | [] => Forall_nil _ | v :: vs' => Forall_cons _ (val_ind' v) (go vs') end) vs)
    | VList vs => Hl vs ((fix go vs := match vs return Forall P vs with
                          | [] => Forall_nil _ | v :: vs' => Forall_cons _ (val_ind' v) (go vs') end) vs)
    end.
End ValInd.

Definition RT (v : val) : Prop :=
  forall t bs, enc t v = Some bs -> small bs ->
  forall fuel rest, (vsize v < fuel)%nat -> dec fuel t (bs ++ rest) = Some (v, rest).

Lemma enc_nonempty t v bs : enc t v = Some bs -> bs <> [].
Proof.
  unfold enc; destruct t, v; cbn; try discriminate; intros H.
  - inversion H; apply tlv_nonempty.
  - inversion H; apply tlv_nonempty.
  - destruct (enc_zip encv ms vs); cbn in H; inversion H; apply tlv_nonempty.
  - destruct (enc_all (fun v => encv v t) vs); cbn in H; inversion H; apply tlv_nonempty.
Qed.

Lemma members_rt : forall vs, Forall RT vs ->
  forall ms c, enc_zip encv ms vs = Some c -> small c ->
  forall f, (fold_right (fun v a => vsize v + a)%nat 0%nat vs < f)%nat ->
  dec_members (dec f) ms c = Some vs.
Proof.
  induction 1 as [|v vs Hv Hvs IH]; intros ms c He Hs f Hf.
  - destruct ms; cbn in He; inversion He. reflexivity.
  - destruct ms as [|m ms]; cbn in He; [discriminate|].
    destruct (encv v m) as [a|] eqn:Ea; [|discriminate].
    destruct (enc_zip encv ms vs) as [b|] eqn:Eb; [|discriminate].
    cbn in He. inversion He; subst c. clear He.
    cbn [dec_members fold_right] in *.
    unfold small in *. rewrite app_length in Hs.
    rewrite (Hv m a Ea ltac:(unfold small; lia) f b ltac:(lia)).
    rewrite (IH ms b Eb ltac:(unfold small; lia) f ltac:(lia)). reflexivity.
Qed.

Lemma elems_rt : forall vs, Forall RT vs ->
  forall et c, enc_all (fun v => encv v et) vs = Some c -> small c ->
  forall f n, (fold_right (fun v a => vsize v + a)%nat 0%nat vs < f)%nat ->
  (length vs <= n)%nat ->
  dec_elems (dec f et) n c = Some vs.
Proof.
  induction 1 as [|v vs Hv Hvs IH]; intros et c He Hs f n Hf Hn.
  - cbn in He. inversion He. destruct n; reflexivity.
  - cbn in He.
    destruct (encv v et) as [a|] eqn:Ea; [|discriminate].
    destruct (enc_all (fun v => encv v et) vs) as [b|] eqn:Eb; [|discriminate].
    cbn in He. inversion He; subst c. clear He.
    pose proof (enc_nonempty _ _ _ Ea) as Hne.
    cbn [length fold_right] in *.
    destruct n as [|n]; [lia|].
    unfold small in *. rewrite app_length in Hs.
    destruct (a ++ b) as [|x l] eqn:Eab.
    { destruct a; [congruence|discriminate]. }
    rewrite <- Eab. cbn [dec_elems].
    destruct (a ++ b) eqn:Eab2; [congruence|]. rewrite <- Eab2.
    rewrite (Hv et a Ea ltac:(unfold small; lia) f b ltac:(lia)).
    rewrite (IH et b Eb ltac:(unfold small; lia) f n ltac:(lia) ltac:(lia)). reflexivity.
Qed.

Lemma fold_len_le (vs : list val) :
  (length vs <= fold_right (fun v a => vsize v + a)%nat 0%nat vs)%nat.
Proof. induction vs as [|v vs IH]; cbn; [lia|]. destruct v; cbn; lia. Qed.

Theorem roundtrip : forall v, RT v.
Proof.
  induction v using val_ind'; unfold RT; intros t enc_bs He Hs fuel rest Hf;
    (destruct fuel as [|f]; [lia|]); unfold enc in He.
  - destruct t; cbn in He; try discriminate. inversion He; subst.
    cbn [dec tag_of]. rewrite header_tlv by (unfold small; cbn; lia).
    destruct b; reflexivity.
  - destruct t; cbn in He; try discriminate. inversion He; subst.
    cbn [dec tag_of]. unfold small in Hs. pose proof (tlv_length 4 bs).
    rewrite header_tlv by (unfold small; lia). reflexivity.
  - destruct t; cbn in He; try discriminate.
    destruct (enc_zip encv ms vs) as [c|] eqn:Ec; cbn in He; inversion He; subst.
    cbn [dec tag_of]. unfold small in Hs. pose proof (tlv_length 48 c).
    rewrite header_tlv by (unfold small; lia).
    cbn [vsize] in Hf.
    rewrite (members_rt vs H ms c Ec ltac:(unfold small; lia) f ltac:(lia)). reflexivity.
  - destruct t; cbn in He; try discriminate.
    destruct (enc_all (fun v => encv v t) vs) as [c|] eqn:Ec; cbn in He; inversion He; subst.
    cbn [dec tag_of]. unfold small in Hs. pose proof (tlv_length 48 c).
    rewrite header_tlv by (unfold small; lia).
    cbn [vsize] in Hf. pose proof (fold_len_le vs).
    rewrite (elems_rt vs H t c Ec ltac:(unfold small; lia) f f ltac:(lia) ltac:(lia)). reflexivity.
Qed.
Print Assumptions roundtrip.
