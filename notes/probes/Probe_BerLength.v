From Coq Require Import ZArith List Lia Bool ZifyBool.
Import ListNotations.
Local Open Scope Z_scope.

(* --- model of der_tlv_length_serialize (unbounded output buffer) --- *)
Fixpoint be_bytes (n : nat) (v : Z) : list Z :=
  match n with
  | O => []
  | S k => (v / 256 ^ Z.of_nat k) mod 256 :: be_bytes k v
  end.

(* required_size: for(r=1,i=8; i<64; i+=8) if(len>>i) r++ else break *)
Fixpoint req_size (fuel : nat) (i : Z) (len : Z) : nat :=
  match fuel with
  | O => O
  | S f => if Z.eqb (Z.shiftr len i) 0 then O else S (req_size f (i + 8) len)
  end.
Definition required_size (len : Z) : nat := S (req_size 7 8 len).

Definition len_serialize (len : Z) : list Z :=
  if len <=? 127 then [len]
  else let r := required_size len in (128 + Z.of_nat r) :: be_bytes r len.

(* --- model of ber_fetch_length (primitive: _is_constructed = 0) --- *)
Inductive fres := FOk (v : Z) (n : nat) | FMore | FErr.

Fixpoint acc_len (oct : nat) (buf : list Z) (len : Z) (skipped : nat) : fres :=
  match oct with
  | O => if (len <? 0) || (2^62 - 1 <? len) then FErr else FOk len skipped
  | S o =>
    match buf with
    | [] => FMore
    | b :: tl =>
      if Z.eqb (Z.shiftr len 55) 0
      then acc_len o tl (len * 256 + b) (S skipped)
      else FErr
    end
  end.

Definition fetch_length (constructed : bool) (buf : list Z) : fres :=
  match buf with
  | [] => FMore
  | oct :: tl =>
    if oct <? 128 then FOk oct 1
    else if constructed && (oct =? 128) then FOk (-1) 1
    else if oct =? 255 then FErr
    else acc_len (Z.to_nat (oct - 128)) tl 0 1
  end.

(* --- lemmas --- *)
Lemma be_bytes_length n v : length (be_bytes n v) = n.
Proof. induction n; simpl; auto. Qed.

Lemma acc_len_be : forall n v acc sk rest,
  0 <= v -> 0 <= acc -> acc * 256 ^ Z.of_nat n + v mod 256 ^ Z.of_nat n < 2^62 ->
  acc_len n (be_bytes n v ++ rest) acc sk
  = FOk (acc * 256 ^ Z.of_nat n + v mod 256 ^ Z.of_nat n) (sk + n).
Proof.
  induction n as [|n IH]; intros v acc sk rest Hv Hacc Hb.
  - cbn [acc_len be_bytes app]. change (256 ^ Z.of_nat 0) with 1 in *.
    rewrite Z.mod_1_r in *.
    replace (acc * 1 + 0) with acc in * by lia.
    change (2^62) with 4611686018427387904 in *.
    destruct (acc <? 0) eqn:E1; [lia|]. destruct (4611686018427387904 - 1 <? acc) eqn:E2; [lia|].
    simpl. f_equal. lia.
  - cbn [acc_len be_bytes app].
    rewrite Nat2Z.inj_succ in *. rewrite Z.pow_succ_r in * by lia.
    set (P := 256 ^ Z.of_nat n) in *.
    assert (HP : 0 < P) by (apply Z.pow_pos_nonneg; lia).
    pose proof (Z.mod_pos_bound v (256 * P) ltac:(lia)) as Hm.
    assert (Hsh : Z.shiftr acc 55 = 0).
    { rewrite Z.shiftr_div_pow2 by lia. apply Z.div_small. split; [lia|].
      assert (acc * 256 < 2^62) by nia.
      change (2^62) with 4611686018427387904 in *. change (2^55) with 36028797018963968. lia. }
    rewrite Hsh. cbn [Z.eqb].
    (* v mod (256*P) = ((v/P) mod 256) * P + v mod P *)
    assert (Hsplit : v mod (256 * P) = ((v / P) mod 256) * P + v mod P).
    { rewrite (Z.mul_comm 256 P). rewrite Z.rem_mul_r by lia. lia. }
    pose proof (Z.mod_pos_bound (v / P) 256 ltac:(lia)).
    pose proof (Z.mod_pos_bound v P HP).
    rewrite IH.
    + f_equal; [|lia]. rewrite Hsplit. lia.
    + exact Hv.
    + lia.
    + rewrite Hsplit in Hb. lia.
Qed.

Lemma req_size_spec : forall fuel k len,
  0 <= len -> 1 <= k -> (Z.of_nat fuel + k = 8)%Z ->
  256 ^ (k - 1) <= len \/ k = 1 ->
  len < 2^62 ->
  let r := Z.of_nat (req_size fuel (8 * k) len) + k in
  256 ^ (r - 1) <= len /\ len < 256 ^ r \/ (r = 1 /\ len < 256).
Proof.
  induction fuel as [|f IH]; intros k len Hl Hk Hf Hlow Hb; cbn [req_size].
  - assert (k = 8) by lia. subst k. cbn -[Z.pow]. left. split; [lia|].
    change (256 ^ 8) with (2^64). lia.
  - rewrite Z.shiftr_div_pow2 by lia.
    replace (2 ^ (8 * k)) with (256 ^ k)
      by (rewrite Z.pow_mul_r by lia; reflexivity).
    assert (HP : 0 < 256 ^ k) by (apply Z.pow_pos_nonneg; lia).
    destruct (len / 256 ^ k =? 0) eqn:E.
    + apply Z.eqb_eq in E. apply Z.div_small_iff in E; [|lia].
      cbn [Z.of_nat]. destruct Hlow as [Hlow|Hk1].
      * left. replace (0 + k - 1) with (k - 1) by lia. replace (0+k) with k by lia. lia.
      * subst k. right. cbn in *. lia.
    + apply Z.eqb_neq in E.
      assert (256 ^ k <= len).
      { destruct (Z_lt_le_dec len (256 ^ k)); [|lia]. exfalso. apply E. apply Z.div_small. lia. }
      rewrite Nat2Z.inj_succ.
      specialize (IH (k + 1) len Hl ltac:(lia) ltac:(lia)).
      replace (8 * k + 8) with (8 * (k + 1)) by lia.
      replace (k + 1 - 1) with k in IH by lia.
      specialize (IH (or_introl H) Hb). cbn zeta in IH.
      replace (Z.succ (Z.of_nat (req_size f (8 * (k + 1)) len)) + k)
        with (Z.of_nat (req_size f (8 * (k + 1)) len) + (k + 1)) by lia.
      destruct IH as [IH|[IH1 IH2]]; [left; exact IH|]. lia.
Qed.

Theorem length_roundtrip : forall len rest,
  0 <= len < 2^62 ->
  fetch_length false (len_serialize len ++ rest)
  = FOk len (length (len_serialize len)).
Proof.
  intros len rest [H0 H1]. unfold len_serialize.
  destruct (len <=? 127) eqn:E.
  - apply Z.leb_le in E. cbn. destruct (len <? 128) eqn:E2; [reflexivity|lia].
  - apply Z.leb_gt in E. unfold required_size.
    pose proof (req_size_spec 7 1 len H0 ltac:(lia) ltac:(lia) (or_intror eq_refl) H1) as Hr.
    cbn zeta in Hr. replace (8 * 1) with 8 in Hr by lia.
    set (q := req_size 7 8 len) in *.
    assert (Hq : Z.of_nat q + 1 = Z.of_nat (S q)) by lia. rewrite Hq in Hr.
    assert (Hr' : 256 ^ (Z.of_nat (S q) - 1) <= len < 256 ^ Z.of_nat (S q)).
    { destruct Hr as [Hr|[Hr1 Hbad]]; [exact Hr|]. rewrite Hr1. cbn. lia. }
    clear Hr. destruct Hr' as [Hlo Hhi].
    assert (Hq8 : (q <= 7)%nat).
    { destruct (le_lt_dec q 7); auto. exfalso.
      assert (256 ^ 8 <= 256 ^ (Z.of_nat (S q) - 1)) by (apply Z.pow_le_mono_r; lia).
      change (256 ^ 8) with 18446744073709551616 in *. change (2^62) with 4611686018427387904 in *. lia. }
    cbn [app fetch_length].
    destruct (128 + Z.of_nat (S q) <? 128) eqn:E3; [lia|].
    cbn [andb]. destruct (128 + Z.of_nat (S q) =? 255) eqn:E4; [lia|].
    replace (128 + Z.of_nat (S q) - 128) with (Z.of_nat (S q)) by lia.
    rewrite Nat2Z.id.
    rewrite (acc_len_be (S q) len 0 1%nat rest); try lia.
    + rewrite Z.mod_small by lia. cbn [length]. rewrite be_bytes_length. f_equal; lia.
    + rewrite Z.mod_small by lia. lia.
Qed.
Print Assumptions length_roundtrip.
