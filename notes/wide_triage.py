#!/usr/bin/env python3
"""Triage driver of the C01 wide layer (not a check; run by hand).
  python3 notes/wide_triage.py <out.jsonl> <seed_from> <seed_to> [features=...] [nmods=10] [ntypes=5] [nvals=6]
For every seed: generate wide modules (lib/widefind.WideGen), build them, draw
values with `rfill`, run the round-trip battery per syntax (`rt1`), and write
one JSON line per non-OK outcome / crash / module not built.  Bucketing:
  python3 notes/wide_triage.py --buckets <out.jsonl>...
"""
import sys, os, re, json, collections
from concurrent.futures import ThreadPoolExecutor
HERE = os.path.dirname(os.path.abspath(__file__))
sys.path.insert(0, os.path.join(HERE, "..", "lib"))
from vlib import *
from modbuild import build_modules
import widefind

SYNS = ["der", "cper", "coer", "xer", "cxer"]
EXTRA = os.path.join(HARNESS, "moddrv_wide.inc")


def frames(err, rc=""):
    """top frames of a sanitizer report / signal"""
    fr = re.findall(r"#\d+ 0x[0-9a-f]+ in (\S+)", err)
    kind = re.search(r"(runtime error: [^\n]*|ERROR: AddressSanitizer: [^\n]*|LeakSanitizer[^\n]*|Assertion [^\n]*)", err)
    k = "HANG" if str(rc).startswith("HANG") else kind.group(1) if kind else "?"
    k = re.sub(r"0x[0-9a-f]+", "ADDR", k)
    k = re.sub(r"\b\d+\b", "N", k)
    return k, [f for f in fr if not f.startswith("__")][:6]


def run_robust(exe, lines):
    outs, events = widefind.run_robust(exe, lines, hang_key=(lambda l: l.split()[1]) if lines and lines[0].startswith("wfill") else None)
    return outs, [(lines[i] if kind != "EXIT" else None, "%s:%s" % (kind, rc), err) for i, kind, rc, err in events]


def probe_module(m, rng_seeds, nvals):
    """returns list of records"""
    recs = []
    if not m.get("exe"):
        return [{"cls": "notbuilt", "asn1c_rc": m.get("asn1c_rc"), "out": (m.get("asn1c_out") or "")[-600:], "log": (m.get("build_log") or "")[-1500:]}]
    lines = []
    for tn, _ in m["defs"]:
        for k in range(nvals):
            lines.append("wfill %s %d %d" % (tn, rng_seeds.below(100000), rng_seeds.choice([8, 32, 64, 200])))
    outs, crashes = run_robust(m["exe"], lines)
    for l, rc, err in crashes:
        k, fr = frames(err, rc)
        recs.append({"cls": "crash", "stage": "rfill", "tn": l.split()[1] if l else None, "cmd": l, "rc": rc, "kind": k, "frames": fr, "err": err[:2500] + err[-1500:] if len(err) > 4000 else err})
    vals = set()
    facts = {}
    nfill = collections.Counter()
    for l, o in zip(lines, outs):
        f = o.split()
        tn = l.split()[1]
        if len(f) == 5 and f[0] == "OK" and f[1] != "ENCFAIL" and f[2] == "ck=0" and f[3] == "dck=0":
            vals.add((tn, f[1]))
            facts[(tn, f[1])] = f[4].split("=")[1]
            nfill["ok"] += 1
        elif len(f) == 5 and f[1] == "ENCFAIL" and f[3] == "dck=0":
            nfill["DER-ENCFAIL dck=0"] += 1
            recs.append({"cls": "fail", "tn": tn, "syn": "der", "val": "", "cmd": l, "status": "FILL-ENCFAIL", "facts": f[4].split("=")[1]})
        else:
            nfill[" ".join(f[:1] + f[2:4]) if len(f) == 5 else o[:30]] += 1
    recs.append({"cls": "fillstat", "stat": dict(nfill)})
    vals = sorted(vals)
    l2 = ["rt1 %s der %s %s" % (tn, v, s) for tn, v in vals for s in SYNS]
    outs, crashes = run_robust(m["exe"], l2)
    cr = {l: (rc, err) for l, rc, err in crashes if l}
    for l, rc, err in crashes:
        if l is None:
            k, fr = frames(err, rc)
            recs.append({"cls": "crash", "stage": "exit", "tn": None, "cmd": None, "rc": rc, "kind": k, "frames": fr, "err": err[:2500] + err[-1500:] if len(err) > 4000 else err})
    nok = 0
    for l, o in zip(l2, outs):
        _, tn, _, v, s = l.split()
        if o in ("CRASH", "HANG"):
            rc, err = cr[l]
            k, fr = frames(err, rc)
            recs.append({"cls": "crash", "stage": "rt", "tn": tn, "syn": s, "val": v, "cmd": l, "rc": rc, "kind": k, "frames": fr, "err": err[:2500] + err[-1500:] if len(err) > 4000 else err, "facts": facts.get((tn, v))})
            continue
        st = o.split("=", 1)[1] if "=" in o else o
        if st.startswith("NL:"):
            recs.append({"cls": "fail", "tn": tn, "syn": s, "val": v, "cmd": l, "status": "NL", "facts": facts.get((tn, v))})
            st = st[3:]
        if st == "OK":
            nok += 1
            continue
        recs.append({"cls": "fail", "tn": tn, "syn": s, "val": v, "cmd": l, "status": st, "facts": facts.get((tn, v))})
    recs.append({"cls": "okstat", "ok": nok, "total": len(l2)})
    return recs


def main():
    out = sys.argv[1]
    s0, s1 = int(sys.argv[2]), int(sys.argv[3])
    kw = dict(a.split("=", 1) for a in sys.argv[4:])
    feats = kw.get("features")
    feats = widefind.ALL_FEATURES if feats == "all" else [f for f in widefind.ALL_FEATURES if f != "recursion"] if feats is None else feats.split(",")
    nmods, ntypes, nvals = int(kw.get("nmods", 10)), int(kw.get("ntypes", 5)), int(kw.get("nvals", 6))
    fo = open(out, "a")
    for seed in range(s0, s1 + 1):
        rng = Rng(Rng(seed).next())     # Rng(n) and Rng(n+1) are the same stream shifted by one draw
        mods = widefind.generate(rng, nmods, ntypes, features=feats, prefix="S%dM" % seed, maxdepth=int(kw.get("depth", 3)))
        build_modules(mods, tag="triage%d" % seed, moddrv_extra=EXTRA)
        subs = [Rng(rng.next()) for _ in mods]
        with ThreadPoolExecutor(max_workers=8) as ex:
            res = list(ex.map(lambda a: probe_module(a[0], a[1], nvals), zip(mods, subs)))
        for m, recs in zip(mods, res):
            for r in recs:
                r.update({"seed": seed, "mod": m["name"], "features": feats})
                if r["cls"] in ("fail", "crash", "notbuilt"):
                    r["text"] = m["text"]
                    r["default"] = m["default"]
                    if r.get("tn"):
                        r["ast"] = m["asts"][r["tn"]]
                        r["asts"] = m["asts"]
                fo.write(json.dumps(r) + "\n")
        fo.flush()
        shutil.rmtree(os.path.join(scratch(), "triage%d" % seed), ignore_errors=True)
        log("seed %d done" % seed)


def kinds_in(rec):
    m = {"asts": rec["asts"]}
    ks = set()
    for n, p in widefind.walk(m, rec["ast"], {rec["tn"]}):
        ks.add(n["k"] if n["k"] != "STRING" else n["stype"])
    return ks


def buckets(paths):
    recs = [json.loads(l) for p in paths for l in open(p)]
    b = collections.defaultdict(list)
    nb = collections.Counter()
    tot = collections.Counter()
    for r in recs:
        if r["cls"] == "okstat":
            tot["ok"] += r["ok"]
            tot["total"] += r["total"]
        elif r["cls"] == "fillstat":
            for k, v in r["stat"].items():
                tot["fill:" + k] += v
        elif r["cls"] == "notbuilt":
            tot["notbuilt"] += 1
            sig = "asn1c rc=%s" % r["asn1c_rc"] if r["asn1c_rc"] else "cc: " + "; ".join(sorted(set(re.findall(r"error: ([^\n]{0,70})", r["log"])))[:2])
            nb[sig] += 1
        elif r["cls"] == "fail":
            st = re.sub(r"\d+", "N", r["status"])
            fid = widefind.classify({"asts": r["asts"], "text": r["text"], "default": r["default"]}, r["tn"], r["syn"], r["status"], "", (r.get("facts") or "-").split(","))
            b[("fail", r["syn"], st, fid)].append(r)
        elif r["cls"] == "crash":
            fid = widefind.classify({"asts": r.get("asts", {}), "text": r.get("text", ""), "default": r.get("default")}, r.get("tn"), r.get("syn"), "HANG" if r["kind"] == "HANG" else "CRASH", r["err"], (r.get("facts") or "-").split(",")) if r.get("tn") else None
            b[("crash", r.get("stage"), r.get("syn"), r["kind"][:60], tuple(r["frames"][:4]), fid)].append(r)
            if not r.get("ast"):
                print("CRASH without type:", r["stage"], r["rc"], r["err"][-600:])
    print("totals:", dict(tot))
    print("not built:", dict(nb))
    for k, rs in sorted(b.items(), key=lambda kv: -len(kv[1])):
        kc = collections.Counter()
        rs = [r for r in rs if r.get("ast")]
        if not rs:
            print("\n== (no type) %s" % (k,))
            continue
        for r in rs:
            for x in kinds_in(r):
                kc[x] += 1
        common = [x for x, c in kc.items() if c == len(rs)]
        print("\n== %d  %s" % (len(rs), k))
        print("   in all: %s" % sorted(common))
        print("   often : %s" % [(x, c) for x, c in kc.most_common(8) if c < len(rs)])
        small = sorted(rs, key=lambda r: len(widefind.render(r["ast"])) + len(r.get("val") or ""))[:3]
        for r in small:
            print("   e.g. [%s %s] %s ::= %s   val=%s facts=%s" % (r["default"], r["mod"], r["tn"], widefind.render(r["ast"])[:300], (r.get("val") or "")[:80], r.get("facts")))
            m = {"asts": r["asts"]}
            refs = sorted(set(n["name"] for n, p in widefind.walk(m, r["ast"], {r["tn"]}) if n["k"] == "REF"))
            for rn in refs:
                print("          %s ::= %s" % (rn, widefind.render(r["asts"][rn])[:300]))




def summary(paths):
    """python3 notes/wide_triage.py --summary files...: finding id x syntax x status table (classification re-run)"""
    recs = [json.loads(l) for p in paths for l in open(p)]
    t = collections.Counter()
    seeds = set()
    tot = collections.Counter()
    for r in recs:
        seeds.add(r["seed"])
        if r["cls"] == "okstat":
            tot["battery lines (value x syntax)"] += r["total"]
            tot["OK"] += r["ok"]
        elif r["cls"] == "fillstat":
            for k, v in r["stat"].items():
                tot["fill " + k] += v
        elif r["cls"] == "notbuilt":
            tot["modules not built"] += 1
        elif r["cls"] == "fail":
            fid = widefind.classify({"asts": r["asts"], "text": r["text"], "default": r["default"]}, r["tn"], r["syn"], r["status"], "", (r.get("facts") or "-").split(","))
            t[(fid or "UNCLASSIFIED", r["syn"], re.sub(r"\d+", "N", r["status"]))] += 1
        elif r["cls"] == "crash":
            if r.get("stage") == "rfill":
                t[("(value source) asn_random_fill dies: " + r["kind"][:60], "-", "CRASH")] += 1
                continue
            fid = widefind.classify({"asts": r.get("asts", {}), "text": r.get("text", ""), "default": r.get("default")}, r.get("tn"), r.get("syn"), "HANG" if r["kind"] == "HANG" else "CRASH", r["err"], (r.get("facts") or "-").split(",")) if r.get("tn") else None
            t[(fid or "UNCLASSIFIED", r.get("syn"), "CRASH in " + (r["frames"][0] if r["frames"] else "?"))] += 1
    print("seeds:", len(seeds), dict(tot))
    for k, v in sorted(t.items(), key=lambda kv: (kv[0][0], -kv[1])):
        print("%6d  %-45s %-5s %s" % (v, k[0], k[1], k[2]))


if __name__ == "__main__":
    if sys.argv[1] == "--buckets":
        buckets(sys.argv[2:])
    elif sys.argv[1] == "--summary":
        summary(sys.argv[2:])
    else:
        main()
