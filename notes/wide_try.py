#!/usr/bin/env python3
"""build one hand-written module and run moddrv command lines on it (triage helper)
  python3 notes/wide_try.py <module.asn1> [cmdfile|-]     types = every 'Name ::=' at line start"""
import sys, os, re
sys.path.insert(0, os.path.join(os.path.dirname(os.path.abspath(__file__)), "..", "lib"))
from vlib import *
from modbuild import build_modules
text = open(sys.argv[1]).read()
name = re.match(r"\s*(\S+)\s+DEFINITIONS", text).group(1)
defs = re.findall(r"^\s*([A-Z]\w*)\s*::=", text, re.M)
m = {"name": name, "text": text, "defs": [(d, None) for d in defs]}
build_modules([m], tag="try", moddrv_extra=os.path.join(HARNESS, "moddrv_wide.inc"))
if not m.get("exe"):
    print("NOT BUILT", m.get("asn1c_out"), m.get("build_log"))
    sys.exit(1)
lines = [l.strip() for l in (sys.stdin if len(sys.argv) < 3 or sys.argv[2] == "-" else open(sys.argv[2])) if l.strip()]
i = 0
while i < len(lines):
    rc, out, err = run_lines(m["exe"], lines[i:], env=SAN_ENV)
    for l, o in zip(lines[i:], out):
        print(l, "->", o)
    if len(out) >= len(lines) - i:
        if rc: print("EXIT rc", rc, err[-1500:])
        break
    print(lines[i + len(out)], "-> CRASH rc", rc); print(err[-2500:])
    i += len(out) + 1
