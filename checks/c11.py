"""C11 — ambiguous specifications are rejected, unambiguous ones accepted.
Theorems: coq/Props/Properties_C11.v.  Model: coq/Fix/Tags.v (libasn1fix's
decision) behind coq/Fix/ComponentsOf.v (COMPONENTS OF / extensible ENUMERATED:
xcheck = check after asn1c's expansion), spec: coq/Fix/Distinct.v (X.680
distinctness, from the property text) after the X.680 expansion of ComponentsOf.v.
Tie: modules generated from the type algebra (valid ones and single-fault
injections at every position/pair) are printed as ASN.1, compiled one by one
with the asn1c built from the repository working tree (`asn1c -S <skeletons>
m.asn1` in an empty directory), and the outcome (exit status, diagnostics,
files written) is compared with the extracted model (faithfulness, including
the class of every diagnostic) and with the extracted spec (oracle).
Further layers: lib/c11_tagmode.py (tagging mode along reference chains, emitted tags), lib/c11_status.py (faults next to a
recorded WARNING status: coq/Fix/Status.v), lib/c11_param.py (parameterized types: coq/Fix/ParamDistinct.v)."""
import sys, os, re, shutil, subprocess, json
from concurrent.futures import ThreadPoolExecutor
sys.path.insert(0, os.path.join(os.path.dirname(os.path.abspath(__file__)), "..", "lib"))
from vlib import *
import c11_tagmode as TM
import c11_status as ST
import c11_param as PM
import c11_refs as RF

# ---------------------------------------------------------------- AST helpers
# module = (tagging 'E'|'I'|'A', [def]);  def = (name, tag, ty)
# tag = None | (cls 'u'|'a'|'c'|'p', num, mode 'd'|'i'|'e')
# ty = ('B',)|('I',)|('N',)|('O',)|('E', [(name, val|None)])|('X', [root items], [additional items])
#      |(k 'S'|'T'|'C', r1, ext None|[comp], r2)|('Q', ty)|('R', name)
#      'X' = ENUMERATED { root, ..., additions }
# comp = (name, tag, flag 'm'|'o'|'d', ty) | ('K', name)       'K' = COMPONENTS OF T<name>
B, I, N, O = ('B',), ('I',), ('N',), ('O',)


def tag_tok(t):
    return "-" if t is None else "%s%d%s" % t


def ty_toks(t, out):
    k = t[0]
    if k in "BINO":
        out.append(k)
    elif k == 'E':
        out += ["E", str(len(t[1]))]
        for n, v in t[1]:
            out += [str(n), "-" if v is None else str(v)]
    elif k == 'X':
        out.append("X")
        for its in (t[1], t[2]):
            out.append(str(len(its)))
            for n, v in its:
                out += [str(n), "-" if v is None else str(v)]
    elif k in "STC":
        out += [k, str(len(t[1]))]
        for c in t[1]:
            comp_toks(c, out)
        if t[2] is None:
            out.append("-")
        else:
            out.append(str(len(t[2])))
            for c in t[2]:
                comp_toks(c, out)
        out.append(str(len(t[3])))
        for c in t[3]:
            comp_toks(c, out)
    elif k == 'Q':
        out.append("Q")
        ty_toks(t[1], out)
    elif k == 'R':
        out += ["R", str(t[1])]
    else:
        raise ValueError(t)


def is_k(c):
    return c[0] == 'K'


def comp_toks(c, out):
    if is_k(c):
        out += ["K", str(c[1])]
        return
    out += [str(c[0]), tag_tok(c[1]), c[2]]
    ty_toks(c[3], out)


def mod_line(m):
    out = ["c11", m[0], str(len(m[1]))]
    for (n, tg, t) in m[1]:
        out += [str(n), tag_tok(tg)]
        ty_toks(t, out)
    return " ".join(out)


CLS = {'u': "UNIVERSAL ", 'a': "APPLICATION ", 'c': "", 'p': "PRIVATE "}
MODE = {'d': "", 'i': " IMPLICIT", 'e': " EXPLICIT"}


def tag_txt(t):
    return "" if t is None else "[%s%d]%s " % (CLS[t[0]], t[1], MODE[t[2]])


def ty_txt(t):
    k = t[0]
    if k == 'B':
        return "BOOLEAN"
    if k == 'I':
        return "INTEGER"
    if k == 'N':
        return "NULL"
    if k == 'O':
        return "OCTET STRING"
    if k == 'E':
        return "ENUMERATED { " + ", ".join("e%d" % n + ("" if v is None else "(%d)" % v) for n, v in t[1]) + " }"
    if k == 'X':
        it = lambda its: ["e%d" % n + ("" if v is None else "(%d)" % v) for n, v in its]
        return "ENUMERATED { " + ", ".join(it(t[1]) + ["..."] + it(t[2])) + " }"
    if k in "STC":
        parts = [comp_txt(c) for c in t[1]]
        if t[2] is not None:
            parts.append("...")
            parts += [comp_txt(c) for c in t[2]]
            if t[3]:
                parts.append("...")
        parts += [comp_txt(c) for c in t[3]]
        return {"S": "SEQUENCE", "T": "SET", "C": "CHOICE"}[k] + " { " + ", ".join(parts) + " }"
    if k == 'Q':
        return "SEQUENCE OF " + ty_txt(t[1])
    if k == 'R':
        return "T%d" % t[1]
    raise ValueError(t)


def default_txt(t):
    return {"I": " DEFAULT 0", "B": " DEFAULT TRUE", "N": " DEFAULT NULL"}[t[0]]


def comp_txt(c):
    if is_k(c):
        return "COMPONENTS OF T%d" % c[1]
    s = "c%d %s%s" % (c[0], tag_txt(c[1]), ty_txt(c[3]))
    if c[2] == 'o':
        s += " OPTIONAL"
    elif c[2] == 'd':
        s += default_txt(c[3])
    return s


TAGGING = {'E': "EXPLICIT TAGS", 'I': "IMPLICIT TAGS", 'A': "AUTOMATIC TAGS"}


def def_lines(m):
    return ["T%d ::= %s%s" % (n, tag_txt(tg), ty_txt(t)) for (n, tg, t) in m[1]]


def tagging_txt(m):
    return TAGGING[m[0]]


def mod_txt(m):
    lines = ["M DEFINITIONS %s ::= BEGIN" % TAGGING[m[0]]] + def_lines(m) + ["END"]
    return "\n".join(lines) + "\n"


def all_comps(t):
    """components in textual order: r1, additions, r2"""
    return list(t[1]) + list(t[2] or []) + list(t[3])


def with_comps(t, comps):
    n1, n2 = len(t[1]), len(t[2] or [])
    return (t[0], comps[:n1], None if t[2] is None else comps[n1:n1 + n2], comps[n1 + n2:])


def cons_sites(m):
    """paths of every SEQUENCE/SET/CHOICE node: (def index, [steps]); a step is
    a component index in textual order, or 'q' for a SEQUENCE OF element"""
    out = []

    def walk(t, di, p):
        if t[0] in "STC":
            out.append((di, tuple(p)))
            for i, c in enumerate(all_comps(t)):
                if not is_k(c):
                    walk(c[3], di, p + [i])
        elif t[0] == 'Q':
            walk(t[1], di, p + ['q'])
    for di, d in enumerate(m[1]):
        walk(d[2], di, [])
    return out


def enum_sites(m):
    out = []

    def walk(t, di, p):
        if t[0] == 'E':
            out.append((di, tuple(p)))
        elif t[0] in "STC":
            for i, c in enumerate(all_comps(t)):
                if not is_k(c):
                    walk(c[3], di, p + [i])
        elif t[0] == 'Q':
            walk(t[1], di, p + ['q'])
    for di, d in enumerate(m[1]):
        walk(d[2], di, [])
    return out


def get_at(m, site):
    di, p = site
    t = m[1][di][2]
    for s in p:
        t = t[1] if s == 'q' else all_comps(t)[s][3]
    return t


def rewrite(m, site, f):
    di, p = site

    def go(t, p):
        if not p:
            return f(t)
        if p[0] == 'q':
            return ('Q', go(t[1], p[1:]))
        cs = all_comps(t)
        c = cs[p[0]]
        cs[p[0]] = (c[0], c[1], c[2], go(c[3], p[1:]))
        return with_comps(t, cs)
    defs = list(m[1])
    d = defs[di]
    defs[di] = (d[0], d[1], go(d[2], list(p)))
    return (m[0], defs)


def add_defs(m, ds):
    return (m[0], list(m[1]) + ds)


# ---------------------------------------------------------------- generation
AUX = 900   # names of the auxiliary definitions the injections add


def aux_defs():
    return [(AUX + 1, None, ('R', AUX + 2)), (AUX + 2, None, I),                       # T901 ::= T902 ::= INTEGER
            (AUX + 3, None, ('C', [(1, None, 'm', I), (2, None, 'm', B)], None, [])),   # T903 ::= CHOICE { INTEGER, BOOLEAN }
            (AUX + 4, ('c', 7, 'd'), I),                                               # T904 ::= [7] INTEGER
            (AUX + 5, None, ('R', AUX + 3))]                                           # T905 ::= T903


# the parser's limits for a number (asn1c_integer_t is __int128 in this build:
# libasn1parser/asn1p_integer.c:strtoaint_lim; one more digit is "too large for this compiler")
INT_MAX = 2**127 - 1
INT_MIN = -2**127
BIGVALS = [2**31 - 1, 2**31, 2**31 + 1, -2**31, -2**31 - 1, 2**32 - 1, 2**32, 2**32 + 1, -2**32, -2**32 - 1,
           3000000000, 2**63 - 1, 2**63, -2**63, -2**63 - 1, 2**64 - 1, 2**64, 2**64 + 5, -2**64,
           10**27, 2**127 - 1, -2**127, -2**127 + 1, 0, 1, -1, 5]


def gen_ty(rng, depth, names, defnames, cof=None):
    """a random type; small tag space so that collisions do occur by chance"""
    r = rng.below(100)
    if r < 40 or depth <= 0:
        return rng.choice([B, I, N, O, I, B])
    if r < 50:
        n = rng.range(1, 4)
        style = rng.below(12)
        if style >= 10:
            # values outside 32/64 bits, possibly congruent modulo 2^31/2^32/2^64; sometimes extensible
            vals = [rng.choice(BIGVALS) for _ in range(n)]
            if rng.chance(1, 2):
                vals = [vals[0]] + [rng.choice([vals[0] + d for d in (2**31, 2**32, -2**32, 2**64, 0)] + BIGVALS) for _ in range(n - 1)]
            vals = [v if INT_MIN <= v <= INT_MAX else 7 for v in vals]
            items = [(k + 1, v) for k, v in enumerate(vals)]
            if rng.chance(1, 2) and n >= 2:
                cut = rng.range(1, n - 1)
                adds = items[cut:]
                if rng.chance(3, 4):
                    adds = [(nm, v) for (nm, _), v in zip(adds, sorted(v for _, v in adds))]
                return ('X', items[:cut], adds)
            return ('E', items)
        items = []
        for k in range(n):
            v = None if style < 4 else (rng.range(-1, 6) if style < 9 or rng.chance(1, 2) else None)
            items.append((k + 1 if not rng.chance(1, 25) else 1, v))
        return ('E', items)
    if r < 62 and defnames:
        return ('R', rng.choice(defnames))
    if r < 66:
        return ('Q', gen_ty(rng, depth - 1, names, defnames))
    return gen_cons(rng, depth - 1, defnames, cof=cof)


def gen_comp(rng, idx, kind, depth, defnames, tagstyle, cof=None):
    t = gen_ty(rng, depth, None, defnames, cof)
    tg = None
    if tagstyle == 'all' or (tagstyle == 'some' and rng.chance(1, 2)):
        tg = (rng.choice("cccap"), rng.choice([idx, idx, idx, rng.range(0, 3)]), rng.choice("ddie"))
    fl = 'm'
    if kind != 'C' and rng.chance(2, 5):
        fl = 'd' if (t[0] in "IB" and rng.chance(1, 2)) else 'o'
    name = idx + 1 if not rng.chance(1, 40) else 1
    return (name, tg, fl, t)


def gen_cons(rng, depth, defnames, kind=None, cof=None):
    """cof: {'S': [names], 'T': [names]} of earlier definitions COMPONENTS OF may refer to"""
    kind = kind or rng.choice("STC")
    n1 = rng.range(1, 4)
    tagstyle = rng.choice(['none', 'none', 'some', 'all'])
    idx = 0
    r1 = []
    for _ in range(n1):
        r1.append(gen_comp(rng, idx, kind, depth, defnames, tagstyle, cof)); idx += 1
    ext, r2 = None, []
    if rng.chance(1, 3):
        ext = []
        for _ in range(rng.below(3)):
            ext.append(gen_comp(rng, idx, kind, depth, defnames, tagstyle, cof)); idx += 1
        for _ in range(rng.below(2)):
            r2.append(gen_comp(rng, idx, kind, depth, defnames, tagstyle, cof)); idx += 1
    if cof and cof.get(kind) and rng.chance(1, 3):
        for _ in range(1 if rng.chance(4, 5) else 2):
            part = rng.choice([r1, r1, r2 if ext is not None else r1, ext if ext is not None else r1])
            part.insert(rng.below(len(part) + 1), ('K', rng.choice(cof[kind])))
    return (kind, r1, ext, r2)


def gen_module(rng):
    tagging = rng.choice("EIA")
    defs = []
    names = []
    cof = {'S': [], 'T': []}
    n = rng.range(2, 5)
    for k in range(n):
        name = k + 1
        r = rng.below(10)
        if r < 2:
            t = rng.choice([B, I, N, O])
        elif r < 3 and names:
            t = ('R', rng.choice(names))
            for kk in "ST":          # an alias of a SEQUENCE/SET can be referred to as well
                if t[1] in cof[kk]:
                    cof[kk].append(name)
        else:
            t = gen_cons(rng, 2, names + [name] if rng.chance(1, 6) else names, cof={kk: list(v) for kk, v in cof.items()})
            if t[0] in "ST":
                cof[t[0]].append(name)
        tg = None
        if rng.chance(1, 6):
            tg = (rng.choice("ca"), rng.range(0, 3), rng.choice("ddie"))
        defs.append((name, tg, t))
        names.append(name)
    return (tagging, defs)


def set_comp(t, i, c):
    cs = all_comps(t)
    cs[i] = c
    return with_comps(t, cs)


def collision_kinds():
    """(label, component i, component j) — types/tags to plant at two positions"""
    ch = ('C', [(1, None, 'm', I), (2, None, 'm', B)], None, [])
    chx = lambda t: ('C', [(1, None, 'm', t)], [], [])
    K = []
    K.append(("prim", (None, I), (None, I)))
    for mi, mj in (("d", "d"), ("i", "e"), ("e", "i")):
        K.append(("tag-" + mi + mj, (('c', 5, mi), B), (('c', 5, mj), I)))
    K.append(("class-same", (('a', 5, 'd'), B), (('a', 5, 'd'), I)))
    K.append(("class-diff", (('a', 5, 'd'), B), (('c', 5, 'd'), I)))          # distinct: control
    K.append(("num-diff", (('c', 5, 'd'), B), (('c', 6, 'd'), B)))            # distinct: control
    K.append(("inline-choice", (None, ch), (None, I)))
    K.append(("inline-choice-r", (None, I), (None, ch)))
    K.append(("refchain", (None, ('R', AUX + 1)), (None, I)))
    K.append(("refchain-r", (None, I), (None, ('R', AUX + 1))))
    K.append(("named-choice", (None, ('R', AUX + 3)), (None, I)))
    K.append(("named-choice-r", (None, I), (None, ('R', AUX + 3))))
    K.append(("named-choice-chain", (None, ('R', AUX + 5)), (None, B)))
    K.append(("ref-vs-named-choice", (None, ('R', AUX + 3)), (None, ('R', AUX + 2))))
    K.append(("ref-vs-named-choice-r", (None, ('R', AUX + 2)), (None, ('R', AUX + 3))))   # where the marks bite
    K.append(("two-named-choices", (None, ('R', AUX + 3)), (None, ('R', AUX + 5))))
    K.append(("tagged-ref", (None, ('R', AUX + 4)), (('c', 7, 'e'), B)))
    K.append(("tagged-choice", (('c', 5, 'd'), ch), (('c', 5, 'd'), N)))
    K.append(("ext-choices", (None, chx(I)), (None, chx(B))))
    K.append(("univ-manual", (('u', 2, 'd'), B), (None, I)))
    K.append(("distinct", (None, O), (None, N)))                              # control
    return K


def inject_collision(m, site, i, j, kind, variant):
    label, (tgi, tyi), (tgj, tyj) = kind
    t = get_at(m, site)
    cs = all_comps(t)
    is_seq = t[0] == 'S'

    def f(t):
        cs = all_comps(t)
        ci, cj = cs[i], cs[j]
        cs[i] = (ci[0], tgi, ci[2] if tyi[0] in "IBN" or ci[2] != 'd' else 'o', tyi)
        cs[j] = (cj[0], tgj, cj[2] if tyj[0] in "IBN" or cj[2] != 'd' else 'o', tyj)
        if t[0] == 'S' and variant.startswith("run"):
            for k in range(i, j):
                c = cs[k]
                if not is_k(c) and c[2] == 'm':
                    cs[k] = (c[0], c[1], 'd' if (c[3][0] in "I" and (k % 2)) else 'o', c[3])
        if variant.endswith("manual"):
            others = [k for k in range(len(cs)) if k not in (i, j) and not is_k(cs[k])]
            if others:
                k = others[0]
                c = cs[k]
                cs[k] = (c[0], ('c', 30, 'd'), c[2], c[3])
            else:
                nt = with_comps(t, cs)
                return (nt[0], nt[1], nt[2], nt[3] + [(77, ('c', 30, 'd'), 'm', N)])
        return with_comps(t, cs)
    m2 = rewrite(m, site, f)
    if variant.endswith("auto") or variant.endswith("manual"):
        m2 = ('A', m2[1])
    else:
        m2 = (variant[-1], m2[1])
    return add_defs(m2, aux_defs())


# ---------------------------------------------------------------- COMPONENTS OF
COFB = {'S': 910, 'T': 920}   # names of the auxiliary SEQUENCE (91x) and SET (92x) types


def cof_aux(kind):
    """definitions COMPONENTS OF refers to; they are put in FRONT of the module
    (only earlier definitions are in the modelled fragment)"""
    b = COFB[kind]
    chx = ('C', [(1, None, 'm', I)], [], [])
    return [(b + 1, None, (kind, [(61, ('c', 5, 'd'), 'm', I), (62, ('c', 6, 'd'), 'o', B)], None, [])),      # manual tags
            (b + 2, None, (kind, [(63, None, 'o', I), (64, None, 'm', B)], None, [])),                         # no tags
            (b + 3, None, (kind, [(65, None, 'm', N)], [(66, None, 'm', I)], [(67, None, 'm', O)])),           # { c65, ..., c66, ..., c67 }
            (b + 4, None, ('R', b + 1)),                                                                       # alias
            (b + 5, ('a', 3, 'd'), (kind, [(68, None, 'o', chx),                                               # nested extensible types
                                           (69, None, 'm', ('S', [(1, None, 'm', N)], [(2, None, 'm', N)], []))], None, [])),
            (b + 6, None, (kind, [(70, None, 'm', N), ('K', b + 1)], None, []))]                               # COMPONENTS OF inside


def put_in(t, part, idx, comps):
    """insert components into r1 (part 1), the additions (2) or r2 (3) of a constructed type"""
    parts = [None, list(t[1]), None if t[2] is None else list(t[2]), list(t[3])]
    parts[part][idx:idx] = comps
    return (t[0], parts[1], parts[2], parts[3])


def untag_comps(t):
    f = lambda l: [c if is_k(c) else (c[0], None, c[2], c[3]) for c in l]
    return (t[0], f(t[1]), None if t[2] is None else f(t[2]), f(t[3]))


def cof_variants(t):
    """(label, ...) for one SEQUENCE/SET site"""
    out = []
    n1 = len(t[1])
    for pos in range(n1 + 1):
        for ref in (1, 2, 3, 4, 5, 6):
            for tg in "EIA":
                out.append(("plain-%d-%s" % (ref, tg), pos, ref, tg))
        for tg in "EIA":
            out.append(("dupident-" + tg, pos, 1, tg))
            out.append(("dupident2-" + tg, pos, 6, tg))
            out.append(("tagclash-" + tg, pos, 1, tg))
            out.append(("tagclash-alias-" + tg, pos, 4, tg))
            out.append(("tagclash-chain-" + tg, pos, 6, tg))
            out.append(("tagdistinct-" + tg, pos, 1, tg))
            out.append(("univclash-" + tg, pos, 2, tg))
            out.append(("autotagged-" + tg, pos, 1, tg))
            out.append(("autotagged-chain-" + tg, pos, 6, tg))
            out.append(("twice-" + tg, pos, 2, tg))
            out.append(("extnotcopied-" + tg, pos, 3, tg))
            out.append(("extnotcopied-id-" + tg, pos, 3, tg))
            out.append(("nestedext-" + tg, pos, 5, tg))
            if t[2] is not None:
                out.append(("inadds-" + tg, pos, 1, tg))
                out.append(("inadds-untagged-" + tg, pos, 2, tg))
    return out


def inject_cof(m, site, variant):
    label, pos, ref, tg = variant
    what = label.rsplit("-", 1)[0]
    t0 = get_at(m, site)
    kind = t0[0]
    K = ('K', COFB[kind] + ref)
    opt = 'o'

    def f(t):
        if what.startswith("plain"):
            return put_in(t, 1, pos, [K])
        if what in ("dupident", "dupident2"):
            # a local component takes the identifier of an inherited one
            return put_in(t, 1, pos, [(61, None, 'm', O), K] if pos % 2 else [K, (61, None, 'm', O)])
        if what.startswith("tagclash"):
            # c61 arrives with [5]; a local OPTIONAL component just before it carries [5] as well
            return put_in(t, 1, pos, [(71, ('c', 5, 'd'), opt, B), K])
        if what == "tagdistinct":
            return put_in(t, 1, pos, [(71, ('c', 4, 'd'), opt, B), K])
        if what == "univclash":
            # inherited c63 INTEGER OPTIONAL, c64 BOOLEAN; local untagged INTEGER OPTIONAL before them
            return put_in(t, 1, pos, [(71, None, opt, I), K])
        if what.startswith("autotagged"):
            # nothing written in this type is tagged: automatic tagging applies (when the module has
            # it) although the inherited components are tagged; c71/c72 rely on it
            return put_in(untag_comps(t), 1, pos, [(71, None, opt, I), K, (72, None, opt, I), (73, None, 'm', I)])
        if what == "twice":
            return put_in(t, 1, pos, [K, (71, None, 'm', N), K])
        if what == "extnotcopied":
            # T913's addition c66 INTEGER is not inherited: c71 INTEGER OPTIONAL is followed by c65 NULL
            return put_in(t, 1, pos, [(71, None, opt, I), K])
        if what == "extnotcopied-id":
            return put_in(t, 1, pos, [(66, None, 'm', ('Q', B)), K])
        if what == "nestedext":
            # a local extensible CHOICE (OPTIONAL), then the inherited c68 CHOICE { c1 INTEGER, ... } OPTIONAL
            return put_in(t, 1, pos, [(71, None, opt, ('C', [(1, None, 'm', B)], [], [])), K])
        if what.startswith("inadds"):
            return put_in(t, 2, min(pos, len(t[2])), [K])
        raise ValueError(label)
    m2 = rewrite(m, site, f)
    return (tg, cof_aux(kind) + list(m2[1]))


BIG_ENUMS = None


def big_enum_cases():
    """(label, type) — enumerations with values around the 32/64-bit boundaries:
    valid ones (distinct values, among them pairs congruent modulo 2^31, 2^32, 2^64)
    and ones that repeat a large value, in the root and after the marker"""
    out = []
    P31, P32, P63, P64 = 2**31, 2**32, 2**63, 2**64
    sets = {"b31": [P31 - 1, P31, P31 + 1], "n31": [-P31 - 1, -P31, -P31 + 1], "b32": [P32 - 1, P32, P32 + 1],
            "n32": [-P32 - 1, -P32, -P32 + 1], "b63": [P63 - 1, P63, P63 + 1], "n63": [-P63 - 1, -P63, -P63 + 1],
            "b64": [P64 - 1, P64, P64 + 1], "lim": [INT_MIN, -1, INT_MAX],
            "mod32": [0, P32, 2 * P32], "mod32b": [-1, P32 - 1, 5], "mod32c": [3, P32 + 3, -P32 + 3],
            "mod31": [1, P31 + 1, -P31 + 1], "mod64": [7, P64 + 7, -P64 + 7], "mod32d": [3000000000, 3000000000 - P32, 1],
            "mix": [1, 3000000000, 4294967296]}
    for nm in sorted(sets):
        vs = sets[nm]
        items = [(k + 1, v) for k, v in enumerate(vs)]
        out.append(("valid:root:" + nm, ('E', items)))
        out.append(("valid:root-rev:" + nm, ('E', [(k + 1, v) for k, v in enumerate(reversed(vs))])))
        sv = sorted(vs)
        if sv[1] >= 0:
            out.append(("valid:ext:" + nm, ('X', [(1, sv[0])], [(2, sv[1]), (3, sv[2])])))
        if sv[2] >= 0:
            out.append(("valid:ext1:" + nm, ('X', [(1, sv[0]), (2, sv[1])], [(3, sv[2])])))
        if sv[0] < 0:
            out.append(("negadd:" + nm, ('X', [(1, sv[2])], [(2, sv[0])])))       # first addition negative
        if max(vs) < INT_MAX:
            out.append(("valid:unvalued:" + nm, ('E', [(1, vs[0]), (2, vs[1]), (3, None), (4, vs[2])] if vs[2] != max(vs[:2]) + 1 else [(1, vs[0]), (2, None)])))
        for i in range(3):
            for j in range(i + 1, 3):
                d = list(vs)
                d[j] = d[i]
                out.append(("dup:root:%s" % nm, ('E', [(k + 1, v) for k, v in enumerate(d)])))
                out.append(("dup:root+other:%s" % nm, ('E', [(9, 4)] + [(k + 1, v) for k, v in enumerate(d)])))
                if j == 2:
                    rest = [v for k, v in enumerate(d) if k != 2]
                    out.append(("dup:root-vs-ext:%s" % nm, ('X', [(k + 1, v) for k, v in enumerate(rest)], [(3, d[2])])))
                if i >= 1:
                    out.append(("dup:ext-vs-ext:%s" % nm, ('X', [(1, d[0])], [(2, d[1]), (3, d[2])])))
    return out


def fixed_corpus():
    """hand-written modules: the witnesses of the recorded findings and the
    boundary cases discussed in notes/design/C11.md"""
    ch = ('C', [(1, None, 'm', I), (2, None, 'm', B)], None, [])
    C = []
    # marks bug: SET { a T1, b T2 } with T1 ::= INTEGER, T2 ::= CHOICE { INTEGER, BOOLEAN }
    C.append(("w-refmark", ('E', [(1, None, I), (2, None, ch), (3, None, ('T', [(1, None, 'm', ('R', 1)), (2, None, 'm', ('R', 2))], None, []))])))
    C.append(("w-refmark-swapped", ('E', [(1, None, I), (2, None, ch), (3, None, ('T', [(1, None, 'm', ('R', 2)), (2, None, 'm', ('R', 1))], None, []))])))
    C.append(("w-refmark-choice", ('I', [(1, None, I), (2, None, ch), (3, None, ('C', [(1, None, 'm', ('R', 1)), (2, None, 'm', ('R', 2))], None, []))])))
    C.append(("w-refmark-seq", ('E', [(1, None, I), (2, None, ch), (3, None, ('S', [(1, None, 'o', ('R', 1)), (2, None, 'm', ('R', 2))], None, []))])))
    # left recursion
    C.append(("w-leftrec", ('E', [(1, None, ('C', [(1, None, 'm', ('R', 1)), (2, None, 'm', N)], None, []))])))
    C.append(("w-leftrec-later", ('E', [(1, None, ('C', [(2, None, 'm', N), (1, None, 'm', ('R', 1))], None, []))])))
    C.append(("w-leftrec-single", ('E', [(1, None, ('C', [(1, None, 'm', ('R', 1))], None, []))])))
    C.append(("w-leftrec-used", ('E', [(1, None, ('C', [(1, None, 'm', ('R', 1))], None, [])), (2, None, ('T', [(1, None, 'm', ('R', 1)), (2, None, 'm', I)], None, []))])))
    C.append(("w-leftrec-auto", ('A', [(1, None, ('C', [(1, None, 'm', ('R', 1)), (2, None, 'm', N)], None, []))])))
    C.append(("w-refcycle", ('E', [(1, None, ('R', 2)), (2, None, ('R', 1)), (3, None, ('T', [(1, None, 'm', ('R', 1)), (2, None, 'm', I)], None, []))])))
    C.append(("w-refcycle-alone", ('E', [(1, None, ('R', 2)), (2, None, ('R', 1))])))
    # enumerations
    C.append(("w-enum-mixed", ('E', [(1, None, ('E', [(1, 1), (2, None), (3, 2)]))])))
    C.append(("w-enum-mixed-ok", ('E', [(1, None, ('E', [(1, 1), (2, None), (3, 0)]))])))
    C.append(("w-enum-dupval", ('E', [(1, None, ('E', [(1, 3), (2, 3)]))])))
    C.append(("w-enum-dupname", ('E', [(1, None, ('E', [(1, None), (2, None), (1, None)]))])))
    C.append(("w-enum-neg", ('E', [(1, None, ('E', [(1, -1), (2, None)]))])))
    # extension markers
    C.append(("x-opt-ext-mand", ('E', [(1, None, ('S', [(1, None, 'o', I)], [(2, None, 'm', I)], []))])))
    C.append(("x-two-markers", ('E', [(1, None, ('S', [(1, None, 'o', I)], [(3, None, 'm', B)], [(2, None, 'm', I)]))])))
    C.append(("x-adds-collide", ('E', [(1, None, ('S', [(1, None, 'm', B)], [(2, None, 'o', I), (3, None, 'm', I)], []))])))
    C.append(("x-52.7-ex1", ('E', [(1, None, ('T', [(1, None, 'm', I), (2, None, 'm', ('C', [(1, None, 'm', B), (2, None, 'm', N)], [], []))], None, []))])))
    C.append(("x-52.7-ex2", ('E', [(1, None, ('T', [(1, None, 'm', I), (2, None, 'm', ('C', [(1, None, 'm', B), (2, None, 'm', N)], [], []))], [], []))])))
    C.append(("x-52.7-ex3", ('E', [(1, None, ('T', [(1, None, 'm', ('C', [(1, None, 'm', I)], [], [])), (2, None, 'm', ('C', [(1, None, 'm', B)], [], []))], None, []))])))
    C.append(("x-seq-optchoice-marker", ('E', [(1, None, ('S', [(1, None, 'o', ('C', [(1, None, 'm', B)], [], []))], [], []))])))
    # tagging
    C.append(("t-implicit-choice", ('E', [(1, None, ('S', [(1, ('c', 1, 'i'), 'm', ('C', [(1, None, 'm', I)], None, []))], None, []))])))
    C.append(("t-implicit-choice-ref", ('E', [(1, None, ch), (2, None, ('S', [(1, ('c', 1, 'i'), 'm', ('R', 1))], None, []))])))
    C.append(("t-implicit-top", ('E', [(1, ('c', 1, 'i'), ('C', [(1, None, 'm', I)], None, []))])))
    C.append(("t-default-choice-implicit-module", ('I', [(1, ('c', 1, 'd'), ('C', [(1, None, 'm', I)], None, []))])))
    C.append(("t-auto-manual", ('A', [(1, None, ('S', [(1, ('c', 0, 'd'), 'o', I), (2, None, 'o', I), (3, None, 'm', I)], None, []))])))
    C.append(("t-auto", ('A', [(1, None, ('S', [(1, None, 'o', I), (2, None, 'o', I), (3, None, 'm', I)], None, []))])))
    C.append(("t-28.4", ('A', [(1, None, ('S', [(1, None, 'm', I)], [(2, ('c', 1, 'd'), 'm', I)], []))])))
    C.append(("t-auto-ref-into-autotagged", ('A', [(1, None, ch), (2, None, ('T', [(1, ('c', 0, 'd'), 'm', I), (2, None, 'm', ('R', 1))], None, []))])))
    C.append(("t-duptype", ('E', [(1, None, I), (1, None, B)])))
    C.append(("q-seqof-inline", ('E', [(1, None, ('Q', ('T', [(1, None, 'm', I), (2, None, 'm', I)], None, [])))])))
    C.append(("q-undef", ('E', [(1, None, ('S', [(1, None, 'm', ('R', 9))], None, []))])))
    C.append(("q-undef-seqof", ('E', [(1, None, ('Q', ('R', 9)))])))
    C.append(("q-recursive-seq", ('E', [(1, None, ('S', [(1, None, 'o', ('R', 1))], None, []))])))
    # COMPONENTS OF
    hdr = lambda k: (1, None, (k, [(1, ('c', 5, 'd'), 'm', I), (2, ('c', 6, 'd'), 'm', B)], None, []))
    body = lambda k: (2, None, (k, [(3, None, 'o', I), ('K', 1), (4, None, 'o', I), (5, None, 'm', I)], None, []))
    for k in "ST":
        for tg in "AEI":
            # AUTOMATIC: T2 is tagged [0]..[4] although c1, c2 arrive tagged (X.680 25.3 NOTE); otherwise c4/c5 clash
            C.append(("c-inherited-tags-%s-%s" % (k, tg), (tg, [hdr(k), body(k)])))
        C.append(("c-auto-local-tag-" + k, ('A', [hdr(k), (2, None, (k, [(3, ('c', 0, 'd'), 'o', I), ('K', 1), (4, None, 'o', I), (5, None, 'm', I)], None, []))])))
        C.append(("c-auto-set-app-" + k, ('A', [(1, None, (k, [(1, ('a', 1, 'd'), 'm', I)], None, [])), (2, None, (k, [(2, None, 'm', B), ('K', 1), (3, None, 'm', B)], None, []))])))
        C.append(("c-dupident-" + k, ('E', [hdr(k), (2, None, (k, [(1, None, 'm', N), ('K', 1)], None, []))])))
        C.append(("c-twice-" + k, ('E', [hdr(k), (2, None, (k, [('K', 1), (3, None, 'm', N), ('K', 1)], None, []))])))
        C.append(("c-only-" + k, ('I', [hdr(k), (2, None, (k, [('K', 1)], None, []))])))
        C.append(("c-inherited-tag-clash-" + k, ('I', [hdr(k), (2, None, (k, [(3, ('c', 5, 'd'), 'o', B), ('K', 1)], None, []))])))
        C.append(("c-28.4-written-" + k, ('A', [hdr(k), (2, None, (k, [(3, None, 'm', N), ('K', 1)], [(4, ('c', 9, 'd'), 'm', I)], []))])))
        C.append(("c-in-additions-" + k, ('A', [hdr(k), (2, None, (k, [(3, None, 'm', N)], [('K', 1)], [(4, None, 'm', N)]))])))
        C.append(("c-ext-not-copied-" + k, ('E', [(1, None, (k, [(1, None, 'm', N)], [(2, None, 'm', I)], [(3, None, 'm', O)])),
                                                  (2, None, (k, [(2, None, 'o', I), ('K', 1)], None, []))])))
        C.append(("c-nested-ext-" + k, ('E', [(1, None, (k, [(1, None, 'o', ('C', [(1, None, 'm', I)], [], []))], None, [])),
                                              (2, None, (k, [('K', 1), (2, None, 'm', ('C', [(1, None, 'm', B)], [], []))], None, []))])))
        C.append(("c-alias-chain-" + k, ('E', [hdr(k), (3, None, ('R', 1)), (4, ('c', 1, 'd'), ('R', 3)), (2, None, (k, [(3, None, 'm', N), ('K', 4)], None, []))])))
        C.append(("c-nested-cof-" + k, ('A', [hdr(k), (2, None, (k, [(3, None, 'm', N), ('K', 1)], None, [])), (3, None, (k, [('K', 2), (4, None, 'm', N)], None, []))])))
        # U's manual tag survives two hops although T2 (in between) is tagged automatically
        C.append(("c-nested-cof-tags-" + k, ('A', [(1, None, (k, [(1, ('c', 5, 'd'), 'm', I)], None, [])),
                                                   (2, None, (k, [(2, None, 'm', N), ('K', 1)], None, [])),
                                                   (3, None, (k, [(3, ('c', 5, 'd'), 'o', B), ('K', 2)], None, [])),
                                                   (4, None, (k, [(3, ('c', 5, 'd'), 'o', B), ('K', 1), ('K', 2)], None, []))])))
        # a type with a repeated inherited identifier, cloned as the TYPE of an inherited component: reported there
        C.append(("c-dupident-recloned-" + k, ('E', [hdr(k), (2, None, (k, [(7, None, 'm', (k, [(1, None, 'm', N), ('K', 1)], None, []))], None, [])),
                                                     (3, None, (k, [(8, None, 'm', O), ('K', 2)], None, []))])))
        C.append(("c-inline-" + k, ('A', [hdr(k), (2, None, ('S', [(1, None, 'm', (k, [(3, None, 'o', I), ('K', 1), (4, None, 'm', I)], None, []))], None, []))])))
        # outside the modelled fragment (the model answers OUTSIDE): dangling reference, wrong kind
        C.append(("c-dangling-" + k, ('E', [hdr(k), (2, None, (k, [(3, None, 'o', I), ('K', 9), (4, None, 'm', I)], None, []))])))
        C.append(("c-wrongkind-" + k, ('E', [hdr("T" if k == "S" else "S"), (2, None, (k, [(3, None, 'o', I), ('K', 1), (4, None, 'm', I)], None, []))])))
        C.append(("c-wrongkind-single-" + k, ('E', [(1, None, I), (2, None, (k, [('K', 1)], None, []))])))
    # enumeration values outside 32 bits
    C.append(("e-big-dup", ('E', [(1, None, ('E', [(1, 1), (2, 3000000000), (3, 3000000000)]))])))
    C.append(("e-big-dup-ext", ('E', [(1, None, ('X', [(1, 1), (2, 3000000000)], [(3, 3000000000)]))])))
    C.append(("e-mod32-distinct", ('E', [(1, None, ('E', [(1, 0), (2, 4294967296)]))])))
    C.append(("e-neg-mod32-distinct", ('E', [(1, None, ('E', [(1, -1), (2, 4294967295)]))])))
    C.append(("e-limits", ('E', [(1, None, ('E', [(1, INT_MIN), (2, INT_MAX), (3, 2**63 - 1), (4, -2**63)]))])))
    C.append(("e-limits-dup", ('E', [(1, None, ('E', [(1, INT_MAX), (2, INT_MIN), (3, INT_MAX)]))])))
    C.append(("e-big-unvalued", ('E', [(1, None, ('E', [(1, 2**32 - 1), (2, None), (3, 2**32)]))])))
    C.append(("e-ext-first-negative", ('E', [(1, None, ('X', [(1, 5)], [(2, -3)]))])))
    C.append(("e-ext-order", ('E', [(1, None, ('X', [(1, 5)], [(2, 2**32), (3, 2**31)]))])))
    C.append(("e-ext-empty", ('E', [(1, None, ('X', [(1, 5), (2, 2**64)], []))])))
    return C


def tagmode_projection():
    """the part of the tagging-mode layer (lib/c11_tagmode.py) that the algebra of Fix/Tags.v can
    express — reference chains of 0..4 definitions ending in a CHOICE / INTEGER / SEQUENCE, one tag at
    every hop in every mode, used under [n] IMPLICIT / [n] EXPLICIT / [n] / nothing as SEQUENCE, SET and
    CHOICE component — as ordinary cases: verdict and diagnostic classes against `check` and the spec"""
    out = []
    for term in ("choice", "int", "seq"):
        for L in range(0, 5):
            for default in "EIA":
                chains = [(term, modes, (i % 2) == 1) for i, (lab, modes) in enumerate(TM.directed_cfgs(L))]
                m = TM.build_module(default, chains)
                for legal in (False, True):
                    mm = TM.legal_variant(m) if legal else m
                    defs = [d for d in mm[1] if d[2][0] not in "QP"]       # a tagged element is not in the old algebra
                    out.append(("tmproj:%s:L%d:%s%s" % (term, L, default, ":legal" if legal else ""), (mm[0], defs)))
    return out


def generate(rng, tier, model):
    """returns list of (label, module)"""
    nbase = 8 if tier == "quick" else 40
    budget = 1500 if tier == "quick" else 10000
    cases = list(fixed_corpus()) + tagmode_projection()
    # random modules; the spec-valid ones become bases for the injections
    cands = [gen_module(rng) for _ in range(nbase * 8)]
    rc, mo, me = run_lines(model, [mod_line(m) for m in cands])
    if rc != 0 or len(mo) != len(cands):
        raise RuntimeError("model driver failed on candidates: " + me)
    bases, others = [], []
    for m, o in zip(cands, mo):
        f = dict(kv.split("=", 1) for kv in o.split())
        if f["spec"] == "OK" and f["wf"] == "1" and f["model"] == "ACCEPT" and cons_sites(m):
            bases.append(m)
        else:
            others.append(m)
    # prefer bases with more places to inject at
    bases.sort(key=lambda m: -sum(len(all_comps(get_at(m, s))) for s in cons_sites(m)))
    bases = bases[:nbase]
    for m in bases:
        cases.append(("valid", m))
    nrand = 40 if tier == "quick" else 600
    for m in others[:nrand]:
        cases.append(("random", m))
    inj = []
    kinds = collision_kinds()
    for bi, m in enumerate(bases):
        for site in cons_sites(m):
            t = get_at(m, site)
            idx = [k for k, c in enumerate(all_comps(t)) if not is_k(c)]     # COMPONENTS OF is not a place to plant a type at
            if t[0] in "ST":
                for v in cof_variants(t):
                    inj.append(("cof:%s:%s" % (t[0], v[0]), (m, site, v)))
            for i in idx:
                for j in idx:
                    if j <= i:
                        continue
                    for kind in kinds:
                        variants = ["plain-E", "plain-I", "auto", "manual"]
                        if t[0] == 'S':
                            variants += ["run-E", "run-I", "run-auto", "run-manual"]
                        for v in variants:
                            inj.append(("coll:%s:%s:%s" % (t[0], kind[0], v), (m, site, i, j, kind, v)))
                    inj.append(("dupident:" + t[0], (m, site, i, j)))
            for i in idx:
                inj.append(("dangling:comp", (m, site, i)))
        for site in enum_sites(m):
            n = len(get_at(m, site)[1])
            for i in range(n):
                for j in range(i + 1, n):
                    inj.append(("dupenumname:in-place", (m, site, i, j)))
                    inj.append(("dupenumval:in-place", (m, site, i, j)))
        # enumerations of each style appended to the base, every pair of items
        for n in (2, 3, 4):
            for style in ("valued", "unvalued", "mixed", "mixed2"):
                items = []
                for k in range(n):
                    v = {"valued": 2 * k - 1, "unvalued": None, "mixed": (None if k % 2 else 3 * k), "mixed2": (None if k % 2 == 0 else k + 5)}[style]
                    items.append((k + 1, v))
                m2 = add_defs(m, [(906, None, ('E', items))])
                site = (len(m2[1]) - 1, ())
                inj.append(("enum-valid:" + style, (m2,)))
                for i in range(n):
                    for j in range(i + 1, n):
                        inj.append(("dupenumname:" + style, (m2, site, i, j)))
                        inj.append(("dupenumval:" + style, (m2, site, i, j)))
        inj.append(("dangling:alias", (m,)))
        inj.append(("dangling:seqof", (m,)))
        # enumerations with values around the 32/64-bit boundaries, top-level and nested
        for lab, et in big_enum_cases():
            inj.append(("enumbig:" + lab, (m, et, rng.below(3))))
    inj = rng.shuffle(inj)
    # keep the catalogue balanced: a share of the budget per fault family,
    # round-robin over the labels inside a family
    room = max(0, budget - len(cases))
    share = {"coll": 0.42, "cof": 0.22, "dupident": 0.08, "dangling": 0.05, "dupenumname": 0.04, "dupenumval": 0.05, "enum-valid": 0.02,
             "enumbig": 0.12}
    picked = []
    for fam in sorted(share):
        by = {}
        for lab, a in inj:
            if lab.split(":")[0] == fam:
                by.setdefault(lab, []).append(a)
        labs = sorted(by)
        want = int(room * share[fam])
        k = got = 0
        while got < want and any(by.values()):
            lab = labs[k % len(labs)]
            k += 1
            if by[lab]:
                picked.append((lab, by[lab].pop()))
                got += 1
    for lab, a in picked:
        cases.append((lab, realize(lab, a)))
    return cases


def realize(lab, a):
    if lab.startswith("coll:"):
        return inject_collision(*a)
    if lab.startswith("cof:"):
        return inject_cof(*a)
    if lab.startswith("enumbig:"):
        m, et, how = a
        if how == 0:
            return add_defs(m, [(907, None, et)])
        if how == 1:
            return add_defs(m, [(907, None, ('S', [(1, None, 'm', et), (2, None, 'o', B)], None, []))])
        return (m[0], [(907, ('c', 2, 'e'), et)] + list(m[1]))
    if lab.startswith("dupident"):
        m, site, i, j = a

        def f(t):
            cs = all_comps(t)
            c = cs[j]
            cs[j] = (cs[i][0], c[1], c[2], c[3])
            return with_comps(t, cs)
        return rewrite(m, site, f)
    if lab == "dangling:comp":
        m, site, i = a

        def f(t):
            cs = all_comps(t)
            c = cs[i]
            cs[i] = (c[0], c[1], 'o' if c[2] == 'd' else c[2], ('R', 999))
            return with_comps(t, cs)
        return rewrite(m, site, f)
    if lab.startswith("enum-valid"):
        return a[0]
    if lab.startswith("dupenumname"):
        m, site, i, j = a

        def f(t):
            its = list(t[1])
            its[j] = (its[i][0], its[j][1])
            return ('E', its)
        return rewrite(m, site, f)
    if lab.startswith("dupenumval"):
        m, site, i, j = a

        def f(t):
            its = list(t[1])
            v = its[i][1] if its[i][1] is not None else 4
            its[i] = (its[i][0], v)
            its[j] = (its[j][0], v)
            return ('E', its)
        return rewrite(m, site, f)
    if lab == "dangling:alias":
        return add_defs(a[0], [(998, None, ('R', 999))])
    if lab == "dangling:seqof":
        return add_defs(a[0], [(998, None, ('Q', ('R', 999)))])
    raise ValueError(lab)


# ---------------------------------------------------------------- running asn1c
DIAG = [("clashes with expression", "duptype"), ("ASN.1 expression \"", "duptype"),
        ("Clash detected", "identclash"),
        ("collides with previous values", "enumvalue"),
        ("is not greater than previous values", "enumorder"),
        ("must reference a", "compof"),
        ("Unknown type", "undefref"),
        ("must be EXPLICIT", "implicit"),
        ("extensions are tagged", "exttag"),
        ("has the same tag", "tagclash"),
        ("Consider adding AUTOMATIC TAGS", None)]
MODEL2DIAG = {"enumorder": "enumorder", "duptype": "duptype", "dupident": "identclash", "enumname": "identclash", "enumvalue": "enumvalue",
              "undefref": "undefref", "implicit": "implicit", "exttag": "exttag", "tagclash": "tagclash"}
SPEC2DIAG = {"tags": "tagclash", "ident": "identclash", "enumname": "identclash", "enumvalue": "enumvalue", "ref": "undefref"}


def run_asn1c(args):
    idx, text, asn1c, skel, root = args[:5]
    grab = args[5] if len(args) > 5 else None
    d = os.path.join(root, "m%05d" % idx)
    os.makedirs(d)
    open(os.path.join(d, "m.asn1"), "w").write(text)
    try:
        p = subprocess.run([asn1c, "-S", skel, "-fcompound-names", "m.asn1"], cwd=d, stdout=subprocess.PIPE, stderr=subprocess.PIPE,
                           text=True, errors="replace", timeout=120)
        rc, err = p.returncode, p.stderr
    except subprocess.TimeoutExpired:
        rc, err = -999, "TIMEOUT"
    files = sorted(f for f in os.listdir(d) if f.endswith(".c") or f.endswith(".h"))
    grabbed = grab(d, files) if grab else None
    shutil.rmtree(d, ignore_errors=True)
    classes, unknown = set(), []
    for line in err.split("\n"):
        if not line.startswith("FATAL:") and "rror" not in line:
            continue
        for pat, cl in DIAG:
            if pat in line:
                if cl:
                    classes.add(cl)
                break
        else:
            if line.startswith("FATAL:") or "error" in line.lower():
                unknown.append(line[:160])
    diag = [l for l in err.split("\n") if l.strip() and not re.match(r"(Compiled|Copied|Generated|Symlinked) ", l)]
    if rc < 0:
        verdict = "CRASH"
    elif rc == 0:
        verdict = "ACCEPT"
    else:
        verdict = "REJECT"
    res = {"rc": rc, "verdict": verdict, "classes": sorted(classes), "unknown": unknown, "nfiles": len(files),
           "nfatal": sum(1 for l in err.split("\n") if l.startswith("FATAL:")), "nclashfatal": RF.clash_fatals(err), "ndiag": len(diag), "stderr_tail": "\n".join(diag[-6:])[-800:]}
    if grab:
        res["grabbed"] = grabbed
    return res


def classify(r, f, spec):
    """asn1c's outcome r against the specification's clauses `spec` ("OK" or comma list) and f["wf"].
    Returns (None, None) when they agree, else (description, id of the recorded finding or None)."""
    scls = sorted({SPEC2DIAG[x] for x in spec.split(",")}) if spec != "OK" else []
    spec_accept = spec == "OK" and f["wf"] == "1"
    oracle_bad = known = None
    if r["verdict"] == "CRASH":
        oracle_bad = "asn1c died (signal %d) instead of exiting with a verdict" % (-r["rc"])
        if f["cends"] == "0" or f["fix"] == "CRASH":
            known = "C11-leftrec-crash"
        elif f["cof"] in ("dangling", "kind") and "compof" in r["classes"]:
            known = "C11-compof-unresolved-crash"
    elif spec_accept and r["verdict"] == "REJECT":
        oracle_bad = "asn1c rejects a module in which none of the listed faults is present"
        if f["enummixed"] == "1" and r["classes"] == ["enumvalue"]:
            known = "C11-enum-autonumber"
        elif f["enumneg"] == "1" and r["classes"] == ["enumorder"]:
            known = "C11-enum-ext-first-negative"
    elif not spec_accept and r["verdict"] == "ACCEPT":
        oracle_bad = "asn1c accepts a module the specification rules out (%s)" % spec
        if spec == "tags" and f["wf"] == "1" and f["tagref"] == "1" and f["choiceref"] == "1":
            known = "C11-refmark-missed-clash"
    elif r["verdict"] == "REJECT" and f["wf"] == "1":
        # both reject: the classes of fault must agree too
        a = set(r["classes"])
        if f["cof"] == "dangling":
            a.discard("compof")      # accompanies "Unknown type" for the reference after COMPONENTS OF
        s = set(scls)
        if a != s:
            extra, missing = a - s, s - a
            if missing == {"tagclash"} and not extra and f["tagref"] == "1" and f["choiceref"] == "1":
                oracle_bad, known = "tag clash not diagnosed (other faults were)", "C11-refmark-missed-clash"
            elif extra == {"enumvalue"} and not missing and f["enummixed"] == "1":
                oracle_bad, known = "enumeration value clash diagnosed that the module does not contain", "C11-enum-autonumber"
            elif extra == {"enumorder"} and not missing and f["enumneg"] == "1":
                oracle_bad, known = "order of additional enumerations refused although it is X.680's", "C11-enum-ext-first-negative"
            elif (extra - {"enumvalue"} == set() and missing - {"tagclash"} == set() and f["enummixed"] == "1"
                  and f["tagref"] == "1" and f["choiceref"] == "1"):
                oracle_bad, known = "both recorded deviations at once", "C11-refmark-missed-clash"
            else:
                oracle_bad = "diagnosed fault classes %s differ from the specification's %s" % (sorted(a), sorted(s))
    return oracle_bad, known


def judge(run, lab, m, ln, o, r, text, replay_cmd=None):
    """one module: asn1c's outcome r against the extracted model's line o (faithfulness) and the extracted
    specification (oracle).  Returns (clean, f, fam): clean = asn1c, model and specification agree."""
    clean = True
    f = dict(kv.split("=", 1) for kv in o.split())
    run.case(ln)
    fc = RF.fatal_clause(r)     # general clause, every run: a FATAL: line => non-zero exit and no code
    if fc and r["rc"] == 0 and r["nfatal"] == r.get("nclashfatal") and any(fd["id"] == "C11-name-clash-fatal-exit0" for fd in run.findings):
        run.known_finding("C11-name-clash-fatal-exit0", lab)
        run.count("known:C11-name-clash-fatal-exit0")
    elif fc:
        clean = False
        run.count("oracle_deviation")
        run.violation("oracle:fatal-diagnostic-implies-failure", {"label": lab, "module_asn1": text, "input": text, "what": fc, "asn1c": r,
                                                                  "replay_cmd": replay_cmd or "write module_asn1 to m.asn1; asn1c -S <skeletons> -fcompound-names m.asn1; echo $?"})
    fam = lab.split(":")[0] if not lab.startswith("coll:") else "coll:" + lab.split(":")[2]
    if lab.startswith("cof:"):
        fam = "cof:" + lab.split(":")[2].rsplit("-", 1)[0]
    elif lab.startswith("enumbig:"):
        fam = "enumbig:" + ":".join(lab.split(":")[1:3])
    elif lab[:2] in ("c-", "e-"):
        fam = "fixed:" + ("compof" if lab[0] == "c" else "enumbig")
    if "'K'" in repr(m):
        run.count("has:components-of")
    if "'X'" in repr(m):
        run.count("has:extensible-enum")
    run.count("kind:" + fam)
    run.count("tagging:" + m[0])
    run.count("asn1c:" + r["verdict"])
    rep = {"label": lab, "module_asn1": text, "model_line": ln, "model": o, "asn1c": r,
           "replay_cmd": replay_cmd or "write module_asn1 to m.asn1 in an empty directory; asn1c -S <skeletons> -fcompound-names m.asn1; echo $?"}
    # ---- what a run must look like, whatever the verdict
    if r["verdict"] == "REJECT" and (r["nfiles"] != 0 or r["ndiag"] == 0):
        run.violation("oracle:reject-writes-no-code-and-diagnoses", dict(rep, what="non-zero exit but files were written or nothing was printed"))
    if r["verdict"] == "ACCEPT" and r["nfiles"] == 0:
        run.violation("oracle:accept-writes-code", dict(rep, what="exit 0 but no .c/.h written"))
    # ---- faithfulness: model vs asn1c
    mv = f["model"].split(":")[0]
    mcls = sorted({MODEL2DIAG[x] for x in f["model"].split(":")[1].split(",")}) if mv == "REJECT" else []
    if mv == "OUTSIDE":
        clean = False
        # a COMPONENTS OF whose reference is missing or of the other kind: not modelled (the C keeps the
        # member and trips over it later); only hand-written cases get here, and only the oracle judges them
        if f["cof"] not in ("dangling", "kind"):
            raise RuntimeError("generator produced a module outside the modelled fragment: " + ln)
        run.count("model:outside-fragment")
        faithful = True
        f["spec"] = "ref" if f["cof"] == "dangling" else "OK"
        f["wf"] = "1" if f["cof"] == "dangling" else "0"
        f["specc"] = f["spec"]
        f["cends"] = "1"
    else:
        faithful = (mv == r["verdict"]) and (mv != "REJECT" or (mcls == r["classes"] and not r["unknown"]))
    # ---- oracle: spec (on X.680's expansion) vs asn1c
    spec_accept = f["spec"] == "OK" and f["wf"] == "1"
    run.count("spec:" + ("accept" if spec_accept else ("reject" if f["wf"] == "1" else "reject-outside-catalogue")))
    oracle_bad, known = classify(r, f, f["spec"])
    if oracle_bad and known is None and f["specc"] != f["spec"]:
        # asn1c's expansion differs from X.680's on this module (extracted flags cofdup / cofext): the deviation
        # is the recorded one exactly when the spec evaluated on asn1c's expansion lacks just the clauses
        # the difference can remove, and asn1c agrees with that (or deviates from it in another recorded way)
        S = set(f["spec"].split(",")) - {"OK"}
        Sc = set(f["specc"].split(",")) - {"OK"}
        may = ({"ident"} if f["cofdup"] == "1" else set()) | ({"tags"} if f["cofext"] == "1" else set())
        if Sc <= S and (S - Sc) and (S - Sc) <= may:
            bad2, known2 = classify(r, f, f["specc"])
            if bad2 is None:
                known = "C11-compof-ident-unchecked" if "ident" in (S - Sc) else "C11-compof-nested-ext-dropped"
            elif known2:
                known = known2
    if oracle_bad:
        clean = False
        run.count("oracle_deviation")
        if known and any(fd["id"] == known for fd in run.findings):
            run.known_finding(known, lab)
            run.count("known:" + known)
        else:
            run.violation("oracle:distinct_spec", dict(rep, what=oracle_bad, spec=f["spec"], wf=f["wf"], input=text))
    if not faithful:
        clean = False
        run.count("model_vs_code_diff")
        run.violation("correspondence:Fix.Tags.check", dict(rep, what="extracted model and asn1c disagree",
                                                           model_verdict=f["model"], model_classes=mcls),
                      no_input=(oracle_bad is None or (known is not None)))
    return clean, f, fam


def main(tier):
    run = Run("C11", tier)
    rng = Rng(run.seed)
    # the fragment is authoritative for this property (known_findings.json is assembled from it)
    frag = os.path.join(VERIF, "findings.d", "C11.json")
    if os.path.exists(frag):
        have = {fd["id"] for fd in run.findings}
        run.findings += [fd for fd in json.load(open(frag)) if fd.get("status") == "open" and fd["id"] not in have]
    ok, out = coq_build()
    nthm, ndis, axioms, names, plog = obligations("C11") if ok else (0, 0, set(), [], out)
    gate = grep_gate()
    if not ok or ndis != nthm or gate or nthm == 0:
        run.violation("proof:Properties_C11", {"what": "Coq development does not build or an obligation is open",
                                               "log_tail": (out if not ok else plog)[-2000:], "grep_gate": gate}, no_input=True)
    model = model_build()
    try:
        asn1c, skel = build_asn1c()
    except BuildError as e:
        run.violation("build:asn1c", {"what": str(e)[-2000:]}, no_input=True)
        return run.finish("proof", (nthm, ndis))

    cases = generate(rng, tier, model)
    # drop duplicates (same module text), keep the first label
    seen, uniq = set(), []
    for lab, m in cases:
        ln = mod_line(m)
        if ln in seen:
            continue
        seen.add(ln)
        uniq.append((lab, m, ln))
    cases = uniq
    lines = [c[2] for c in cases]
    rc, mo, me = run_lines(model, lines)
    if rc != 0 or len(mo) != len(lines) or any(o.startswith("EXN") or o == "BADCMD" for o in mo):
        bad = [o for o in mo if o.startswith("EXN") or o == "BADCMD"][:3]
        raise RuntimeError("model driver failed: rc=%s %d/%d %s %s" % (rc, len(mo), len(lines), bad, me))
    root = os.path.join(scratch(), "c11runs")
    os.makedirs(root, exist_ok=True)
    texts = [mod_txt(c[1]) for c in cases]
    with ThreadPoolExecutor(max_workers=NCPU) as ex:
        results = list(ex.map(run_asn1c, [(i, texts[i], asn1c, skel, root) for i in range(len(cases))]))

    base = []
    for (lab, m, ln), o, r, text in zip(cases, mo, results, texts):
        clean, f, fam = judge(run, lab, m, ln, o, r, text)
        if clean and r["verdict"] in ("ACCEPT", "REJECT") and not lab.startswith("tmproj:"):
            base.append((lab, m, f, r, fam))
    # ---- the tagging-mode layer: verdicts and EMITTED tags along reference chains (lib/c11_tagmode.py)
    import time
    t0 = time.time()
    ntm = TM.run_layer(run, Rng(run.seed * 7919 + 11), tier, model, asn1c, skel, scratch(), NCPU, run_lines)
    t1 = time.time()
    # ---- wave 4: faults next to a recorded WARNING status (lib/c11_status.py), parameterized types (lib/c11_param.py)
    nst = ST.run_layer(run, Rng(run.seed * 104729 + 5), tier, model, asn1c, skel, scratch(), NCPU, run_lines, base,
                       def_lines, tagging_txt, DIAG)
    t2 = time.time()
    npm = PM.run_layer(run, Rng(run.seed * 15485863 + 3), tier, model, asn1c, skel, scratch(), NCPU, run_lines, sys.modules[__name__])
    t3 = time.time()
    # ---- wave 5: the ways a reference fails to resolve x where it is used (lib/c11_refs.py; several modules, IMPORTS / EXPORTS)
    RF.KNOWN[:] = [("C11-import-unlisted-symbol-resolved", lambda way, use, want, r: way == "imp-unlisted" and not want and r["rc"] == 0 and r["nfatal"] == 0)]
    nrf = RF.run_layer(run, Rng(run.seed * 32452843 + 9), tier, asn1c, skel, scratch(), NCPU)
    sys.stderr.write("c11 layers: refs %.1fs (%d)\n" % (time.time() - t3, nrf))
    sys.stderr.write("c11 layers: tagmode %.1fs (%d) status %.1fs (%d) param %.1fs (%d)\n" % (t1 - t0, ntm, t2 - t1, nst, time.time() - t2, npm))
    for i in (0, len(cases) // 3, 2 * len(cases) // 3, len(cases) - 1):
        run.sample({"label": cases[i][0], "asn1": texts[i], "model": mo[i], "asn1c": {k: results[i][k] for k in ("rc", "verdict", "classes", "nfiles")}})
    tb = ["Coq 8.16.1 kernel + vm_compute (refuted witnesses only)",
          "axioms under Print Assumptions: " + (", ".join(sorted(axioms)) or "none (Closed under the global context)"),
          "extraction: ExtrOcamlBasic only; OCaml 4.13.1; ocaml/drv_c11.ml (token parser for modules; structural comparison of two extracted expansions for the finding flags cofdup/cofext)",
          "checks/c11.py: generator, ASN.1 printer, classification of asn1c diagnostics by message text, finding predicates (extracted from coq/Fix/Distinct.v: has_tagref/has_choiceref/enum_mixed; compile_ends)",
          "the asn1c parser (the printed sublanguage), gcc build of the repository working tree",
          "executable oracle distinct_specb uses reference-chain depth = number of definitions + 1"]
    return run.finish("proof", (nthm, ndis), trusted_base=tb,
                      checker_cmd="make -C /verif all && coqc -Q coq A1 coq/Props/Properties_C11.v",
                      extra_cov={"theorems": names,
                                 "rule": "fixed witnesses + spec-valid random bases (with COMPONENTS OF, large and extensible enumerations) + single-fault injections (collision kinds x every component pair x plain/auto/manual/run variants, duplicate identifier at every pair, duplicate enumeration name/value at every pair, dangling reference at every component/alias/element; COMPONENTS OF of six auxiliary earlier types x every SEQUENCE/SET site x every position x E/I/A x fault (inherited identifier, inherited tag, universal tag, automatic tagging over inherited tags, twice, additions not copied, nested extension, inside additions); enumerations over 15 value sets around 2^31/2^32/2^63/2^64/2^127 x valid/duplicate at every pair x root/after the marker), round-robin over the catalogue up to the tier's budget; one asn1c process per module",
                                 "tagging_mode_layer": "reference chains of 0..4 (random: ..6) definitions x terminal CHOICE/ANY/INTEGER/SEQUENCE x one tag at every hop in every mode, two tags at every pair of hops, random placements x use as SEQUENCE/SET/CHOICE component (root and additions), SEQUENCE OF/SET OF element, under [n] IMPLICIT/[n] EXPLICIT/[n]/nothing x EXPLICIT/IMPLICIT/AUTOMATIC TAGS; verdict per use and, for accepted modules, member tag/tag_mode and tags/all_tags vectors read from the generated .c files, against an independent X.680 computation and the extracted Fix/TagMode.v",
                                 "status_layer": "faults and valid controls of the single-module corpus (round-robin over the fault families) x 16 environments that make asn1c record a warning status elsewhere (unknown encoding reference, same-named module with another OID, clash with a standard-module value; same module / second module before or after / second file before or after; controls without warning) x with and without -Werror; exit status, files written, FATAL lines against the property text and against the extracted status fold (coq/Fix/Status.v)",
                                 "parameterized_layer": "template kind CHOICE/SET/SEQUENCE x shape (parameter first/last/nested/untagged/two parameters/OF element; template before or after its uses) x relation between the inline actual parameters of 2-3 specializations (equal, prefix, suffix, infix, permutation, differing only in tags/identifiers/types/flags/constraints, one level deeper, enumerations, primitive, named, nested instantiation) x order 12/21/121/212 x use at top level or as SEQUENCE member x E/I/A; verdict against the extracted spec on the module obtained by substituting every reference in Python; clone names P1_<line>P<k> in the generated headers against the number of different actual parameter lists and against the extracted specialization table (coq/Fix/ParamDistinct.v)",
                                 "reference_layer": "way a type / value reference fails to resolve or resolves (defined nowhere, local, IMPORTS from an absent module, from a present module without the definition, definition left out of EXPORTS, EXPORTS naming an undefined symbol, EXPORTS ALL / explicit list, external reference Module.Type in the same manners, chains of 2-4 re-exporting modules broken at every link by absence / missing definition / EXPORTS / missing IMPORTS, import cycles, symbol not in the IMPORTS list) x 20 use sites (member, OPTIONAL member, SET member, alternative, OF element, nested, alias, tagged alias, COMPONENTS OF, actual parameter, contained subtype; values: assignment, DEFAULT, range, SIZE, named number) x arrangement of modules in files; verdict against an independent X.680 resolver (lib/c11_refs.py resolves = coq/Fix/Resolve.v); on EVERY run of the check: FATAL line => non-zero exit and no code",
                                 "traces_validated_against_impl": len(cases) + ntm + nst + npm + nrf},
                      assumptions=["model of libasn1fix is hand-written; tied by differential runs only on the generated modules",
                                   "specifications of the algebra in notes/design/C11.md; no IMPORTS, no constraints except inside actual parameters, ANY and SET OF only in the tagging-mode layer; several modules / files only in the status layer; parameterized types: one template with type parameters, substitution done in Python; COMPONENTS OF only of earlier definitions; extensible ENUMERATED only fully valued",
                                   "diagnostic classes are recognised by message text"])


if __name__ == "__main__":
    sys.exit(main(sys.argv[1] if len(sys.argv) > 1 else "quick"))
