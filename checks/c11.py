"""C11 — ambiguous specifications are rejected, unambiguous ones accepted.
Theorems: coq/Props/Properties_C11.v.  Model: coq/Fix/Tags.v (libasn1fix's
decision), spec: coq/Fix/Distinct.v (X.680 distinctness, from the property text).
Tie: modules generated from the type algebra (valid ones and single-fault
injections at every position/pair) are printed as ASN.1, compiled one by one
with the asn1c built from the repository working tree (`asn1c -S <skeletons>
m.asn1` in an empty directory), and the outcome (exit status, diagnostics,
files written) is compared with the extracted model (faithfulness, including
the class of every diagnostic) and with the extracted spec (oracle)."""
import sys, os, re, shutil, subprocess, json
from concurrent.futures import ThreadPoolExecutor
sys.path.insert(0, os.path.join(os.path.dirname(os.path.abspath(__file__)), "..", "lib"))
from vlib import *

# ---------------------------------------------------------------- AST helpers
# module = (tagging 'E'|'I'|'A', [def]);  def = (name, tag, ty)
# tag = None | (cls 'u'|'a'|'c'|'p', num, mode 'd'|'i'|'e')
# ty = ('B',)|('I',)|('N',)|('O',)|('E', [(name, val|None)])|(k 'S'|'T'|'C', r1, ext None|[comp], r2)|('Q', ty)|('R', name)
# comp = (name, tag, flag 'm'|'o'|'d', ty)
B, I, N, O = ('B',), ('I',), ('N',), ('O',)


def tag_tok(t):
    return "-" if t is None else "%s%d%s" % t


def ty_toks(t, out):
    k = t[0]
    if k in "BINO":
        out.append(k)
    elif k == 'E':
        out += ["E", str(len(t[1]))]
        for n, v in t[1]:
            out += [str(n), "-" if v is None else str(v)]
    elif k in "STC":
        out += [k, str(len(t[1]))]
        for c in t[1]:
            comp_toks(c, out)
        if t[2] is None:
            out.append("-")
        else:
            out.append(str(len(t[2])))
            for c in t[2]:
                comp_toks(c, out)
        out.append(str(len(t[3])))
        for c in t[3]:
            comp_toks(c, out)
    elif k == 'Q':
        out.append("Q")
        ty_toks(t[1], out)
    elif k == 'R':
        out += ["R", str(t[1])]
    else:
        raise ValueError(t)


def comp_toks(c, out):
    out += [str(c[0]), tag_tok(c[1]), c[2]]
    ty_toks(c[3], out)


def mod_line(m):
    out = ["c11", m[0], str(len(m[1]))]
    for (n, tg, t) in m[1]:
        out += [str(n), tag_tok(tg)]
        ty_toks(t, out)
    return " ".join(out)


CLS = {'u': "UNIVERSAL ", 'a': "APPLICATION ", 'c': "", 'p': "PRIVATE "}
MODE = {'d': "", 'i': " IMPLICIT", 'e': " EXPLICIT"}


def tag_txt(t):
    return "" if t is None else "[%s%d]%s " % (CLS[t[0]], t[1], MODE[t[2]])


def ty_txt(t):
    k = t[0]
    if k == 'B':
        return "BOOLEAN"
    if k == 'I':
        return "INTEGER"
    if k == 'N':
        return "NULL"
    if k == 'O':
        return "OCTET STRING"
    if k == 'E':
        return "ENUMERATED { " + ", ".join("e%d" % n + ("" if v is None else "(%d)" % v) for n, v in t[1]) + " }"
    if k in "STC":
        parts = [comp_txt(c) for c in t[1]]
        if t[2] is not None:
            parts.append("...")
            parts += [comp_txt(c) for c in t[2]]
            if t[3]:
                parts.append("...")
        parts += [comp_txt(c) for c in t[3]]
        return {"S": "SEQUENCE", "T": "SET", "C": "CHOICE"}[k] + " { " + ", ".join(parts) + " }"
    if k == 'Q':
        return "SEQUENCE OF " + ty_txt(t[1])
    if k == 'R':
        return "T%d" % t[1]
    raise ValueError(t)


def default_txt(t):
    return {"I": " DEFAULT 0", "B": " DEFAULT TRUE", "N": " DEFAULT NULL"}[t[0]]


def comp_txt(c):
    s = "c%d %s%s" % (c[0], tag_txt(c[1]), ty_txt(c[3]))
    if c[2] == 'o':
        s += " OPTIONAL"
    elif c[2] == 'd':
        s += default_txt(c[3])
    return s


TAGGING = {'E': "EXPLICIT TAGS", 'I': "IMPLICIT TAGS", 'A': "AUTOMATIC TAGS"}


def mod_txt(m):
    lines = ["M DEFINITIONS %s ::= BEGIN" % TAGGING[m[0]]]
    for (n, tg, t) in m[1]:
        lines.append("T%d ::= %s%s" % (n, tag_txt(tg), ty_txt(t)))
    lines.append("END")
    return "\n".join(lines) + "\n"


def all_comps(t):
    """components in textual order: r1, additions, r2"""
    return list(t[1]) + list(t[2] or []) + list(t[3])


def with_comps(t, comps):
    n1, n2 = len(t[1]), len(t[2] or [])
    return (t[0], comps[:n1], None if t[2] is None else comps[n1:n1 + n2], comps[n1 + n2:])


def cons_sites(m):
    """paths of every SEQUENCE/SET/CHOICE node: (def index, [steps]); a step is
    a component index in textual order, or 'q' for a SEQUENCE OF element"""
    out = []

    def walk(t, di, p):
        if t[0] in "STC":
            out.append((di, tuple(p)))
            for i, c in enumerate(all_comps(t)):
                walk(c[3], di, p + [i])
        elif t[0] == 'Q':
            walk(t[1], di, p + ['q'])
    for di, d in enumerate(m[1]):
        walk(d[2], di, [])
    return out


def enum_sites(m):
    out = []

    def walk(t, di, p):
        if t[0] == 'E':
            out.append((di, tuple(p)))
        elif t[0] in "STC":
            for i, c in enumerate(all_comps(t)):
                walk(c[3], di, p + [i])
        elif t[0] == 'Q':
            walk(t[1], di, p + ['q'])
    for di, d in enumerate(m[1]):
        walk(d[2], di, [])
    return out


def get_at(m, site):
    di, p = site
    t = m[1][di][2]
    for s in p:
        t = t[1] if s == 'q' else all_comps(t)[s][3]
    return t


def rewrite(m, site, f):
    di, p = site

    def go(t, p):
        if not p:
            return f(t)
        if p[0] == 'q':
            return ('Q', go(t[1], p[1:]))
        cs = all_comps(t)
        c = cs[p[0]]
        cs[p[0]] = (c[0], c[1], c[2], go(c[3], p[1:]))
        return with_comps(t, cs)
    defs = list(m[1])
    d = defs[di]
    defs[di] = (d[0], d[1], go(d[2], list(p)))
    return (m[0], defs)


def add_defs(m, ds):
    return (m[0], list(m[1]) + ds)


# ---------------------------------------------------------------- generation
AUX = 900   # names of the auxiliary definitions the injections add


def aux_defs():
    return [(AUX + 1, None, ('R', AUX + 2)), (AUX + 2, None, I),                       # T901 ::= T902 ::= INTEGER
            (AUX + 3, None, ('C', [(1, None, 'm', I), (2, None, 'm', B)], None, [])),   # T903 ::= CHOICE { INTEGER, BOOLEAN }
            (AUX + 4, ('c', 7, 'd'), I),                                               # T904 ::= [7] INTEGER
            (AUX + 5, None, ('R', AUX + 3))]                                           # T905 ::= T903


def gen_ty(rng, depth, names, defnames):
    """a random type; small tag space so that collisions do occur by chance"""
    r = rng.below(100)
    if r < 40 or depth <= 0:
        return rng.choice([B, I, N, O, I, B])
    if r < 50:
        n = rng.range(1, 4)
        style = rng.below(10)
        items = []
        for k in range(n):
            v = None if style < 4 else (rng.range(-1, 6) if style < 9 or rng.chance(1, 2) else None)
            items.append((k + 1 if not rng.chance(1, 25) else 1, v))
        return ('E', items)
    if r < 62 and defnames:
        return ('R', rng.choice(defnames))
    if r < 66:
        return ('Q', gen_ty(rng, depth - 1, names, defnames))
    return gen_cons(rng, depth - 1, defnames)


def gen_comp(rng, idx, kind, depth, defnames, tagstyle):
    t = gen_ty(rng, depth, None, defnames)
    tg = None
    if tagstyle == 'all' or (tagstyle == 'some' and rng.chance(1, 2)):
        tg = (rng.choice("cccap"), rng.choice([idx, idx, idx, rng.range(0, 3)]), rng.choice("ddie"))
    fl = 'm'
    if kind != 'C' and rng.chance(2, 5):
        fl = 'd' if (t[0] in "IB" and rng.chance(1, 2)) else 'o'
    name = idx + 1 if not rng.chance(1, 40) else 1
    return (name, tg, fl, t)


def gen_cons(rng, depth, defnames, kind=None):
    kind = kind or rng.choice("STC")
    n1 = rng.range(1, 4)
    tagstyle = rng.choice(['none', 'none', 'some', 'all'])
    idx = 0
    r1 = []
    for _ in range(n1):
        r1.append(gen_comp(rng, idx, kind, depth, defnames, tagstyle)); idx += 1
    ext, r2 = None, []
    if rng.chance(1, 3):
        ext = []
        for _ in range(rng.below(3)):
            ext.append(gen_comp(rng, idx, kind, depth, defnames, tagstyle)); idx += 1
        for _ in range(rng.below(2)):
            r2.append(gen_comp(rng, idx, kind, depth, defnames, tagstyle)); idx += 1
    return (kind, r1, ext, r2)


def gen_module(rng):
    tagging = rng.choice("EIA")
    defs = []
    names = []
    n = rng.range(2, 5)
    for k in range(n):
        name = k + 1
        r = rng.below(10)
        if r < 2:
            t = rng.choice([B, I, N, O])
        elif r < 3 and names:
            t = ('R', rng.choice(names))
        else:
            t = gen_cons(rng, 2, names + [name] if rng.chance(1, 6) else names)
        tg = None
        if rng.chance(1, 6):
            tg = (rng.choice("ca"), rng.range(0, 3), rng.choice("ddie"))
        defs.append((name, tg, t))
        names.append(name)
    return (tagging, defs)


def set_comp(t, i, c):
    cs = all_comps(t)
    cs[i] = c
    return with_comps(t, cs)


def collision_kinds():
    """(label, component i, component j) — types/tags to plant at two positions"""
    ch = ('C', [(1, None, 'm', I), (2, None, 'm', B)], None, [])
    chx = lambda t: ('C', [(1, None, 'm', t)], [], [])
    K = []
    K.append(("prim", (None, I), (None, I)))
    for mi, mj in (("d", "d"), ("i", "e"), ("e", "i")):
        K.append(("tag-" + mi + mj, (('c', 5, mi), B), (('c', 5, mj), I)))
    K.append(("class-same", (('a', 5, 'd'), B), (('a', 5, 'd'), I)))
    K.append(("class-diff", (('a', 5, 'd'), B), (('c', 5, 'd'), I)))          # distinct: control
    K.append(("num-diff", (('c', 5, 'd'), B), (('c', 6, 'd'), B)))            # distinct: control
    K.append(("inline-choice", (None, ch), (None, I)))
    K.append(("inline-choice-r", (None, I), (None, ch)))
    K.append(("refchain", (None, ('R', AUX + 1)), (None, I)))
    K.append(("refchain-r", (None, I), (None, ('R', AUX + 1))))
    K.append(("named-choice", (None, ('R', AUX + 3)), (None, I)))
    K.append(("named-choice-r", (None, I), (None, ('R', AUX + 3))))
    K.append(("named-choice-chain", (None, ('R', AUX + 5)), (None, B)))
    K.append(("ref-vs-named-choice", (None, ('R', AUX + 3)), (None, ('R', AUX + 2))))
    K.append(("ref-vs-named-choice-r", (None, ('R', AUX + 2)), (None, ('R', AUX + 3))))   # where the marks bite
    K.append(("two-named-choices", (None, ('R', AUX + 3)), (None, ('R', AUX + 5))))
    K.append(("tagged-ref", (None, ('R', AUX + 4)), (('c', 7, 'e'), B)))
    K.append(("tagged-choice", (('c', 5, 'd'), ch), (('c', 5, 'd'), N)))
    K.append(("ext-choices", (None, chx(I)), (None, chx(B))))
    K.append(("univ-manual", (('u', 2, 'd'), B), (None, I)))
    K.append(("distinct", (None, O), (None, N)))                              # control
    return K


def inject_collision(m, site, i, j, kind, variant):
    label, (tgi, tyi), (tgj, tyj) = kind
    t = get_at(m, site)
    cs = all_comps(t)
    is_seq = t[0] == 'S'

    def f(t):
        cs = all_comps(t)
        ci, cj = cs[i], cs[j]
        cs[i] = (ci[0], tgi, ci[2] if tyi[0] in "IBN" or ci[2] != 'd' else 'o', tyi)
        cs[j] = (cj[0], tgj, cj[2] if tyj[0] in "IBN" or cj[2] != 'd' else 'o', tyj)
        if t[0] == 'S' and variant.startswith("run"):
            for k in range(i, j):
                c = cs[k]
                if c[2] == 'm':
                    cs[k] = (c[0], c[1], 'd' if (c[3][0] in "I" and (k % 2)) else 'o', c[3])
        if variant.endswith("manual"):
            others = [k for k in range(len(cs)) if k not in (i, j)]
            if others:
                k = others[0]
                c = cs[k]
                cs[k] = (c[0], ('c', 30, 'd'), c[2], c[3])
            else:
                nt = with_comps(t, cs)
                return (nt[0], nt[1], nt[2], nt[3] + [(77, ('c', 30, 'd'), 'm', N)])
        return with_comps(t, cs)
    m2 = rewrite(m, site, f)
    if variant.endswith("auto") or variant.endswith("manual"):
        m2 = ('A', m2[1])
    else:
        m2 = (variant[-1], m2[1])
    return add_defs(m2, aux_defs())


def fixed_corpus():
    """hand-written modules: the witnesses of the recorded findings and the
    boundary cases discussed in notes/design/C11.md"""
    ch = ('C', [(1, None, 'm', I), (2, None, 'm', B)], None, [])
    C = []
    # marks bug: SET { a T1, b T2 } with T1 ::= INTEGER, T2 ::= CHOICE { INTEGER, BOOLEAN }
    C.append(("w-refmark", ('E', [(1, None, I), (2, None, ch), (3, None, ('T', [(1, None, 'm', ('R', 1)), (2, None, 'm', ('R', 2))], None, []))])))
    C.append(("w-refmark-swapped", ('E', [(1, None, I), (2, None, ch), (3, None, ('T', [(1, None, 'm', ('R', 2)), (2, None, 'm', ('R', 1))], None, []))])))
    C.append(("w-refmark-choice", ('I', [(1, None, I), (2, None, ch), (3, None, ('C', [(1, None, 'm', ('R', 1)), (2, None, 'm', ('R', 2))], None, []))])))
    C.append(("w-refmark-seq", ('E', [(1, None, I), (2, None, ch), (3, None, ('S', [(1, None, 'o', ('R', 1)), (2, None, 'm', ('R', 2))], None, []))])))
    # left recursion
    C.append(("w-leftrec", ('E', [(1, None, ('C', [(1, None, 'm', ('R', 1)), (2, None, 'm', N)], None, []))])))
    C.append(("w-leftrec-later", ('E', [(1, None, ('C', [(2, None, 'm', N), (1, None, 'm', ('R', 1))], None, []))])))
    C.append(("w-leftrec-single", ('E', [(1, None, ('C', [(1, None, 'm', ('R', 1))], None, []))])))
    C.append(("w-leftrec-used", ('E', [(1, None, ('C', [(1, None, 'm', ('R', 1))], None, [])), (2, None, ('T', [(1, None, 'm', ('R', 1)), (2, None, 'm', I)], None, []))])))
    C.append(("w-leftrec-auto", ('A', [(1, None, ('C', [(1, None, 'm', ('R', 1)), (2, None, 'm', N)], None, []))])))
    C.append(("w-refcycle", ('E', [(1, None, ('R', 2)), (2, None, ('R', 1)), (3, None, ('T', [(1, None, 'm', ('R', 1)), (2, None, 'm', I)], None, []))])))
    C.append(("w-refcycle-alone", ('E', [(1, None, ('R', 2)), (2, None, ('R', 1))])))
    # enumerations
    C.append(("w-enum-mixed", ('E', [(1, None, ('E', [(1, 1), (2, None), (3, 2)]))])))
    C.append(("w-enum-mixed-ok", ('E', [(1, None, ('E', [(1, 1), (2, None), (3, 0)]))])))
    C.append(("w-enum-dupval", ('E', [(1, None, ('E', [(1, 3), (2, 3)]))])))
    C.append(("w-enum-dupname", ('E', [(1, None, ('E', [(1, None), (2, None), (1, None)]))])))
    C.append(("w-enum-neg", ('E', [(1, None, ('E', [(1, -1), (2, None)]))])))
    # extension markers
    C.append(("x-opt-ext-mand", ('E', [(1, None, ('S', [(1, None, 'o', I)], [(2, None, 'm', I)], []))])))
    C.append(("x-two-markers", ('E', [(1, None, ('S', [(1, None, 'o', I)], [(3, None, 'm', B)], [(2, None, 'm', I)]))])))
    C.append(("x-adds-collide", ('E', [(1, None, ('S', [(1, None, 'm', B)], [(2, None, 'o', I), (3, None, 'm', I)], []))])))
    C.append(("x-52.7-ex1", ('E', [(1, None, ('T', [(1, None, 'm', I), (2, None, 'm', ('C', [(1, None, 'm', B), (2, None, 'm', N)], [], []))], None, []))])))
    C.append(("x-52.7-ex2", ('E', [(1, None, ('T', [(1, None, 'm', I), (2, None, 'm', ('C', [(1, None, 'm', B), (2, None, 'm', N)], [], []))], [], []))])))
    C.append(("x-52.7-ex3", ('E', [(1, None, ('T', [(1, None, 'm', ('C', [(1, None, 'm', I)], [], [])), (2, None, 'm', ('C', [(1, None, 'm', B)], [], []))], None, []))])))
    C.append(("x-seq-optchoice-marker", ('E', [(1, None, ('S', [(1, None, 'o', ('C', [(1, None, 'm', B)], [], []))], [], []))])))
    # tagging
    C.append(("t-implicit-choice", ('E', [(1, None, ('S', [(1, ('c', 1, 'i'), 'm', ('C', [(1, None, 'm', I)], None, []))], None, []))])))
    C.append(("t-implicit-choice-ref", ('E', [(1, None, ch), (2, None, ('S', [(1, ('c', 1, 'i'), 'm', ('R', 1))], None, []))])))
    C.append(("t-implicit-top", ('E', [(1, ('c', 1, 'i'), ('C', [(1, None, 'm', I)], None, []))])))
    C.append(("t-default-choice-implicit-module", ('I', [(1, ('c', 1, 'd'), ('C', [(1, None, 'm', I)], None, []))])))
    C.append(("t-auto-manual", ('A', [(1, None, ('S', [(1, ('c', 0, 'd'), 'o', I), (2, None, 'o', I), (3, None, 'm', I)], None, []))])))
    C.append(("t-auto", ('A', [(1, None, ('S', [(1, None, 'o', I), (2, None, 'o', I), (3, None, 'm', I)], None, []))])))
    C.append(("t-28.4", ('A', [(1, None, ('S', [(1, None, 'm', I)], [(2, ('c', 1, 'd'), 'm', I)], []))])))
    C.append(("t-auto-ref-into-autotagged", ('A', [(1, None, ch), (2, None, ('T', [(1, ('c', 0, 'd'), 'm', I), (2, None, 'm', ('R', 1))], None, []))])))
    C.append(("t-duptype", ('E', [(1, None, I), (1, None, B)])))
    C.append(("q-seqof-inline", ('E', [(1, None, ('Q', ('T', [(1, None, 'm', I), (2, None, 'm', I)], None, [])))])))
    C.append(("q-undef", ('E', [(1, None, ('S', [(1, None, 'm', ('R', 9))], None, []))])))
    C.append(("q-undef-seqof", ('E', [(1, None, ('Q', ('R', 9)))])))
    C.append(("q-recursive-seq", ('E', [(1, None, ('S', [(1, None, 'o', ('R', 1))], None, []))])))
    return C


def generate(rng, tier, model):
    """returns list of (label, module)"""
    nbase = 8 if tier == "quick" else 40
    budget = 1000 if tier == "quick" else 8000
    cases = list(fixed_corpus())
    # random modules; the spec-valid ones become bases for the injections
    cands = [gen_module(rng) for _ in range(nbase * 8)]
    rc, mo, me = run_lines(model, [mod_line(m) for m in cands])
    if rc != 0 or len(mo) != len(cands):
        raise RuntimeError("model driver failed on candidates: " + me)
    bases, others = [], []
    for m, o in zip(cands, mo):
        f = dict(kv.split("=", 1) for kv in o.split())
        if f["spec"] == "OK" and f["wf"] == "1" and f["model"] == "ACCEPT" and cons_sites(m):
            bases.append(m)
        else:
            others.append(m)
    # prefer bases with more places to inject at
    bases.sort(key=lambda m: -sum(len(all_comps(get_at(m, s))) for s in cons_sites(m)))
    bases = bases[:nbase]
    for m in bases:
        cases.append(("valid", m))
    nrand = 40 if tier == "quick" else 600
    for m in others[:nrand]:
        cases.append(("random", m))
    inj = []
    kinds = collision_kinds()
    for bi, m in enumerate(bases):
        for site in cons_sites(m):
            t = get_at(m, site)
            n = len(all_comps(t))
            for i in range(n):
                for j in range(i + 1, n):
                    for kind in kinds:
                        variants = ["plain-E", "plain-I", "auto", "manual"]
                        if t[0] == 'S':
                            variants += ["run-E", "run-I", "run-auto", "run-manual"]
                        for v in variants:
                            inj.append(("coll:%s:%s:%s" % (t[0], kind[0], v), (m, site, i, j, kind, v)))
                    inj.append(("dupident:" + t[0], (m, site, i, j)))
            for i in range(n):
                inj.append(("dangling:comp", (m, site, i)))
        for site in enum_sites(m):
            n = len(get_at(m, site)[1])
            for i in range(n):
                for j in range(i + 1, n):
                    inj.append(("dupenumname:in-place", (m, site, i, j)))
                    inj.append(("dupenumval:in-place", (m, site, i, j)))
        # enumerations of each style appended to the base, every pair of items
        for n in (2, 3, 4):
            for style in ("valued", "unvalued", "mixed", "mixed2"):
                items = []
                for k in range(n):
                    v = {"valued": 2 * k - 1, "unvalued": None, "mixed": (None if k % 2 else 3 * k), "mixed2": (None if k % 2 == 0 else k + 5)}[style]
                    items.append((k + 1, v))
                m2 = add_defs(m, [(906, None, ('E', items))])
                site = (len(m2[1]) - 1, ())
                inj.append(("enum-valid:" + style, (m2,)))
                for i in range(n):
                    for j in range(i + 1, n):
                        inj.append(("dupenumname:" + style, (m2, site, i, j)))
                        inj.append(("dupenumval:" + style, (m2, site, i, j)))
        inj.append(("dangling:alias", (m,)))
        inj.append(("dangling:seqof", (m,)))
    inj = rng.shuffle(inj)
    # keep the catalogue balanced: a share of the budget per fault family,
    # round-robin over the labels inside a family
    room = max(0, budget - len(cases))
    share = {"coll": 0.62, "dupident": 0.12, "dangling": 0.08, "dupenumname": 0.07, "dupenumval": 0.08, "enum-valid": 0.03}
    picked = []
    for fam in sorted(share):
        by = {}
        for lab, a in inj:
            if lab.split(":")[0] == fam:
                by.setdefault(lab, []).append(a)
        labs = sorted(by)
        want = int(room * share[fam])
        k = got = 0
        while got < want and any(by.values()):
            lab = labs[k % len(labs)]
            k += 1
            if by[lab]:
                picked.append((lab, by[lab].pop()))
                got += 1
    for lab, a in picked:
        cases.append((lab, realize(lab, a)))
    return cases


def realize(lab, a):
    if lab.startswith("coll:"):
        return inject_collision(*a)
    if lab.startswith("dupident"):
        m, site, i, j = a

        def f(t):
            cs = all_comps(t)
            c = cs[j]
            cs[j] = (cs[i][0], c[1], c[2], c[3])
            return with_comps(t, cs)
        return rewrite(m, site, f)
    if lab == "dangling:comp":
        m, site, i = a

        def f(t):
            cs = all_comps(t)
            c = cs[i]
            cs[i] = (c[0], c[1], 'o' if c[2] == 'd' else c[2], ('R', 999))
            return with_comps(t, cs)
        return rewrite(m, site, f)
    if lab.startswith("enum-valid"):
        return a[0]
    if lab.startswith("dupenumname"):
        m, site, i, j = a

        def f(t):
            its = list(t[1])
            its[j] = (its[i][0], its[j][1])
            return ('E', its)
        return rewrite(m, site, f)
    if lab.startswith("dupenumval"):
        m, site, i, j = a

        def f(t):
            its = list(t[1])
            v = its[i][1] if its[i][1] is not None else 4
            its[i] = (its[i][0], v)
            its[j] = (its[j][0], v)
            return ('E', its)
        return rewrite(m, site, f)
    if lab == "dangling:alias":
        return add_defs(a[0], [(998, None, ('R', 999))])
    if lab == "dangling:seqof":
        return add_defs(a[0], [(998, None, ('Q', ('R', 999)))])
    raise ValueError(lab)


# ---------------------------------------------------------------- running asn1c
DIAG = [("clashes with expression", "duptype"), ("ASN.1 expression \"", "duptype"),
        ("Clash detected", "identclash"),
        ("collides with previous values", "enumvalue"),
        ("Unknown type", "undefref"),
        ("must be EXPLICIT", "implicit"),
        ("extensions are tagged", "exttag"),
        ("has the same tag", "tagclash"),
        ("Consider adding AUTOMATIC TAGS", None)]
MODEL2DIAG = {"duptype": "duptype", "dupident": "identclash", "enumname": "identclash", "enumvalue": "enumvalue",
              "undefref": "undefref", "implicit": "implicit", "exttag": "exttag", "tagclash": "tagclash"}
SPEC2DIAG = {"tags": "tagclash", "ident": "identclash", "enumname": "identclash", "enumvalue": "enumvalue", "ref": "undefref"}


def run_asn1c(args):
    idx, text, asn1c, skel, root = args
    d = os.path.join(root, "m%05d" % idx)
    os.makedirs(d)
    open(os.path.join(d, "m.asn1"), "w").write(text)
    try:
        p = subprocess.run([asn1c, "-S", skel, "-fcompound-names", "m.asn1"], cwd=d, stdout=subprocess.PIPE, stderr=subprocess.PIPE,
                           text=True, errors="replace", timeout=120)
        rc, err = p.returncode, p.stderr
    except subprocess.TimeoutExpired:
        rc, err = -999, "TIMEOUT"
    files = sorted(f for f in os.listdir(d) if f.endswith(".c") or f.endswith(".h"))
    shutil.rmtree(d, ignore_errors=True)
    classes, unknown = set(), []
    for line in err.split("\n"):
        if not line.startswith("FATAL:") and "rror" not in line:
            continue
        for pat, cl in DIAG:
            if pat in line:
                if cl:
                    classes.add(cl)
                break
        else:
            if line.startswith("FATAL:") or "error" in line.lower():
                unknown.append(line[:160])
    diag = [l for l in err.split("\n") if l.strip() and not re.match(r"(Compiled|Copied|Generated|Symlinked) ", l)]
    if rc < 0:
        verdict = "CRASH"
    elif rc == 0:
        verdict = "ACCEPT"
    else:
        verdict = "REJECT"
    return {"rc": rc, "verdict": verdict, "classes": sorted(classes), "unknown": unknown, "nfiles": len(files),
            "ndiag": len(diag), "stderr_tail": "\n".join(diag[-6:])[-800:]}


def main(tier):
    run = Run("C11", tier)
    rng = Rng(run.seed)
    # the fragment is authoritative for this property (known_findings.json is assembled from it)
    frag = os.path.join(VERIF, "findings.d", "C11.json")
    if os.path.exists(frag):
        have = {fd["id"] for fd in run.findings}
        run.findings += [fd for fd in json.load(open(frag)) if fd.get("status") == "open" and fd["id"] not in have]
    ok, out = coq_build()
    nthm, ndis, axioms, names, plog = obligations("C11") if ok else (0, 0, set(), [], out)
    gate = grep_gate()
    if not ok or ndis != nthm or gate or nthm == 0:
        run.violation("proof:Properties_C11", {"what": "Coq development does not build or an obligation is open",
                                               "log_tail": (out if not ok else plog)[-2000:], "grep_gate": gate}, no_input=True)
    model = model_build()
    try:
        asn1c, skel = build_asn1c()
    except BuildError as e:
        run.violation("build:asn1c", {"what": str(e)[-2000:]}, no_input=True)
        return run.finish("proof", (nthm, ndis))

    cases = generate(rng, tier, model)
    # drop duplicates (same module text), keep the first label
    seen, uniq = set(), []
    for lab, m in cases:
        ln = mod_line(m)
        if ln in seen:
            continue
        seen.add(ln)
        uniq.append((lab, m, ln))
    cases = uniq
    lines = [c[2] for c in cases]
    rc, mo, me = run_lines(model, lines)
    if rc != 0 or len(mo) != len(lines) or any(o.startswith("EXN") or o == "BADCMD" for o in mo):
        bad = [o for o in mo if o.startswith("EXN") or o == "BADCMD"][:3]
        raise RuntimeError("model driver failed: rc=%s %d/%d %s %s" % (rc, len(mo), len(lines), bad, me))
    root = os.path.join(scratch(), "c11runs")
    os.makedirs(root, exist_ok=True)
    texts = [mod_txt(c[1]) for c in cases]
    with ThreadPoolExecutor(max_workers=NCPU) as ex:
        results = list(ex.map(run_asn1c, [(i, texts[i], asn1c, skel, root) for i in range(len(cases))]))

    for (lab, m, ln), o, r, text in zip(cases, mo, results, texts):
        f = dict(kv.split("=", 1) for kv in o.split())
        run.case(ln)
        fam = lab.split(":")[0] if not lab.startswith("coll:") else "coll:" + lab.split(":")[2]
        run.count("kind:" + fam)
        run.count("tagging:" + m[0])
        run.count("asn1c:" + r["verdict"])
        rep = {"label": lab, "module_asn1": text, "model_line": ln, "model": o, "asn1c": r,
               "replay_cmd": "write module_asn1 to m.asn1 in an empty directory; asn1c -S <skeletons> -fcompound-names m.asn1; echo $?"}
        # ---- what a run must look like, whatever the verdict
        if r["verdict"] == "REJECT" and (r["nfiles"] != 0 or r["ndiag"] == 0):
            run.violation("oracle:reject-writes-no-code-and-diagnoses", dict(rep, what="non-zero exit but files were written or nothing was printed"))
        if r["verdict"] == "ACCEPT" and r["nfiles"] == 0:
            run.violation("oracle:accept-writes-code", dict(rep, what="exit 0 but no .c/.h written"))
        # ---- faithfulness: model vs asn1c
        mv = f["model"].split(":")[0]
        mcls = sorted({MODEL2DIAG[x] for x in f["model"].split(":")[1].split(",")}) if mv == "REJECT" else []
        faithful = (mv == r["verdict"]) and (mv != "REJECT" or (mcls == r["classes"] and not r["unknown"]))
        # ---- oracle: spec vs asn1c
        scls = sorted({SPEC2DIAG[x] for x in f["spec"].split(",")}) if f["spec"] != "OK" else []
        spec_accept = f["spec"] == "OK" and f["wf"] == "1"
        run.count("spec:" + ("accept" if spec_accept else ("reject" if f["wf"] == "1" else "reject-outside-catalogue")))
        oracle_bad = None
        known = None
        if r["verdict"] == "CRASH":
            oracle_bad = "asn1c died (signal %d) instead of exiting with a verdict" % (-r["rc"])
            if f["cends"] == "0" or f["fix"] == "CRASH":
                known = "C11-leftrec-crash"
        elif spec_accept and r["verdict"] == "REJECT":
            oracle_bad = "asn1c rejects a module in which none of the listed faults is present"
            if f["enummixed"] == "1" and r["classes"] == ["enumvalue"]:
                known = "C11-enum-autonumber"
        elif not spec_accept and r["verdict"] == "ACCEPT":
            oracle_bad = "asn1c accepts a module the specification rules out (%s)" % f["spec"]
            if f["spec"] == "tags" and f["wf"] == "1" and f["tagref"] == "1" and f["choiceref"] == "1":
                known = "C11-refmark-missed-clash"
        elif r["verdict"] == "REJECT" and f["wf"] == "1":
            # both reject: the classes of fault must agree too
            a = set(r["classes"])
            s = set(scls)
            if a != s:
                extra, missing = a - s, s - a
                if missing == {"tagclash"} and not extra and f["tagref"] == "1" and f["choiceref"] == "1":
                    oracle_bad, known = "tag clash not diagnosed (other faults were)", "C11-refmark-missed-clash"
                elif extra == {"enumvalue"} and not missing and f["enummixed"] == "1":
                    oracle_bad, known = "enumeration value clash diagnosed that the module does not contain", "C11-enum-autonumber"
                elif (extra - {"enumvalue"} == set() and missing - {"tagclash"} == set() and f["enummixed"] == "1"
                      and f["tagref"] == "1" and f["choiceref"] == "1"):
                    oracle_bad, known = "both recorded deviations at once", "C11-refmark-missed-clash"
                else:
                    oracle_bad = "diagnosed fault classes %s differ from the specification's %s" % (sorted(a), sorted(s))
        if oracle_bad:
            run.count("oracle_deviation")
            if known and any(fd["id"] == known for fd in run.findings):
                run.known_finding(known, lab)
                run.count("known:" + known)
            else:
                run.violation("oracle:distinct_spec", dict(rep, what=oracle_bad, spec=f["spec"], wf=f["wf"]))
        if not faithful:
            run.count("model_vs_code_diff")
            run.violation("correspondence:Fix.Tags.check", dict(rep, what="extracted model and asn1c disagree",
                                                               model_verdict=f["model"], model_classes=mcls),
                          no_input=(oracle_bad is None or (known is not None)))
    for i in (0, len(cases) // 3, 2 * len(cases) // 3, len(cases) - 1):
        run.sample({"label": cases[i][0], "asn1": texts[i], "model": mo[i], "asn1c": {k: results[i][k] for k in ("rc", "verdict", "classes", "nfiles")}})
    tb = ["Coq 8.16.1 kernel + vm_compute (refuted witnesses only)",
          "axioms under Print Assumptions: " + (", ".join(sorted(axioms)) or "none (Closed under the global context)"),
          "extraction: ExtrOcamlBasic only; OCaml 4.13.1; ocaml/drv_c11.ml (token parser for modules)",
          "checks/c11.py: generator, ASN.1 printer, classification of asn1c diagnostics by message text, finding predicates (extracted from coq/Fix/Distinct.v: has_tagref/has_choiceref/enum_mixed; compile_ends)",
          "the asn1c parser (the printed sublanguage), gcc build of the repository working tree",
          "executable oracle distinct_specb uses reference-chain depth = number of definitions + 1"]
    return run.finish("proof", (nthm, ndis), trusted_base=tb,
                      checker_cmd="make -C /verif all && coqc -Q coq A1 coq/Props/Properties_C11.v",
                      extra_cov={"theorems": names,
                                 "rule": "fixed witnesses + spec-valid random bases + single-fault injections (collision kinds x every component pair x plain/auto/manual/run variants, duplicate identifier at every pair, duplicate enumeration name/value at every pair, dangling reference at every component/alias/element), round-robin over the catalogue up to the tier's budget; one asn1c process per module",
                                 "traces_validated_against_impl": len(cases)},
                      assumptions=["model of libasn1fix is hand-written; tied by differential runs only on the generated modules",
                                   "single-module specifications of the algebra in notes/design/C11.md; no constraints, parameterization, IMPORTS, COMPONENTS OF, ANY, SET OF",
                                   "diagnostic classes are recognised by message text"])


if __name__ == "__main__":
    sys.exit(main(sys.argv[1] if len(sys.argv) > 1 else "quick"))
