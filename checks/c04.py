"""C04 — decoding arbitrary bytes is safe, terminates and reports consistently.
Theorems: coq/Props/Properties_C04.v (for the reference decoders of coq/Rt: the
rest is a suffix of the input, consumed <= size, the leaf fetchers stay inside
the buffer, loop fuel is never the reason of a failure when items consume input,
accepted values are well-shaped).  The memory safety of the compiled C is a
runtime fact: it is OBSERVED here with ASan+UBSan+LSan and an allocation ledger
on mutated inputs, not proved (claim level: partial).
Tie, five layers:
 (member-lookup layer) type shapes that select each branch of the member lookup of the BER decoders of SEQUENCE / SET /
   CHOICE (run of OPTIONAL members, bsearch in the tag-to-member table, untagged CHOICE members, a tag re-used behind a
   mandatory member) under STRUCTURAL faults (a member TLV twice, moved, swapped, repeated, inserted) and the analogous
   element / presence-bit faults of XER, UPER, OER (lib/c04_tagmap.py, `d4m`): besides the common oracle, an RC_OK result
   must hold every TLV that was accepted; coq/Rt/SafetyTagMap.v run on the tables read from the emitted descriptors
   (`tm4`) must give the C's verdict and set of members.
 (leaf layer) the four functions that skip what an extensible type does not know (ber_skip_length,
   uper_open_type_skip, oer_open_type_skip, xer_skip_unknown) through harness/leafdrv_c04.inc against
   coq/Rt/SafetySkip.v: well-formed nested TLVs / open types cut at every offset and damaged.
 (extensible-type layer) families of extensible SEQUENCE / SET / CHOICE, plain and nested (lib/c04_ext.py):
   what a newer member of the family wrote is read by every member, in every syntax, cut at every offset,
   with `d4x`: three decodes per input (exact-size poisoned block, then 32 octets 00 / ff behind the input:
   the answer may not depend on them).
 (model layer) modules of the modelled algebra (lib/modgen.py): valid DER / UPER /
   OER / XER encodings of generated values are mutated (lib/c04_util.py) and fed
   to the C decoders through `d4` (harness/moddrv_c04.inc: exact-size poisoned
   buffer, print + validate + re-encode + free after every decode, live-block
   delta).  Oracle on the C alone: survival, RC in {OK,MORE,FAIL}, consumed <=
   size, no live block left, RC_OK results re-encode unless a constraint is
   violated, a proper prefix of a valid encoding is never RC_OK.  One-directional
   refinement: whatever the extracted reference decoder accepts, the C must
   accept with the same consumed count and the same value.
 (wide layer) modules over the wide algebra incl. recursion (lib/widegen.py) with
   values from asn_random_fill, same mutators, all five decoders: survival and
   consistency only."""
import sys, os, re, json, time
sys.path.insert(0, os.path.join(os.path.dirname(os.path.abspath(__file__)), "..", "lib"))
from vlib import *
from modcorpus import *
from widegen import WGen
from c04_util import *
import c04_ext as XE
import c04_tagmap as TM
import c04_frag as FR
import c02 as C02
import c01 as C01

INC = os.path.join(HARNESS, "moddrv_c04.inc")
WRAP = ["-Wl,--wrap=malloc,--wrap=calloc,--wrap=realloc,--wrap=free"]
SYN_KEY = {"ber": "der", "uper": "uvalid", "oer": "oer", "xer": "xer"}
MODEL_CMD = {"ber": "berdec %s %s", "uper": "uperdec 0 %s %s", "oer": "oerdec %s %s"}
MODEL_MAXVAL = 4000         # characters of a value string the model is asked to re-encode
MODEL_MAXLEN = 300          # octets; the reference BER decoder is quadratic in the number of TLVs


def tlog(msg):
    if os.environ.get("C04_VERBOSE"):
        log("[%6.1fs] %s" % (time.time() - T0, msg))


def own_findings():
    p = os.path.join(VERIF, "findings.d", "C04.json")
    if not os.path.exists(p):
        return []
    return [f for f in json.load(open(p)) if f.get("status") == "open"]


def budgets(tier, size):
    """mutant budget per (value, syntax), smaller for long encodings"""
    q = tier == "quick"
    if size > 2000:
        return {"tlflip": 6, "lenform": 6, "lenpm": 1, "tagform": 2, "indef": 1, "generic": 2, "headbytes": 4, "trunc_every": 8, "trunc_sample": 4}
    if size > 300:
        return {"tlflip": 12, "lenform": 8, "lenpm": 2, "tagform": 4, "indef": 2, "generic": 4, "headbytes": 6, "trunc_every": 24, "trunc_sample": 8}
    if q:
        return {"tlflip": 40, "lenform": 14, "lenpm": 3, "tagform": 8, "indef": 3, "generic": 8, "headbytes": 6, "trunc_every": 120, "trunc_sample": 16}
    return {"tlflip": 100, "lenform": 30, "lenpm": 5, "tagform": 16, "indef": 5, "generic": 16, "headbytes": 10, "trunc_every": 300, "trunc_sample": 30}


def mutants(syn, b, rng, tier, others):
    bud = budgets(tier, len(b))
    base = b[:-1] if (syn == "xer" and b.endswith(b"\n")) else b      # C01-xer-trailing-newline: not part of the encoding proper
    out = [("valid", b)] + mut_truncate(base, rng, bud["trunc_every"], bud["trunc_sample"])
    if syn == "ber":
        out += mut_ber(b, rng, bud, others)
    elif syn == "xer":
        out += mut_xer(base, rng, bud, others)
    else:
        out += mut_oer_uper(b, rng, bud, others)
    out += random_strings(rng, 2 if tier == "quick" else 10, b)
    return out


def report_crash(run, m, line, meta, info, layer):
    what, rc, err = info
    site = stack_site(err)
    summ = re.findall(r"(SUMMARY: [^\n]*|runtime error: [^\n]*)", err or "")
    # asn1c emits check_permitted_alphabet_N for a UniversalString with ANY constraint (SIZE as well as FROM)
    if site and site[0].startswith("check_permitted_alphabet_") and any("left shift of" in x and "by 24 places" in x and "type 'int'" in x for x in summ) \
            and re.search(r"UniversalString\s*\(", m["text"]):
        run.known_finding("C04-generated-alphabet-shift", line)
        run.count("known_C04-generated-alphabet-shift")
        return
    hang = rc == 99 or (rc == -14 and "C04-HANG" in (err or ""))       # -14: the backstop of the hang guard (see c04_on_alarm)
    how = "did not terminate within its CPU budget (hang)" if hang else "died (rc=%s, %s): sanitizer report, abort or signal" % (rc, what)
    run.violation("crash:%s:%s" % (layer, (site[0] if site else ("HANG" if hang else what))),
                  {"what": "decoder process %s on a %s input" % (how, meta["kind"]),
                   "summary": summ[:3], "frames": site, "module": m["text"], "type": meta["tn"], "syntax": meta["syn"], "command_line": line,
                   "stderr_tail": (err or "")[-3000:],
                   "replay_cmd": "echo '<command_line>' | <moddrv of the module built with harness/moddrv_c04.inc>"})


def check_c_line(run, m, line, o, meta, layer, tainted=None):
    """the property evaluated on the C output of one `d4` line; returns the parsed result or None"""
    syn, kind, data, orig = meta["syn"], meta["kind"], meta["data"], meta["orig"]
    r = parse_d4(o)
    rep = {"module": m["text"], "type": meta["tn"], "syntax": syn, "mutation": kind, "command_line": line, "c": o,
           "valid_encoding": hexs(orig)[:400]}
    if r is None:
        run.violation("oracle:%s:result-line" % layer, dict(rep, what="decoder returned a code outside RC_OK/RC_WMORE/RC_FAIL or the driver line is malformed"))
        return None
    run.count("%s_%s_%s" % (layer, syn, r["rc"]))
    size = len(data)
    if r["consumed"] > size:
        run.violation("oracle:%s:consumed>size" % layer, dict(rep, what="consumed %d > size %d" % (r["consumed"], size)))
    if r["live"] != 0:
        run.violation("oracle:%s:leak" % layer, dict(rep, what="%d block(s) still live after ASN_STRUCT_FREE of the %s result" % (r["live"], r["rc"])))
    if r.get("slack") and r["slack"] != "same":
        run.violation("oracle:%s:reads-past-size" % layer, dict(rep, what="the answer depends on the octets BEHIND the %d octets the decoder was given: exact-size buffer -> %s %d, with 32 octets behind it -> %s"
                                                                    % (size, r["rc"], r["consumed"], r["slack"])))
    if r["rc"] == "OK" and layer == "wide":
        # no reference here: the value-level expectations (re-encodable, prefix never accepted) are only counted
        for k, c in (("der_encfail", r["der"].startswith("ENCFAIL") and r["ck"] == 0), ("re_fail", r["re"] == "FAIL" and r["ck"] == 0), ("prefix_ok", kind == "trunc")):
            if c:
                run.count("wide_%s_%s" % (syn, k))
    elif r["rc"] == "OK":
        if r["der"] == "-":
            run.violation("oracle:%s:ok-without-structure" % layer, dict(rep, what="RC_OK but no structure returned"))
        elif r["der"].startswith("ENCFAIL") and r["ck"] == 0:
            fid = tainted(meta, r) if tainted else None
            if fid:
                run.known_finding(fid, line)
                run.count("known_" + fid)
            else:
                run.violation("oracle:%s:not-reencodable" % layer, dict(rep, what="RC_OK, constraints hold, but the structure cannot be DER-encoded"))
        if r["re"] == "FAIL" and r["ck"] == 0 and not r["der"].startswith("ENCFAIL"):
            fid = tainted(meta, r) if tainted else None
            if fid:
                run.known_finding(fid, line)
                run.count("known_" + fid)
            else:
                run.violation("oracle:%s:not-reencodable(%s)" % (layer, syn), dict(rep, what="RC_OK, constraints hold, but the structure cannot be re-encoded in the syntax it was decoded from"))
        if kind == "trunc" and meta.get("strict_prefix", True):
            run.violation("oracle:%s:prefix-accepted" % layer, dict(rep, what="a proper prefix (%d of %d octets) of a valid encoding decoded with RC_OK" % (size, len(orig))))
        elif kind == "trunc":
            run.count("%s_%s_prefix_ok_cross_version" % (layer, syn))
    if kind == "trunc":
        run.count("%s_%s_prefix_%s" % (layer, syn, r["rc"]))      # RC_WMORE on every proper prefix is C05's statement: counted only
    return r


def reencode_taint(m):
    """known reasons for an accepted value not to be re-encodable in the syntax it came in"""
    def t(meta, r):
        tree = m["trees"].get(meta["tn"])
        if tree is None:
            return None
        if r["der"].startswith("ENCFAIL@"):
            # (an extensible CHOICE that meets an alternative it does not know is returned RC_OK with NOTHING selected; it
            # cannot be encoded and CHOICE_constraint says so: ck != 0.  Until /repo aaca4bb the checker of an enclosing
            # SEQUENCE never asked it (C08-sequence-early-return) and this was classified here; no classifier since.)
            return None
        if meta["syn"] == "uper" and C01.has_semi_lb(tree):
            return "C01-uper-semiconstrained-lb"
        if meta["syn"] in ("oer", "uper") and has_unsigned_native(tree) and der_has_negative_prim(r["der"]):
            return "C16-ulong-signed"
        if meta["syn"] == "uper":
            try:
                acc = BerAccepted(tree, bytes.fromhex(r["der"]))
                if acc.lists_above_bound() or acc.ints_above_bound() or any(t[0] == "o" for (t, n) in acc.out_of_constraint()):
                    return "C04-uper-field-above-bound"
            except (ValueError, IndexError):
                pass
        return None
    return t


def der_has_negative_prim(derhex):
    """the DER the C printed holds a primitive TLV whose contents start with the sign bit set (an unsigned long >= 2^63 printed
    through the signed path)"""
    try:
        b = bytes.fromhex(derhex)
    except ValueError:
        return False
    return any((not cons) and c1 > c0 and b[c0] >= 0x80 for (t0, l0, c0, c1, cons, d) in ber_walk(b))


PROBE_TY = "c{x250i8[*,*,0]x254b4x65537n20x3o16[0,*,0]i8[0,7,0]}"      # MS0.CH1: canonical order is not an involution


def uper_modes(model, cases, mods):
    """which reading of the model is the C's for each case: /repo commit b565b4c (fix of the swapped CHOICE order
    tables) made the C write the canonical CHOICE index; coq/Rt/Uper.v follows with `cstd` (std=false then differs from
    std=true only in the semi-constrained INTEGER).  While a model without that change is checked out, std=false still
    has the old index: then std=true is the C's reading for types without semi-constrained INTEGER, and types with both
    features have no faithful reading (UPER refinement skipped, the C's own encoding seeds the mutants)."""
    o = run_lines(model, ["uper 0 %s C2:N" % PROBE_TY, "uper 1 %s C2:N" % PROBE_TY])[1]
    model_has_fix = (o[0] == o[1])
    byname = {m["name"]: m for m in mods}
    for c in cases:
        tree = c["mod"]["trees"][c["tn"]]
        if model_has_fix or not C02.has_noninvolutive_choice(tree):
            c["umode"], c["uvalid"] = 0, c["uper"]
        elif not C02.has_semi(tree):
            c["umode"], c["uvalid"] = 1, c["uperstd"]
        else:
            c["umode"], c["uvalid"] = None, None
    return model_has_fix


def model_layer(run, rng, tier, model):
    nm, nt, nv = (8, 5, 5) if tier == "quick" else (20, 6, 8)
    mods, cases = build_corpus(run, rng, nm, nt, nv, tier, tag="mods", moddrv_extra=INC, extra_ldflags=WRAP)
    tlog("model: corpus of %d modules, %d cases built" % (len(mods), len(cases)))
    run.cov["model_has_choice_order_fix"] = uper_modes(model, cases, mods)
    bm = by_module(cases)
    for m in mods:
        if not m.get("exe"):
            run.violation("build:module", {"what": "a valid generated module was rejected or its code does not compile", "module": m["text"],
                                           "asn1c_out": m.get("asn1c_out", "")[-1200:], "build_log": m.get("build_log", "")[-1200:]}, no_input=True)
    jobs = []
    live = [m for m in mods if m.get("exe")]
    # XER text of every value, from the C
    xjobs = [(m["exe"], [l for c in bm.get(m["name"], []) for l in ("xcode %s der %s xer" % (c["tn"], c["der"]), "xcode %s der %s uper" % (c["tn"], c["der"]))])
             for m in live]
    xres = run_many(xjobs)
    for m, (exe, xl), (xo, xe) in zip(live, xjobs, xres):
        cs = bm.get(m["name"], [])
        for k, c in enumerate(cs):
            o, ou = xo[2 * k], xo[2 * k + 1]
            c["xer"] = o.split()[1] if o.startswith("OK ") else "NONE"
            if c["uvalid"] is None:
                c["uvalid"] = ou.split()[1] if ou.startswith("OK ") else "NONE"
        for k, info in xe.items():
            report_crash(run, m, xl[k], {"tn": xl[k].split()[1], "syn": "ber", "kind": "valid", "data": b""}, info, "model")
        lines, metas, seen = [], [], set()
        bytype = {}
        for c in cs:
            bytype.setdefault(c["tn"], []).append(c)
        for c in cs:
            for syn in ("ber", "uper", "oer", "xer"):
                h = c.get(SYN_KEY[syn], "NONE")
                if h == "NONE" or h.startswith("ENCFAIL"):
                    continue
                b = b"" if h == "-" else bytes.fromhex(h)
                others = [bytes.fromhex(o[SYN_KEY[syn]]) for o in bytype[c["tn"]] if o is not c and o.get(SYN_KEY[syn], "NONE") not in ("NONE", "-")]
                others = cap(others, 3, rng) + [bytes.fromhex(o[SYN_KEY[syn]]) for o in cap(cs, 2, rng) if o.get(SYN_KEY[syn], "NONE") not in ("NONE", "-")]
                for kind, data in mutants(syn, b, rng, tier, others):
                    key = (c["tn"], syn, data)
                    if key in seen or (kind == "trunc" and len(data) >= len(b)):
                        continue
                    seen.add(key)
                    lines.append("d4 %s %s %s" % (c["tn"], syn, hexs(data)))
                    metas.append({"case": c, "tn": c["tn"], "syn": syn, "kind": kind, "data": data, "orig": b})
        jobs.append((m, lines, metas))
    tlog("model: %d mutant lines generated" % sum(len(j[1]) for j in jobs))
    cres = run_many([(m["exe"], lines) for m, lines, metas in jobs], timeout=(150 if tier == "quick" else 1500))
    tlog("model: C side done, %d process deaths" % sum(len(e) for o, e in cres))
    allres = []
    mlines, mwhere = [], []
    for (m, lines, metas), (outs, errs) in zip(jobs, cres):
        taint = reencode_taint(m)
        results = []
        for i, (l, o, me) in enumerate(zip(lines, outs, metas)):
            run.case(l)
            run.count("mut_" + me["kind"].split("+")[-1])
            if i in errs and errs[i][0] == "CRASH":
                report_crash(run, m, l, me, errs[i], "model")
                results.append(None)
                continue
            if i in errs:          # leak report at exit although every live delta was 0: harness-level
                report_crash(run, m, l, dict(me, kind="exit"), errs[i], "model")
            results.append(check_c_line(run, m, l, o.replace(" ATEXIT", ""), me, "model", taint))
        allres.append(results)
        for i, me in enumerate(metas):
            if me["syn"] in MODEL_CMD and len(me["data"]) <= MODEL_MAXLEN and results[i] is not None:
                if me["syn"] == "uper":
                    if me["case"]["umode"] is None:
                        run.count("uper_no_faithful_reading")
                        continue
                    mlines.append("uperdec %d %s %s" % (me["case"]["umode"], me["case"]["ts"], hexs(me["data"])))
                else:
                    mlines.append(MODEL_CMD[me["syn"]] % (me["case"]["ts"], hexs(me["data"])))
                mwhere.append((len(allres) - 1, i))
    # ---- one-directional refinement against the reference decoders
    # inputs whose decoding cost is not bounded by their length (count-bounded loops over zero-size elements) run
    # under resource limits, one process each; LIMIT = no statement about that input
    if os.environ.get("C04_DUMP_MLINES"):
        open(os.environ["C04_DUMP_MLINES"], "w").write("\n".join(mlines) + "\n")
        raise SystemExit(3)
    risky = [k for k, (j, i) in enumerate(mwhere)
             if jobs[j][2][i]["syn"] in ("oer", "uper") and zero_size_elem_list(jobs[j][0]["trees"][jobs[j][2][i]["tn"]], jobs[j][2][i]["syn"])]
    rs = set(risky)
    safe = [k for k in range(len(mwhere)) if k not in rs]
    mo = [None] * len(mlines)
    for k, o in zip(safe, model_par(model, [mlines[k] for k in safe])):
        mo[k] = o
    for k, o in zip(risky, model_guarded(model, [mlines[k] for k in risky])):
        mo[k] = o
    run.count("model_guarded_lines", len(risky))
    mo = ["LIMIT" if o.startswith("EXN") else o for o in mo]
    run.count("model_resource_limit", sum(1 for o in mo if o == "LIMIT"))
    tlog("model: reference decoders done (%d lines, %d under resource limits)" % (len(mlines), len(risky)))
    acc_all = [(w, o.split()) for w, o in zip(mwhere, mo) if o.startswith("OK ")]
    # a value of thousands of zero-size elements (the only way a <= 300 octet input yields a long value) is not
    # re-encoded by the model (its DER of a SET OF sorts by insertion): only the verdict is compared
    acc = [(w, f) for (w, f) in acc_all if len(f[2]) <= MODEL_MAXVAL]
    huge = {w: (int(f[1]), f[2], None) for (w, f) in acc_all if len(f[2]) > MODEL_MAXVAL}
    do = model_par(model, ["der %s %s" % (jobs[j][2][i]["case"]["ts"], f[2]) for (j, i), f in acc])
    accepted = {w: (int(f[1]), f[2], d) for (w, f), d in zip(acc, do)}
    accepted.update(huge)
    # types whose UPER encoding has no bits at all (the model then accepts ANY buffer, reporting one octet; the C's
    # uper_decode_complete wants that octet to exist and to be zero: X.691 11.1.3)
    tss = sorted(set(c["ts"] for c in cases))
    zb = model_par(model, ["uperdec 0 %s -" % ts for ts in tss])
    zero_bit = {ts for ts, o in zip(tss, zb) if o.startswith("OK ")}
    tlog("model: re-encodings done (%d accepted)" % len(acc))
    mo_of = dict(zip(mwhere, mo))
    for (j, i) in mwhere:
        m, lines, metas = jobs[j]
        outs = cres[j][0]
        me, r = metas[i], allres[j][i]
        syn = me["syn"]
        if (j, i) in accepted:
            n, v, d = accepted[(j, i)]
            run.count("model_%s_accepts" % syn)
            if me["kind"] != "valid":
                run.count("model_%s_accepts_mutant" % syn)
            if syn == "uper" and me["case"]["ts"] in zero_bit:
                data = me["data"]
                exp = ("MORE", 0, "-") if len(data) == 0 else (("OK", 1, d) if data[0] == 0 else ("FAIL", 0, "-"))
                run.count("uper_zero_bit_type")
                good = (r["rc"], r["consumed"], r["der"]) == exp
            elif d is None:
                run.count("model_value_too_large")
                good = (r["rc"] == "OK" and r["consumed"] == n)
                d = "(not computed)"
            else:
                good = (r["rc"] == "OK" and r["consumed"] == n and r["der"] == d)
            if not good:
                refine_disagreement(run, m, lines[i], outs[i], me, r, n, v, d)
        elif mo_of[(j, i)] == "LIMIT":
            run.count("model_%s_unknown" % syn)
        else:
            run.count("model_%s_rejects" % syn)
            if r["rc"] == "OK":
                run.count("lenient_%s" % syn)       # the C accepts what the reference rejects: not forbidden by C04, counted
                if len(run.cov.setdefault("lenient_samples", [])) < 8:
                    run.cov["lenient_samples"].append({"type": me["case"]["ts"], "syntax": syn, "input": hexs(me["data"])[:120], "c": outs[i][:160]})
    for (m, lines, metas), (outs, errs) in zip(jobs, cres):
        if lines:
            run.sample({"module": m["name"], "lines": len(lines), "first": lines[0][:100], "c": outs[0][:100]})
    return mods


WIDE_FEATURES = ["ext", "default", "set", "recursion", "real", "time", "oid", "strings", "bits", "enum"]


def deep_inputs(syn, b, rng):
    """inputs that nest deeply when the type is recursive: the leading octets of a valid encoding repeated"""
    out = []
    if syn == "ber":
        tl = ber_walk(b)
        if tl and tl[0][4]:
            t0, l0, c0, c1, cons, d = tl[0]
            inner = [t for t in tl if t[5] == 1 and t[4]]
            hdrs = [b[t0:l0] + b"\x80"] + ([b[inner[0][0]:inner[0][1]] + b"\x80"] if inner else [])
            for n in (300, 20000):
                out.append(("deep", b"".join(hdrs) * n))
                out.append(("deep", b"".join(hdrs) * n + b + b"\x00\x00" * (n * len(hdrs))))
    elif syn == "xer":
        tags = re.findall(rb"<[^/<>!?][^<>/]*>", b)[:3]
        for k in (1, 2, 3):
            if len(tags) >= k:
                for n in (300, 20000):
                    out.append(("deep", b"".join(tags[:k]) * n))
    else:
        for k in (1, 2, 3):
            if len(b) >= k:
                for n in (300, 20000):
                    out.append(("deep", b[:k] * n))
        out.append(("deep", b"\xff" * 5000))
        out.append(("deep", b"\x80" * 5000))
    return out


# a SET (no PER/OER codec: NULL entries in asn_OP_SET) below the top level, in every position from which a constructed
# PER/OER decoder calls a member's decoder: alternative, member, element, extension addition (open type)
NESTED_SET_TEXT = """WS DEFINITIONS AUTOMATIC TAGS ::= BEGIN
  CS ::= CHOICE { n NULL, s SET { a BOOLEAN } }
  QS ::= SEQUENCE { b BOOLEAN, s SET { a BOOLEAN } OPTIONAL }
  LS ::= SEQUENCE OF SET { a BOOLEAN }
  TS ::= SET OF SET { a BOOLEAN }
  ES ::= SEQUENCE { b BOOLEAN, ..., s SET { a BOOLEAN } }
  XS ::= CHOICE { n NULL, ..., s SET { a BOOLEAN } }
END
"""


# the text string types whose XER decoder converts character references (OCTET_STRING__convert_entrefs), with the
# references at the case splits of OS__strtoent put directly into their text
CHARREF_TEXT = """WX DEFINITIONS AUTOMATIC TAGS ::= BEGIN
  XU ::= UTF8String
  XI ::= IA5String
  XB ::= BMPString
  XV ::= UniversalString
  XQ ::= SEQUENCE { a UTF8String, b VisibleString OPTIONAL, ... }
END
"""


def charref_inputs(tn):
    out = []
    for f in CHARREFS:
        for text in (f, b"a" + f + b"b", f + f):
            body = (b"<a>" + text + b"</a><b>" + text + b"</b>") if tn == "XQ" else text
            out.append(b"<" + tn.encode() + b">" + body + b"</" + tn.encode() + b">")
        out.append(b"<" + tn.encode() + b">" + (b"<a>" if tn == "XQ" else b"") + b"x" + f)          # the buffer ends inside / behind the reference
    return out


def nested_set_inputs(rng):
    """short UPER/OER inputs that steer each decoder of module WS into the SET component (and some that do not)"""
    fixed = ["80", "6000", "c0", "e0", "0180", "01ff", "0101ff", "8180", "818001ff", "80ff", "ff", "c04080", "8101ff", "80028000", "800201ff", "80010780018000",
             "c0000180", "80", "8080", "0201ff", "810180", "a00180"]
    out = [bytes.fromhex(h) for h in fixed]
    out += [bytes([b]) for b in range(0, 256, 8)] + [rng.bytes(rng.range(2, 6)) for _ in range(24)]
    return out


def wide_layer(run, rng, tier):
    """modules over the wide algebra (no model): survival and consistency of all decoders on mutated inputs"""
    nmod, nty, nval = (6, 4, 2) if tier == "quick" else (16, 5, 4)
    wg = WGen(rng, features=WIDE_FEATURES)
    wmods = []
    for i in range(nmod * 4):
        if len(wmods) >= nmod:
            break
        wm = wg.module("W%d" % len(wmods), nty)
        # an anonymous X OF directly inside an X OF trips known compiler defects (parser assertion with an inner SIZE,
        # uncompilable Member__Member structs: C10/C12 findings): such modules would only be skipped below
        if re.search(r"OF (SEQUENCE|SET)( \(SIZE\([^)]*\)\))? OF", wm["text"]):
            run.count("wide_module_regenerated")
            continue
        wmods.append(wm)
    wmods.append({"name": "WS", "text": NESTED_SET_TEXT, "defs": [(n, None) for n in re.findall(r"^\s*(\w+) ::=", NESTED_SET_TEXT, flags=re.M)]})
    wmods.append({"name": "WX", "text": CHARREF_TEXT, "defs": [(n, None) for n in re.findall(r"^\s*(\w+) ::=", CHARREF_TEXT, flags=re.M)]})
    tlog("wide: generating and building %d modules" % nmod)
    build_modules(wmods, tag="wide", moddrv_extra=INC, extra_ldflags=WRAP)
    tlog("wide: built")
    live = []
    for m in wmods:
        if not m.get("exe"):
            run.count("wide_module_not_built")        # C10's business (and its findings); not a C04 statement
            continue
        m["trees"] = {}
        live.append(m)
    fjobs = [(m["exe"], ["rfill %s %d %d" % (tn, rng.below(100000), rng.choice([8, 32, 64, 200])) for tn, _ in m["defs"] for k in range(nval)]) for m in live]
    fres = run_many(fjobs)
    xjobs = []
    for m, (exe, fills), (fo, fe) in zip(live, fjobs, fres):
        run.count("wide_rfill_died", len(fe))          # asn_random_fill is a test helper, not a decoder: only costs an input
        vals = []
        for l, o in zip(fills, fo):
            f = o.split()
            if len(f) == 3 and f[0] == "OK" and f[1] not in ("ENCFAIL", "-"):
                vals.append((l.split()[1], f[1]))
            else:
                run.count("wide_value_unusable")
        m["vals"] = sorted(set(vals))
        xjobs.append((m["exe"], ["xcode %s der %s %s" % (tn, d, sy) for (tn, d) in m["vals"] for sy in ("uper", "oer", "xer")]))
    xres = run_many(xjobs)
    tlog("wide: values and their encodings obtained")
    jobs = []
    maxlines = 1500 if tier == "quick" else 6000
    for m, (exe, xl), (xo, xe) in zip(live, xjobs, xres):
        # an ENCODER dying on a value of asn_random_fill is C07/C01's subject; it only costs this check an input
        run.count("wide_encoder_died", len(xe))
        vals = m["vals"]
        enc = {}
        for l, o in zip(xl, xo):
            f = l.split()
            if o.startswith("OK ") and len(o.split()) == 2:
                enc[(f[1], f[3], f[4])] = o.split()[1]
        lines, metas, seen = [], [], set()
        for (tn, d) in vals:
            for syn in ("ber", "uper", "oer", "xer"):
                h = d if syn == "ber" else enc.get((tn, d, syn))
                if not h or h == "-":
                    continue
                b = bytes.fromhex(h)
                if len(b) > 4000:
                    continue
                others = [(d2 if syn == "ber" else enc.get((t2, d2, syn), "")) for (t2, d2) in cap(vals, 3, rng)]
                muts = mutants(syn, b, rng, tier, [bytes.fromhex(o) for o in others if o and o != "-"])
                muts += deep_inputs(syn, b, rng)
                for kind, data in muts:
                    key = (tn, syn, data)
                    if key in seen or (kind == "trunc" and len(data) >= len(b)):
                        continue
                    seen.add(key)
                    lines.append("d4 %s %s %s" % (tn, syn, hexs(data)))
                    metas.append({"tn": tn, "syn": syn, "kind": kind, "data": data, "orig": b})
        if len(lines) > maxlines:
            keep = sorted(set(rng.below(len(lines)) for _ in range(maxlines)))
            lines, metas = [lines[i] for i in keep], [metas[i] for i in keep]
        if m["name"] == "WS":
            # no valid PER/OER encoding exists to mutate (the encoders refuse a nested SET): direct short inputs
            for tn, _ in m["defs"]:
                for syn in ("uper", "oer"):
                    for data in nested_set_inputs(rng):
                        if (tn, syn, data) not in seen:
                            seen.add((tn, syn, data))
                            lines.append("d4 %s %s %s" % (tn, syn, hexs(data)))
                            metas.append({"tn": tn, "syn": syn, "kind": "random", "data": data, "orig": data})
                            run.count("wide_nested_set_input")
        if m["name"] == "WX":
            for tn, _ in m["defs"]:
                for data in charref_inputs(tn):
                    if (tn, "xer", data) not in seen:
                        seen.add((tn, "xer", data))
                        lines.append("d4 %s xer %s" % (tn, hexs(data)))
                        metas.append({"tn": tn, "syn": "xer", "kind": "charref", "data": data, "orig": data})
                        run.count("wide_charref_input")
        jobs.append((m, lines, metas))
    tlog("wide: %d mutant lines generated" % sum(len(j[1]) for j in jobs))
    cres = run_many([(m["exe"], lines) for m, lines, metas in jobs], per_chunk=40, timeout=(150 if tier == "quick" else 1500))
    tlog("wide: C side done, %d process deaths" % sum(len(e) for o, e in cres))
    for (m, lines, metas), (outs, errs) in zip(jobs, cres):
        for i, (l, o, me) in enumerate(zip(lines, outs, metas)):
            run.case(l)
            run.count("wmut_" + me["kind"].split("+")[-1])
            if i in errs and errs[i][0] == "CRASH":
                report_crash(run, m, l, me, errs[i], "wide")
                continue
            if i in errs:
                report_crash(run, m, l, dict(me, kind="exit"), errs[i], "wide")
            check_c_line(run, m, l, o.replace(" ATEXIT", ""), me, "wide", None)
        if lines:
            run.sample({"wide_module": m["text"][:300], "lines": len(lines), "first": lines[0][:100], "c": outs[0][:100]})
    return wmods


# --------------------------------------------------------------------------------------------------
# extensible types meeting what they do not know (lib/c04_ext.py): the inputs on which the skip functions run

def ext_budgets(tier):
    if tier == "quick":
        return {"prefix_all": 600, "wraps_extra": 5, "eoc": 3, "framecut": 10, "p2c": 2, "battery_readers": 2, "generic": 6}
    return {"prefix_all": 400, "wraps_extra": 5, "eoc": 8, "framecut": 40, "p2c": 4, "battery_readers": 5, "generic": 12}


def ext_layer(run, rng, tier, model):
    eb = ext_budgets(tier)
    xmods = XE.gen_modules(rng, tier)
    build_modules(xmods, tag="xext", moddrv_extra=INC, extra_ldflags=WRAP)
    tlog("ext: %d modules built" % len(xmods))
    jobs = []
    for m in xmods:
        if not m.get("exe"):
            run.violation("build:module", {"what": "a valid generated module of extensible types was rejected or its code does not compile", "module": m["text"],
                                           "asn1c_out": m.get("asn1c_out", "")[-1200:], "build_log": m.get("build_log", "")[-1200:]}, no_input=True)
            continue
        vals = XE.make_values(m, rng, tier)
        ders = model_par(model, ["xder %s %s" % (m["x"][wt]["ety"], XE.val_str(v)) for (fam, wt, v, lab) in vals])
        # (family, writer count, wrapper) -> DER of the wrapper's value; the C encoders of the WRITER give the other syntaxes
        items = []
        prev = {}
        for vi, ((fam, wt, v, lab), d) in enumerate(zip(vals, ders)):
            if d in ("NONE", "-") or d.startswith("EXN"):
                run.violation("ext:model-der", {"what": "the model has no DER for a generated value", "type": wt, "value": XE.val_str(v), "model": d}, no_input=True)
                continue
            db = bytes.fromhex(d)
            wraps_all = XE.SEQ_WRAPS if fam == "S" else XE.CH_WRAPS
            extra = [w for w in wraps_all if w != ""]
            start = vi % max(1, len(extra))
            wraps = [""] + [extra[(start + j) % len(extra)] for j in range(min(eb["wraps_extra"], len(extra)))]
            n = m["x"][wt]["nadd"]
            for w in wraps:
                dd = [db] + ([prev[(fam, n)]] if (w == "InOf" and (fam, n) in prev and vi % 2) else [])
                items.append({"fam": fam, "n": n, "wrap": w, "lab": lab, "kind": m["x"][wt]["kind"], "der": XE.wrapper_der(m["x"][wt]["kind"], w, dd), "writer": XE.wrapper_name(fam, w, n)})
            prev[(fam, n)] = db
        xl = [l for it in items for l in ("xcode %s der %s uper" % (it["writer"], hexs(it["der"])), "xcode %s der %s oer" % (it["writer"], hexs(it["der"])),
                                          "xcode %s der %s xer" % (it["writer"], hexs(it["der"])))]
        xo, xe = run_par(m["exe"], xl)
        for k, info in xe.items():
            report_crash(run, m, xl[k], {"tn": xl[k].split()[1], "syn": "ber", "kind": "valid", "data": b""}, info, "ext")
        lines, metas, seen = [], [], set()

        def put(rt, syn, kind, data, orig, it, strict):
            key = (rt, syn, data)
            if key in seen or (kind == "trunc" and len(data) >= len(orig)):
                return
            seen.add(key)
            lines.append("d4x %s %s %s" % (rt, syn, hexs(data)))
            metas.append({"tn": rt, "syn": syn, "kind": kind, "data": data, "orig": orig, "writer": it["writer"], "same": rt == it["writer"], "strict_prefix": strict,
                          "item": it})

        for ii, it in enumerate(items):
            counts = XE.SEQ_COUNTS if it["fam"] == "S" else XE.CH_COUNTS
            readers = [(k, XE.wrapper_name(it["fam"], it["wrap"], k)) for k in counts]
            # the full battery for the reader that knows least, the writer itself, and others in rotation
            others = [k for k in counts if k not in (counts[0], it["n"])]
            batt = {counts[0], it["n"]} | {others[(ii + j) % len(others)] for j in range(max(0, eb["battery_readers"] - 2)) if others}
            encs = {"ber": it["der"]}
            for j, sy in enumerate(("uper", "oer", "xer")):
                o = xo[3 * ii + j]
                if o.startswith("OK ") and len(o.split()) == 2 and o.split()[1] != "-":
                    encs[sy] = bytes.fromhex(o.split()[1])
                else:
                    run.count("ext_writer_cannot_encode_%s" % sy)      # SET has no PER/OER codec; not a decoder matter
            variants = XE.ber_variants(it["der"], rng)
            for (k, rt) in readers:
                same = (k == it["n"])
                # ---- BER
                for vk, V in variants:
                    put(rt, "ber", "valid" if vk == "der" else "reframe-" + vk, V, V, it, True)
                    for kind, data in XE.all_prefixes(V, eb["prefix_all"], rng):
                        put(rt, "ber", kind, data, V, it, True)
                    if vk != "der":
                        for kind, data in XE.eoc_mutants(V, rng, eb["eoc"]) + XE.frame_cuts(V, rng, eb["framecut"]):
                            put(rt, "ber", kind, data, V, it, True)
                        if k in batt:
                            for kind, data in mut_bytes_generic(V, rng, eb["generic"], eb["generic"], []):
                                put(rt, "ber", "re+" + kind, data, V, it, True)
                if k in batt:
                    for kind, data in mutants("ber", it["der"], rng, tier, []) + XE.prim_to_constructed(it["der"], rng, eb["p2c"]) + XE.frame_cuts(it["der"], rng, eb["framecut"]):
                        put(rt, "ber", kind, data, it["der"], it, True)
                # ---- UPER, OER, XER: what the writer's encoder produced
                for sy in ("uper", "oer", "xer"):
                    U = encs.get(sy)
                    if U is None:
                        continue
                    base = U[:-1] if (sy == "xer" and U.endswith(b"\n")) else U
                    strict = same or sy == "xer"
                    put(rt, sy, "valid", U, U, it, strict)
                    for kind, data in XE.all_prefixes(base, eb["prefix_all"], rng):
                        put(rt, sy, kind, data, U, it, strict)
                    if k in batt:
                        for kind, data in mutants(sy, U, rng, tier, [e2 for e2 in (encs.get(sy),) if e2]):
                            put(rt, sy, kind, data, U, it, strict)
        jobs.append((m, lines, metas))
    tlog("ext: %d lines generated" % sum(len(j[1]) for j in jobs))
    cres = run_many([(m["exe"], lines) for m, lines, metas in jobs], timeout=(150 if tier == "quick" else 1500), max_deaths=40)
    tlog("ext: C side done, %d process deaths" % sum(len(e) for o, e in cres))
    for (m, lines, metas), (outs, errs) in zip(jobs, cres):
        taint = reencode_taint(m)
        for i, (l, o, me) in enumerate(zip(lines, outs, metas)):
            run.case(l)
            run.count("xmut_" + me["kind"].split("+")[-1])
            run.count("ext_reader_%s" % ("same" if me["same"] else "other"))
            if i in errs and errs[i][0] == "CRASH":
                if errs[i][1] == -1 and "not run" in errs[i][2]:
                    run.count("ext_not_run_after_too_many_deaths")     # the deaths themselves are reported above
                    continue
                report_crash(run, m, l, me, errs[i], "ext")
                continue
            if i in errs:
                report_crash(run, m, l, dict(me, kind="exit"), errs[i], "ext")
            r = check_c_line(run, m, l, o.replace(" ATEXIT", ""), me, "ext", taint)
            if r is None:
                continue
            # the corpus itself: what the writer's own type makes of its own valid encodings
            if me["same"] and me["kind"] in ("valid", "reframe-indef", "reframe-long") and not (r["rc"] == "OK" and r["consumed"] == len(me["data"]) - (1 if me["syn"] == "xer" and me["data"].endswith(b"\n") else 0)):
                run.count("ext_valid_not_accepted_%s" % me["syn"])
                if me["syn"] == "ber" and me["kind"] == "valid":
                    run.violation("oracle:ext:valid-der-not-accepted", {"what": "the DER of a generated value (wrapper DER computed by lib/c04_ext.py from the model's DER) is not decoded RC_OK / all consumed by its own type",
                                                                         "module": m["text"], "type": me["tn"], "command_line": l, "c": o})
            elif me["same"] and me["syn"] == "ber" and me["kind"] == "valid" and r["der"] != hexs(me["data"]):
                run.violation("oracle:ext:der-roundtrip", {"what": "DER decoded by its own type re-encodes differently", "module": m["text"], "type": me["tn"], "command_line": l, "c": o})
        if lines:
            run.sample({"ext_module": m["name"], "lines": len(lines), "first": lines[0][:100], "c": outs[0][:140]})
    return xmods


# --------------------------------------------------------------------------------------------------
# member lookup by tag (lib/c04_tagmap.py): type shapes that select the tag-table branches of the SEQUENCE / SET /
# CHOICE decoders, under structural faults (a member TLV in the wrong place)

def nontrivial_contents(nodes):
    """the contents a decode / DER re-encode cycle keeps octet for octet: everything but empty contents, the single octet 00
    (what the C makes of an empty INTEGER / BIT STRING) and single non-zero octets taken as one class (BOOLEAN TRUE)"""
    return sorted((b"\xff" if len(c) == 1 else c) for t, c in nodes if c not in (None, b"", b"\x00"))


def tagmap_expect(tm, ttype, src, tags, mo):
    """what coq/Rt/SafetyTagMap.v, run on the emitted tables, says the C must answer on a frame holding TLVs with
    these tags (src: the member each TLV was built for).  -> ("OK", pres string) | ("NOTOK",) | None (no statement)"""
    ms = ttype["ms"]

    def compat(a, b):
        return a == b or TM.member_sig(ms[a]) == TM.member_sig(ms[b])
    f = mo.split()
    if tm["kind"] == "CHOICE":
        if not tags:
            return None
        if f[0] == "NONE":
            return ("NOTOK",) if tm["ext"] == "-" else None
        n = int(f[0])
        return ("OK", str(n)) if compat(src[0], n) else None
    if f[0] in ("FAIL", "SHORT"):
        return ("NOTOK",)
    if f[0] != "OK":
        return ("MODEL?",)
    tr = [] if f[1] == "none" else [int(x) for x in f[1].split(",")]
    if len(tr) != len(tags) or not all(compat(a, b) for a, b in zip(src, tr)):
        return None
    if tm["kind"] == "SET" and any(o == 0 and i not in tr for i, o in enumerate(tm["opt"])):
        return ("NOTOK",)
    return ("OK", ",".join(str(i) for i in sorted(set(tr))) or "none")


def tagmap_layer(run, rng, tier, model):
    q = tier == "quick"
    mods = TM.gen_modules(rng, tier)
    build_modules(mods, tag="tmap", moddrv_extra=INC, extra_ldflags=WRAP)
    tlog("tagmap: %d modules built" % len(mods))
    live = []
    for m in mods:
        if not m.get("exe"):
            run.violation("build:module", {"what": "a valid generated module (member-lookup shapes) was rejected or its code does not compile", "module": m["text"],
                                           "asn1c_out": m.get("asn1c_out", "")[-1200:], "build_log": m.get("build_log", "")[-1200:]}, no_input=True)
        else:
            live.append(m)
    # ---- the emitted tables, and the hypotheses of the theorems that have one, checked on each
    tres = run_many([(m["exe"], ["tm4 %s" % tn for tn, _ in m["defs"]]) for m in live])
    chk = []
    for m, (to, te) in zip(live, tres):
        m["tables"] = {}
        for (tn, _), o in zip(m["defs"], to):
            tm = TM.parse_tm4(o)
            if tm is None:
                if m["tm"][tn]["cons"] != "of":
                    run.violation("oracle:tagmap:table", {"what": "no tables read for a SEQUENCE / SET / CHOICE type", "type": tn, "c": o, "module": m["text"]}, no_input=True)
                continue
            m["tables"][tn] = tm
            chk.append((m, tn, "tmapok %d %s" % (tm["count"], tm["map"])))
    for (m, tn, l), o in zip(chk, model_par(model, [c[2] for c in chk])):
        run.case(l)
        run.count("tagmap_tables")
        if o != "names=1 inside=1":
            run.violation("oracle:tagmap:table", {"what": "the emitted tag-to-member table names a member that does not exist, or an offset leaves the table (hypotheses of C04_seq_lookup_in_member_table / C04_tagmap_pick_stays_inside)",
                                                  "type": tn, "tables": m["tables"][tn], "model": o, "module": m["text"]}, no_input=True)
    # ---- values and their encodings
    jobs = []
    for m in live:
        vals = []
        for tn, _ in m["defs"]:
            for v in TM.values_of(m["tm"][tn], m["types"], tier):
                v["tn"] = tn
                v["der"] = TM.ser(v["tree"])
                vals.append(v)
        xl = ["x4 %s %s" % (v["tn"], hexs(v["der"])) for v in vals]
        (xo, xe), = run_many([(m["exe"], xl)], max_deaths=12)
        for k, info in xe.items():
            if not (info[1] == -1 and "not run" in info[2]):
                report_crash(run, m, xl[k], {"tn": xl[k].split()[1], "syn": "ber", "kind": "valid", "data": bytes.fromhex(xl[k].split()[2])}, info, "tagmap")
        encs = []
        for o in xo:
            f = o.split()
            encs.append(f if (len(f) == 3 and f[0] != "DECFAIL") else ["NONE", "NONE", "NONE"])
        lines, metas, seen = [], [], set()

        def put(v, syn, kind, data, orig, **kw):
            key = (v["tn"], syn, data)
            if key in seen or (kind == "trunc" and len(data) >= len(orig)):
                return
            seen.add(key)
            lines.append("d4m %s %s %s" % (v["tn"], syn, hexs(data)))
            metas.append(dict({"tn": v["tn"], "syn": syn, "kind": kind, "data": data, "orig": orig, "v": v}, **kw))

        for vi, v in enumerate(vals):
            b = v["base"]
            ext = bool(b.get("ext"))
            top = (v["path"] == ())
            for mode in ("der", "indef", "mixed"):
                put(v, "ber", "valid" if mode == "der" else "reframe-" + mode, TM.rebuild(v, v["kids"], mode), v["der"], kids=v["kids"], valid=True, top=top, ext=ext)
            for fi, (fk, nk) in enumerate(TM.struct_faults(v["kids"], b, v["vi"], m["types"], rng, q)):
                put(v, "ber", "st-" + fk, TM.rebuild(v, nk, "der"), v["der"], kids=nk, top=top, ext=ext)
                mode = ("indef", "mixed")[(fi + vi) % 2]
                put(v, "ber", "st-" + fk + "+" + mode, TM.rebuild(v, nk, mode), v["der"], kids=nk, top=top, ext=ext)
            # the generic battery too (positional damage), lightly
            for kind, data in mut_truncate(v["der"], rng, 40, 6) + mut_bytes_generic(v["der"], rng, 3, 3, []):
                put(v, "ber", kind, data, v["der"], ext=ext)
            # ---- UPER / OER: every bit of the leading octets (presence bits, CHOICE index, counts), cuts, light damage
            for j, sy in enumerate(("uper", "oer")):
                o = encs[vi][j]
                if o in ("NONE", "-"):
                    run.count("tagmap_no_%s_encoding" % sy)         # SET has no PER/OER codec
                    continue
                U = bytes.fromhex(o)
                put(v, sy, "valid", U, U, valid=True)
                for i in range(min(len(U), 4 if q else 8)):
                    for bit in range(8):
                        put(v, sy, "headflip", U[:i] + bytes([U[i] ^ (1 << bit)]) + U[i + 1:], U)
                for kind, data in mut_truncate(U, rng, 24, 4) + mut_bytes_generic(U, rng, 3, 3, []):
                    put(v, sy, kind, data, U)
            # ---- XER: the same re-arrangements on the elements of the text
            o = encs[vi][2]
            if o not in ("NONE", "-"):
                X = bytes.fromhex(o)
                put(v, "xer", "valid", X, X, valid=True)
                xc = TM.xer_children(X) if (top and b["cons"] in ("seq", "set")) else None
                if xc:
                    names = {mm["name"]: i for i, mm in enumerate(b["ms"])}
                    bykid = dict(v["kids"])
                    if all(nm in names and names[nm] in bykid for nm, _ in xc[1]) and len(xc[1]) == len(v["kids"]):
                        for fk, idx in TM.index_faults(len(xc[1]), rng, q):
                            data = xc[0] + b"".join(xc[1][i][1] for i in idx) + xc[2]
                            put(v, "xer", "st-" + fk, data, X, kids=[(names[xc[1][i][0]], bykid[names[xc[1][i][0]]]) for i in idx], xer_struct=True, top=top, ext=ext)
                    else:
                        run.count("tagmap_xer_children_unaligned")
                for kind, data in mut_truncate(X, rng, 24, 4) + mut_bytes_generic(X, rng, 2, 2, []):
                    put(v, "xer", kind, data, X)
            else:
                run.count("tagmap_no_xer_encoding")
        jobs.append((m, lines, metas))
    tlog("tagmap: %d lines generated" % sum(len(j[1]) for j in jobs))
    cres = run_many([(m["exe"], lines) for m, lines, metas in jobs], timeout=(150 if q else 1500), max_deaths=12)
    tlog("tagmap: C side done, %d process deaths" % sum(len(e) for o, e in cres))
    # ---- the model on the tables of the type and the tags of the TLVs of every top-level BER input built here
    mlines, mwhere = [], []
    for j, (m, lines, metas) in enumerate(jobs):
        for i, me in enumerate(metas):
            if me["syn"] == "ber" and me.get("top") and "kids" in me and me["tn"] in m["tables"]:
                tm = m["tables"][me["tn"]]
                tags = [TM.tag_value_of(n) for (_, n) in me["kids"]]
                ts = ",".join(str(t) for t in tags) or "-"
                if tm["kind"] == "SEQ":
                    mlines.append("seqmem %s %s %s %s" % (tm["els"], tm["map"], tm["ext"], ts))
                elif tm["kind"] == "SET":
                    mlines.append("setmem %s %d %s" % (tm["map"], 0 if tm["ext"] == "-" else 1, ts))
                elif tags:
                    mlines.append("tagfind %s %d" % (tm["map"], tags[0]))
                else:
                    continue
                mwhere.append((j, i, tags))
    mo = dict(((j, i), (o, tags, l)) for (j, i, tags), o, l in zip(mwhere, model_par(model, mlines), mlines))
    tlog("tagmap: model done (%d lines)" % len(mlines))
    for j, ((m, lines, metas), (outs, errs)) in enumerate(zip(jobs, cres)):
        for i, (l, o, me) in enumerate(zip(lines, outs, metas)):
            run.case(l)
            run.count("tmut_%s_%s" % (me["syn"], me["kind"].split("+")[0]))
            if i in errs and errs[i][0] == "CRASH":
                if errs[i][1] == -1 and "not run" in errs[i][2]:
                    run.count("tagmap_not_run_after_too_many_deaths")
                    continue
                report_crash(run, m, l, me, errs[i], "tagmap")
                continue
            if i in errs:
                report_crash(run, m, l, dict(me, kind="exit"), errs[i], "tagmap")
            p3 = TM.parse_d4m(o)
            if p3 is None:
                run.violation("oracle:tagmap:result-line", {"what": "malformed driver line", "command_line": l, "c": o, "module": m["text"]})
                continue
            r = check_c_line(run, m, l, p3[0].replace(" ATEXIT", ""), me, "tagmap", None)
            if r is None:
                continue
            pres, rt = p3[1], p3[2]
            rep = {"module": m["text"], "type": me["tn"], "syntax": me["syn"], "mutation": me["kind"], "command_line": l, "c": o, "valid_encoding": hexs(me["orig"])[:400]}
            derok = r["rc"] == "OK" and not r["der"].startswith("ENCFAIL") and r["der"] != "-"
            if derok and r["ck"] == 0 and rt != "same":
                run.violation("oracle:tagmap:second-generation", dict(rep, what="the DER of the RC_OK result does not decode back to a value with the same DER (rt=%s)" % rt))
            # the generator's own values
            if me.get("valid"):
                size = len(me["data"])
                if not (r["rc"] == "OK" and r["consumed"] == size):
                    run.violation("oracle:tagmap:valid-not-accepted", dict(rep, what="a valid encoding of a generated value (DER built by lib/c04_tagmap.py, other syntaxes by the C encoders) is not decoded RC_OK / all consumed by its own type"))
                elif derok and r["der"] != hexs(me["v"]["der"]):
                    run.violation("oracle:tagmap:der-roundtrip", dict(rep, what="a valid encoding decodes to a value with another DER than the one it was made from", expected_der=hexs(me["v"]["der"])))
            # nothing is lost: the TLVs of what was accepted = the TLVs of what comes out
            if derok and r["ck"] == 0 and "kids" in me and not me.get("ext") and (me["syn"] == "ber" or me.get("xer_struct")):
                outn = TM.ber_nodes(bytes.fromhex(r["der"]))
                if me["syn"] == "ber":
                    inn = TM.ber_nodes(me["data"][:r["consumed"]])
                else:
                    inn = sorted([(TM.tag_value_of(("p", t, None)), c) for (t, c) in TM.rebuilt_tree_nodes(me["v"], me["kids"])], key=repr) if r["consumed"] == len(me["data"]) else None
                if inn is None or outn is None:
                    run.count("tagmap_nothing_lost_not_evaluated")
                elif sorted(t for t, c in inn) != sorted(t for t, c in outn) and nontrivial_contents(inn) != nontrivial_contents(outn):
                    # a TLV of the accepted input has no counterpart in the value (or the value holds one the input has not), and
                    # its contents are not there either.  (Either difference ALONE has a legitimate cause when a member TLV is put
                    # where a member of another kind bears the same tag: a string member decodes the CONSTRUCTED form, so the TLV
                    # of an EXPLICIT wrapper or an empty constructed TLV becomes one primitive string with the same contents; an
                    # empty INTEGER / BIT STRING comes back as 00, a BOOLEAN of any length or value as ff: lenient decoding, C03's
                    # subject.  Both are counted below.)
                    run.violation("oracle:tagmap:value-lost", dict(rep, what="RC_OK with %d octets consumed, but the value does not hold what was accepted: %d TLVs in, %d TLVs in the re-encoding (a member decoded twice keeps one value)" % (r["consumed"], len(inn), len(outn)),
                                                                   tlvs_in=[(t, (c.hex() if c is not None else None)) for t, c in inn][:40], tlvs_out=[(t, (c.hex() if c is not None else None)) for t, c in outn][:40]))
                elif inn != outn:
                    run.count("tagmap_nothing_lost_%s" % ("reframed_same_contents" if nontrivial_contents(inn) == nontrivial_contents(outn) else "same_tlvs_contents_renormalised"))
                else:
                    run.count("tagmap_nothing_lost_ok")
            # faithfulness of the lookup model on the emitted tables
            if (j, i) in mo:
                mline, tags, ml = mo[(j, i)]
                tm = m["tables"][me["tn"]]
                exp = tagmap_expect(tm, me["v"]["base"], [k[0] for k in me["kids"]], tags, mline)
                run.count("tagmap_tie_%s" % ("none" if exp is None else exp[0]))
                bad = None
                if exp is None:
                    pass
                elif exp[0] == "MODEL?":
                    bad = "the model ran out of fuel (excluded by C04_seq_member_loop_terminates)"
                elif exp[0] == "NOTOK" and r["rc"] == "OK":
                    bad = "the lookup model finds no member for one of the TLVs (or a mandatory member missing), the C answers RC_OK"
                elif exp[0] == "OK" and tm["kind"] == "CHOICE" and not (r["rc"] == "OK" and pres == exp[1]):
                    bad = "the lookup model selects alternative %s, the C answers %s / present=%s" % (exp[1], r["rc"], pres)
                elif exp[0] == "OK" and tm["kind"] != "CHOICE" and not (r["rc"] == "OK" and r["consumed"] == len(me["data"]) and pres == exp[1]):
                    bad = "the lookup model decodes members %s, the C answers %s, %d of %d octets, members present %s" % (exp[1], r["rc"], r["consumed"], len(me["data"]), pres)
                if not bad and exp is not None and exp[0] == "OK" and derok and r["ck"] == 0 and not me.get("ext"):
                    # every TLV was given to a member of its own kind: then the value holds exactly the TLVs of the input
                    i2, o2 = TM.ber_nodes(me["data"][:r["consumed"]]), TM.ber_nodes(bytes.fromhex(r["der"]))
                    if i2 is not None and o2 is not None and i2 != o2:
                        run.violation("oracle:tagmap:value-changed", dict(rep, what="every TLV sits on a member of its own kind (lookup model), the decode is RC_OK, but the re-encoding does not hold the same TLVs",
                                                                          tlvs_in=[(t, (c.hex() if c is not None else None)) for t, c in i2][:40], tlvs_out=[(t, (c.hex() if c is not None else None)) for t, c in o2][:40]))
                if bad:
                    run.violation("model:tagmap:%s" % tm["kind"].lower(), dict(rep, what="Rt/SafetyTagMap.v run on the emitted tables and the C disagree: " + bad, model_line=ml, model=mline, tables=tm),
                                  no_input=False)
        if lines:
            run.sample({"tagmap_module": m["name"], "lines": len(lines), "first": lines[0][:100], "c": outs[0][:140]})
    return mods



# --------------------------------------------------------------------------------------------------
# fragmented PER lengths in every order (lib/c04_frag.py): the reassembly loops of the UPER decoders

D4F = re.compile(r"^(OK|MORE|FAIL|RC\?) (\d+) der=(\S+) ck=(-?\d+) re=(\S+) live=(-?\d+) in=(\d+)/([0-9a-f]{8}) rq=(\S+)$")
FRAG_FULL = {"Os", "Bs", "In", "Ea", "E0<Ea", "Ca", "Io:1"}       # every sequence of multipliers at the quick tier too


def parse_d4f(o):
    mm = D4F.match(o)
    if not mm:
        return None
    return {"rc": mm.group(1), "consumed": int(mm.group(2)), "der": mm.group(3), "ck": int(mm.group(4)), "re": mm.group(5), "live": int(mm.group(6)),
            "size": int(mm.group(7)), "in": "%s/%s" % (mm.group(7), mm.group(8)), "rq": [] if mm.group(9) == "-" else mm.group(9).split(",")}


def frag_configs(ty, rng, q):
    """(level, multipliers, wanted final part) for one type: every order of up to K multipliers at each level that has a
    reassembly loop, the final part at its boundaries in rotation"""
    out = []
    salt = rng.below(5)
    for L, (loop, _) in enumerate(ty.loops):
        if loop == "none":
            continue
        if ty.heavy and q:
            # lists of 16K..48K elements cost 50..100 ms each: the orders of up to two fragments, at the level of the list
            # itself (the open type around it is the loop of the string-valued additions, swept there)
            seqs = FR.sequences(2, 3) if loop == "list" else [[1, 2]]
        elif ty.heavy:
            seqs = FR.sequences(3 if loop == "list" else 2, ty.maxsum)
        elif q:
            full = ty.name in FRAG_FULL and L == 0
            seqs = FR.sequences(3 if full else 2, ty.maxsum)
            pool = [s for s in FR.sequences(4, ty.maxsum + 4) if s not in seqs]
            seqs = seqs + [pool[rng.below(len(pool))] for _ in range(6 if full else 8)]
        else:
            seqs = FR.sequences(4 if (ty.name in FRAG_FULL and L == 0) else 3, ty.maxsum + 4)
            if len(seqs) < 300:
                pool = [s for s in FR.sequences(4, ty.maxsum + 4) if s not in seqs]
                seqs = seqs + [pool[rng.below(len(pool))] for _ in range(40)]
        for i, ms in enumerate(seqs):
            # the final part depends on the SUM of the multipliers (all orders of the same fragments then carry the same value
            # and share one largest-first reference line); every seventh configuration has a random one of its own
            fin = FR.FINALS[(sum(ms) + L + salt) % len(FR.FINALS)] if i % 7 != 6 else rng.range(2, FR.FRAG - 2)
            out.append((L, list(ms), fin))
    return out


def random_composition(total, rng):
    out = []
    while total > 0:
        m = rng.range(1, min(4, total))
        out.append(m)
        total -= m
    return rng.shuffle(out)


def frag_layer(run, rng, tier, model):
    q = tier == "quick"
    m = FR.module()
    build_modules([m], tag="frag", moddrv_extra=INC, extra_ldflags=WRAP)
    if not m.get("exe"):
        run.violation("build:module", {"what": "the module of the fragmentation layer was rejected or its code does not compile", "module": m["text"],
                                       "asn1c_out": m.get("asn1c_out", "")[-1200:], "build_log": m.get("build_log", "")[-1200:]}, no_input=True)
        return 0
    tlog("frag: module built")
    lines, metas = [], []
    refs = {}

    def put(ty, pat, n, fr, kind, cut=-1, tail=b"", **kw):
        tree = ty.tree(n)
        if not FR.consistent(tree, fr):
            run.count("frag_config_dropped")
            return None
        prog, nb, marks = FR.program(tree, fr)
        size = (nb + 7) // 8
        if cut >= size:
            return None
        lines.append("d4f %s uper %s %s %d %s" % (ty.reader, pat.hex(), prog, cut, hexs(tail)))
        me = dict({"ty": ty, "tn": ty.reader, "syn": "uper", "kind": kind, "n": n, "fr": fr, "prog": prog, "pat": pat, "base": size if cut < 0 else cut, "cut": cut, "tail": tail,
                   "marks": marks, "full": size, "data": b"", "orig": b"", "idx": len(metas)}, **kw)
        metas.append(me)
        return me

    for ty in FR.TYPES:
        # a pattern of prime length: the contents of two fragments never coincide, a fragment stored at the wrong
        # place gives another value
        pat = bytes(rng.below(ty.patmax + 1) for _ in range(251))
        cfgs = frag_configs(ty, rng, q)
        # both (all) levels out of order at once
        if ty.nlevels > 1 and not ty.heavy:
            for _ in range(4 if q else 24):
                cfgs.append(("all", None, None))
        for ci, (L, ms, fin) in enumerate(cfgs):
            if L == "all":
                inner = max(i for i, (lp, _) in enumerate(ty.loops) if lp != "none")
                sol = FR.solve(ty, inner, random_composition(rng.range(1, 8), rng), rng.choice(FR.FINALS + [rng.range(2, FR.FRAG - 2)]))
                if not sol:
                    continue
                n = sol[0]
                fr = {}
                for lv in range(ty.nlevels - 1, -1, -1):
                    if ty.loops[lv][0] == "none":
                        continue
                    u = FR.level_units(ty.tree(n), lv, fr)
                    f = u % FR.FRAG
                    fr[lv] = (random_composition(u // FR.FRAG, rng), f, FR.form_of(f))
                kind = "valid-all-levels"
            else:
                sol = FR.solve(ty, L, ms, fin)
                if not sol:
                    run.count("frag_no_solution")
                    continue
                n, f = sol
                fr = {L: (ms, f, FR.form_of(f))}
                kind = "canonical" if FR.is_canonical(*fr[L]) else "valid"
            if (ty.name, n) not in refs:
                refs[(ty.name, n)] = put(ty, pat, n, {}, "canonical")
            if kind == "canonical":
                continue
            me = put(ty, pat, n, fr, kind, level=L)
            if me is None:
                continue
            run.count("frag_%s_L%s_k%d" % (ty.name, L, len(ms) if ms else 0))
            if L != "all" and f < 128 and ci % 3 == 0:
                put(ty, pat, n, {L: (ms, f, "l")}, "valid-longform", level=L)        # the final length in its two-octet form
            if not (ty.heavy and q and ci % 2):
                put(ty, pat, n, fr, "tail", tail=[b"\x00", b"\xff", rng.bytes(3)][ci % 3], level=L)
            if L != "all" and ci % 4 == 1 and not ty.heavy:
                # a multiplier X.691 11.9.3.8 prohibits (0, 5..) in place of one of the fragments: never accepted
                j = rng.below(len(ms))
                bad = ms[:j] + [rng.choice([0, 5, 6, 9])] + ms[j + 1:]
                sol2 = FR.solve(ty, L, bad, f)
                if sol2:
                    put(ty, pat, sol2[0], {L: (bad, sol2[1], FR.form_of(sol2[1]))}, "badmult", level=L)
            cps = FR.cut_points(me["marks"], me["full"])
            if q or ty.heavy or len(ms or []) > 2:
                k = (1 if ty.heavy else (3 if ty.name in FRAG_FULL else 2)) if q else 8
                cps = [cps[(ci * k + j * 3) % len(cps)] for j in range(k)] if cps else []
            for c in sorted(set(cps)):
                put(ty, pat, n, fr, "trunc", cut=c, level=L)
    tlog("frag: %d lines generated" % len(lines))
    if os.environ.get("C04_DUMP_FRAG"):
        open(os.environ["C04_DUMP_FRAG"], "w").write("".join("%s %s %s\n" % (me["ty"].name, me["kind"], l) for l, me in zip(lines, metas)))
    # heavy lines (lists of 16K..64K elements) are spread evenly: chunks are slices of the list
    order = sorted(range(len(lines)), key=lambda i: (i * 7919) % len(lines)) if lines else []
    (co, ce), = run_many([(m["exe"], [lines[i] for i in order])], per_chunk=20, timeout=(300 if q else 1500), max_deaths=40)
    outs = [None] * len(lines)
    errs = {}
    for pos, i in enumerate(order):
        outs[i] = co[pos]
        if pos in ce:
            errs[i] = ce[pos]
    tlog("frag: C side done, %d process deaths" % len(errs))
    # the Python expander against the C one, on the shortest inputs of every type
    sample = {}
    for i, me in enumerate(metas):
        if me["cut"] < 0 and not me["tail"]:
            sample.setdefault(me["ty"].name, []).append((me["full"], i))
    check_exp = set()
    for name, xs in sample.items():
        xs.sort()
        check_exp.update(i for _, i in xs[:(4 if q else 12)])
    results = [None] * len(lines)
    expder = {}
    for i, (l, o, me) in enumerate(zip(lines, outs, metas)):
        run.case("d4f %s %s %d %s" % (me["tn"], me["prog"], me["cut"], hexs(me["tail"])))
        ty = me["ty"]
        run.count("fmut_" + me["kind"])
        rep = {"module": m["text"], "type": me["tn"], "writer": ty.name, "syntax": "uper", "mutation": me["kind"], "command_line": l, "c": o,
               "fragmentation": {str(k): "%s + %d (%s)" % ("".join("C%d " % x for x in v[0]).strip() or "-", v[1], v[2]) for k, v in me["fr"].items()},
               "content_units": me["n"], "replay_cmd": "echo '<command_line>' | <moddrv of module FR built with harness/moddrv_c04.inc>"}
        if i in errs and errs[i][0] == "CRASH":
            if errs[i][1] == -1 and "not run" in errs[i][2]:
                run.count("frag_not_run_after_too_many_deaths")
                continue
            report_crash(run, m, l, me, errs[i], "frag")
            continue
        o = o.replace(" ATEXIT", "")
        if i in errs:
            report_crash(run, m, l, dict(me, kind="exit"), errs[i], "frag")
        if o == "BADPROG":
            run.violation("harness:frag:program", dict(rep, what="the driver rejects a program of lib/c04_frag.py"), no_input=True)
            continue
        r = parse_d4f(o)
        if r is None:
            run.violation("oracle:frag:result-line", dict(rep, what="decoder returned a code outside RC_OK/RC_WMORE/RC_FAIL or the driver line is malformed"))
            continue
        results[i] = r
        run.count("frag_uper_%s" % r["rc"])
        if r["consumed"] > r["size"]:
            run.violation("oracle:frag:consumed>size", dict(rep, what="consumed %d > size %d" % (r["consumed"], r["size"])))
        if r["live"] != 0:
            run.violation("oracle:frag:leak", dict(rep, what="%d block(s) still live after ASN_STRUCT_FREE of the %s result" % (r["live"], r["rc"])))
        if r["size"] != me["base"] + len(me["tail"]):
            run.violation("harness:frag:expander", dict(rep, what="the driver built %d octets, lib/c04_frag.py computed %d" % (r["size"], me["base"] + len(me["tail"]))), no_input=True)
            continue
        if i in check_exp:
            py = FR.expand(me["prog"], me["pat"])
            run.count("frag_expander_cross_checked")
            if FR.crc(py) != r["in"]:
                run.violation("harness:frag:expander", dict(rep, what="the driver's expansion of the program differs from lib/c04_frag.expand (%s against %s)" % (r["in"], FR.crc(py))), no_input=True)
                continue
            if me["kind"] == "canonical" and ty.canon_re and r["rc"] == "OK" and r["re"] != r["in"]:
                run.violation("oracle:frag:canonical-form", dict(rep, what="the encoder's output for the decoded value (%s) is not the largest-first fragmentation built by lib/c04_frag.py (%s)" % (r["re"], r["in"])))
        if me["kind"] == "badmult":
            if r["rc"] == "OK":
                run.violation("oracle:frag:prohibited-multiplier", dict(rep, what="a length determinant with a fragment multiplier outside 1..4 is accepted (RC_OK)"))
            continue
        if me["kind"] == "trunc":
            run.count("frag_prefix_%s" % r["rc"])
            if r["rc"] == "OK":
                run.violation("oracle:frag:prefix-accepted", dict(rep, what="a proper prefix (%d of %d octets) of a valid encoding decoded with RC_OK" % (me["cut"], me["full"])))
            continue
        # valid encodings (X.691 11.9.3.8 fixes no order of the multipliers for a receiver): accepted, all consumed, the value built in
        if not (r["rc"] == "OK" and r["consumed"] == me["base"]):
            run.violation("oracle:frag:valid-not-accepted", dict(rep, what="a valid encoding (%s fragmentation) is answered %s, %d of %d octets consumed" % (me["kind"], r["rc"], r["consumed"], me["base"])))
            continue
        if ty.der is not None:
            if (ty.name, me["n"]) not in expder:
                expder[(ty.name, me["n"])] = FR.crc(ty.der(FR.content_units(me["pat"], me["n"], ty.ub)))
            exp = expder[(ty.name, me["n"])]
            if r["der"] != exp:
                run.violation("oracle:frag:value", dict(rep, what="RC_OK, but the value is not the one the fragments hold: DER (length/CRC-32) %s, built in: %s" % (r["der"], exp)))
                continue
    # ---- faithfulness of coq/Rt/SafetyFrag.v: what the C asked of realloc() while it decoded = the requests of the modelled
    # loops run on the chunk sizes of every level (outermost first: an open type is collected whole before its contents are decoded)
    def level_chunks(me, lv):
        ty = me["ty"]
        tree = ty.tree(me["n"])
        f = me["fr"].get(lv)
        if f is None:
            f = FR.canonical(FR.level_units(tree, lv, me["fr"]))
        return FR.chunks_of(f[0], f[1])

    def model_cmds(me):
        cmds = []
        for lv, (loop, bpc) in enumerate(me["ty"].loops):
            cs = level_chunks(me, lv)
            if loop == "ot":
                cmds.append("fragot " + ",".join(str(c) for c in cs))
            elif loop in ("str", "int"):
                cmds.append("fragstr %d %s" % (1 if loop == "str" else 0, ",".join(str(c * bpc if bpc else (c + 7) // 8) for c in cs)))
            elif loop == "list":
                cmds.append("fragarr %d" % sum(cs))
        return cmds
    tie = [(i, model_cmds(me)) for i, me in enumerate(metas) if results[i] is not None and me["kind"] not in ("trunc", "badmult") and results[i]["rc"] == "OK"]
    distinct = sorted(set(c for _, cs in tie for c in cs))
    mans = dict(zip(distinct, model_par(model, distinct))) if distinct else {}
    tlog("frag: model done (%d distinct loop runs)" % len(distinct))
    for i, cmds in tie:
        r, me = results[i], metas[i]
        exp, inb = [], True
        for c in cmds:
            a = mans[c]
            mm = re.search(r"rq=(\S+) w=([01])$", a)
            if not mm:
                exp, inb = None, a
                break
            inb = inb and mm.group(2) == "1"
            exp += [] if mm.group(1) == "-" else [int(x) for x in mm.group(1).split(",")]
        run.count("frag_model_tie")
        rep = {"type": me["tn"], "writer": me["ty"].name, "command_line": lines[i], "c": outs[i], "model_lines": cmds, "model": [mans[c] for c in cmds], "module": m["text"]}
        if exp is None or inb is not True:
            run.violation("model:frag:bounds", dict(rep, what="Rt/SafetyFrag.v reports a store outside its block (excluded by C04_frag_*_writes_in_bounds) or an unreadable answer"), no_input=True)
            continue
        exp = [str(x) for x in exp if x >= 1024]
        if "more" in r["rq"]:
            run.count("frag_model_tie_trace_too_long")
        elif r["rq"] != exp:
            run.violation("model:frag:realloc-trace", dict(rep, what="the sizes the C asks of realloc() while it reassembles the fragments (%s) are not those of the modelled loops (%s)" % (",".join(r["rq"]) or "-", ",".join(exp) or "-")),
                          no_input=True)
    # the same value in every fragmentation: return code, DER, constraint verdict and re-encoding of the canonical order
    for i, me in enumerate(metas):
        r = results[i]
        if r is None or me["kind"] in ("trunc", "canonical", "badmult"):
            continue
        ref = refs.get((me["ty"].name, me["n"]))
        rr = results[ref["idx"]] if ref is not None else None
        if rr is None:
            run.count("frag_no_reference")
            continue
        a, b = (r["rc"], r["der"], r["ck"], r["re"]), (rr["rc"], rr["der"], rr["ck"], rr["re"])
        if a != b:
            run.violation("oracle:frag:order-dependent", {"what": "the answer depends on how the contents are cut into fragments: %s for this input, %s for the largest-first fragmentation of the same value" % (a, b),
                                                          "type": me["tn"], "command_line": lines[i], "c": outs[i], "canonical": outs[ref["idx"]], "module": m["text"]})
        else:
            run.count("frag_same_as_canonical")
    run.sample({"frag_lines": len(lines), "first": lines[0][:160] if lines else "", "c": outs[0] if outs else ""})
    return len(lines)


def leaf_layer(run, rng, tier, model):
    """the four skip functions alone (harness/leafdrv_c04.inc against coq/Rt/SafetySkip.v): model = C line by line,
    and the property read off the C's answer: a positive count is within the size, the answer known from the way
    the input was built (well-formed: its length; any proper prefix: want more; anything appended: no change)"""
    cases = XE.leaf_cases(rng, tier)
    lines = [c[0] for c in cases]
    cdrv = build_leafdrv()
    (co, ce), = run_many([(cdrv, lines)], per_chunk=400, max_deaths=40)
    mo = model_par(model, lines)
    tlog("leaf: %d lines through both sides, %d process deaths" % (len(lines), len(ce)))
    for i, ((line, kind, exp), c, mm) in enumerate(zip(cases, co, mo)):
        run.case(line)
        f = line.split()
        run.count("leaf_%s_%s" % (f[0], kind.split("+")[0]))
        rep = {"command_line": line, "kind": kind, "c": c, "model": mm, "expected_by_construction": exp,
               "replay_cmd": "echo '<command_line>' | <leafdrv>   and   | ocaml/modeldrv"}
        if i in ce:
            what, rc, err = ce[i]
            if rc == -1 and "not run" in err:
                run.count("leaf_not_run_after_too_many_deaths")
                continue
            site = stack_site(err)
            run.violation("crash:leaf:%s" % (site[0] if site else what), dict(rep, what="leaf driver died (rc=%s): sanitizer report, abort or signal" % rc,
                                                                             summary=re.findall(r"(SUMMARY: [^\n]*|runtime error: [^\n]*)", err or "")[:3], frames=site, stderr_tail=(err or "")[-2500:]))
            continue
        bad = None
        cf = c.split()
        size = 0 if f[-1 if f[0] in ("skiplen", "oskip") else 1] == "-" else len(f[-1 if f[0] in ("skiplen", "oskip") else 1]) // 2
        if f[0] == "skiplen" and cf and cf[0] == "OK" and not (1 <= int(cf[1]) <= size):
            bad = "ber_skip_length reports %s octets for a buffer of %d" % (cf[1], size)
        elif f[0] == "oskip" and cf and cf[0] == "OK" and not (1 <= int(cf[2]) <= size):
            bad = "oer_open_type_skip reports %s octets for a buffer of %d" % (cf[2], size)
        elif f[0] == "uskip" and cf and cf[0] == "OK" and not (8 <= int(cf[1]) and int(f[2]) + int(cf[1]) <= 8 * size):
            bad = "uper_open_type_skip moved %s bits from offset %s in a buffer of %d octets" % (cf[1], f[2], size)
        elif f[0] in ("xskip", "xskiprun") and cf and not (int(cf[1]) >= 0 and (int(cf[0]) == 1) == (int(cf[1]) == 0 and int(cf[0]) > 0) and int(cf[0]) in (-1, 0, 1)):
            bad = "xer_skip_unknown: return value and depth counter out of step"
        elif exp is not None and c != exp:
            bad = "built to give `%s`" % exp
        if bad:
            run.violation("oracle:leaf:%s:%s" % (f[0], kind), dict(rep, what=bad))
        if c != mm:
            run.violation("model:leaf:%s" % f[0], dict(rep, what="Rt/SafetySkip.v and the C disagree"), no_input=(bad is None))
    run.sample({"leaf_lines": len(lines), "first": lines[0], "c": co[0]})
    return len(lines)


def refine_disagreement(run, m, line, o, me, r, n, v, d):
    """the reference accepts and the C does not answer RC_OK / same consumed / same value: a violation unless the
    input lies inside a recorded finding (predicate evaluated on the input and the type)"""
    syn = me["syn"]
    c = me["case"]
    tree = m["trees"][c["tn"]]
    fid = None
    if syn == "ber":
        try:
            acc = BerAccepted(tree, me["data"])
            if r["rc"] == "FAIL" and acc.mixed_chains():
                fid = "C04-ber-chain-mixed-lengths"
            elif r["rc"] == "OK" and r["consumed"] == n and acc.negative_in_unsigned():
                fid = "C16-umax-negative"
        except (ValueError, IndexError):
            pass
    elif syn in ("oer", "uper") and r["rc"] == "FAIL" and zero_size_elem_list(tree, syn) and long_uniform_list(v):
        fid = "C04-zero-size-elements-guard"
    if fid:
        run.known_finding(fid, line)
        run.count("known_" + fid)
        return
    rep = {"what": "the reference decoder accepts this input (consumed %d, value %s) but the C returns %s" % (n, v[:200], o[:200]),
           "module": m["text"], "type": c["tn"], "model_type": c["ts"], "syntax": syn, "mutation": me["kind"], "command_line": line,
           "c": o, "model": "OK %d %s der=%s" % (n, v[:300], d[:300])}
    run.violation("refinement:Rt.%s_dec" % syn, rep)


FOREIGN_IDS = {"C01-uper-semiconstrained-lb", "C16-umax-negative", "C16-ulong-signed"}


def all_findings():
    """own findings (findings.d/C04.json) and the findings of other properties this check meets and classifies"""
    own = own_findings()
    path = os.path.join(VERIF, "known_findings.json")
    foreign = []
    if os.path.exists(path):
        foreign = [f for f in json.load(open(path))["findings"] if f["id"] in FOREIGN_IDS and f.get("status") == "open"]
    ids = {f["id"] for f in own}
    return own + [f for f in foreign if f["id"] not in ids]


def main(tier):
    if os.environ.get("C04_TRACE_AFTER"):
        import faulthandler
        faulthandler.dump_traceback_later(int(os.environ["C04_TRACE_AFTER"]), repeat=False)
    run = Run("C04", tier)
    run.findings = all_findings()
    rng = Rng(run.seed)
    if os.environ.get("C04_SKIP_PROOFS"):
        nthm, ndis, axioms, names = 0, 0, set(), []
    else:
        ok, out = coq_build()
        nthm, ndis, axioms, names, plog = obligations("C04") if ok else (0, 0, set(), [], out)
        gate = grep_gate()
        if not ok or ndis != nthm or gate or nthm == 0:
            run.violation("proof:Properties_C04", {"what": "Coq development does not build or an obligation is open",
                                                   "log_tail": (out if not ok else plog)[-2000:], "grep_gate": gate}, no_input=True)
    model = model_build()
    try:
        only = os.environ.get("C04_ONLY", "")
        nleaf = leaf_layer(run, Rng(run.seed * 7919 + 1), tier, model) if only in ("", "leaf", "ext") else 0
        xmods = ext_layer(run, Rng(run.seed * 7919 + 2), tier, model) if only in ("", "ext") else []
        tmods = tagmap_layer(run, Rng(run.seed * 7919 + 3), tier, model) if only in ("", "tagmap") else []
        nfrag = frag_layer(run, Rng(run.seed * 7919 + 4), tier, model) if only in ("", "frag") else 0
        mods = model_layer(run, rng, tier, model) if (only == "" and not os.environ.get("C04_ONLY_WIDE")) else []
        wmods = wide_layer(run, rng, tier) if only in ("", "wide") else []
    except BuildError as e:
        run.violation("build", {"what": str(e)[-2500:]}, no_input=True)
        return run.finish("proof", (nthm, ndis))
    if os.environ.get("C04_DUMP"):       # triage aid: every violation, not only the first 20 replays
        json.dump(run.violations, open(os.environ["C04_DUMP"], "w"), indent=1)
    tb = ["Coq 8.16.1 kernel; vm_compute only for the Example witnesses", "axioms under Print Assumptions: " + (", ".join(sorted(axioms)) or "none (Closed under the global context)"),
          "extraction: ExtrOcamlBasic only; OCaml 4.13.1; the model runs with a 64 MB stack (EXN Stack overflow = no statement)",
          "lib/modgen.py (generator, independent X.680 tagging), lib/widegen.py, lib/c04_util.py (mutators; BER walker used by the finding predicates)",
          "harness/moddrv.c + harness/moddrv_c04.inc: exact-size poisoned input buffer, allocation ledger by --wrap=malloc/calloc/realloc/free, ITIMER_VIRTUAL hang guard (2 s CPU); d4x: two more decodes with 32 octets behind the input",
          "lib/c04_tagmap.py (member-lookup shapes; their DER is built by the generator and must be accepted and re-encoded identically by the C), `tm4` (tables read from the emitted descriptors), `d4m` (members present, second-generation DER)",
          "lib/c04_ext.py + lib/extgen.py (families of extensible types, wrappers' DER derived from the model's DER of the plain member, leaf case generator with answers known by construction), harness/leafdrv_c04.inc",
          "gcc 12 -O1 with ASan + UBSan + LSan: memory safety / UB / leaks of the C are OBSERVED on the generated inputs, not proved"]
    return run.finish("proof", (nthm, ndis), trusted_base=tb,
                      checker_cmd="make -C /verif all && coqc -Q coq A1 coq/Props/Properties_C04.v",
                      extra_cov={"theorems": names, "modules": len(mods), "wide_modules": len(wmods), "ext_modules": len(xmods), "tagmap_modules": len(tmods), "leaf_lines": nleaf, "frag_lines": nfrag,
                                 "rule": "one case = one `d4` / `d4x` / `d4m` command (type, syntax, input octets), one `tmapok` table check, or one leaf command (skiplen / uskip / oskip / xskip / xskiprun); inputs are distinct per (type, syntax); mutants of valid DER/UPER/OER/XER encodings (truncation at every offset, tag/length octet bit flips, length forms, re-framings, splice, text damage), random strings, deep-nesting inputs; extensible-type layer: every encoding of a newer family member read by every member, every prefix, frame cuts, end-of-contents damage; member-lookup layer: structural faults at the member level (dupadj dupalt dupdist swap early late reprun all2 del foreign otheralt) of values of shapes that select each lookup branch, XER element re-arrangements, UPER/OER leading-octet bit flips",
                                 "traces_validated_against_impl": run.cov["evaluations"]},
                      assumptions=["PARTIAL: the theorems are about the Gallina reference decoders (consumed accounting, bounds, fuel, shape); memory safety, UB-freedom and leak-freedom of the compiled C are observed with sanitizers on the mutated inputs only",
                                   "the C accepting what the reference rejects (lenient decoding) is counted, not judged; XER and the wide algebra have no model (survival / consistency only)",
                                   "RC_WMORE on every proper prefix is C05's statement: only counted here"])


if __name__ == "__main__":
    sys.exit(main(sys.argv[1] if len(sys.argv) > 1 else "quick"))
