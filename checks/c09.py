"""C09 — PER/OER-visible constraints are the effective constraint.
Theorems: coq/Props/Properties_C09.v.  Tie (T+D): generated constraint trees are
written as ASN.1 modules; the asn1c built from the repository working tree is run
twice per module (-E -F -print-constraints, and code generation whose
asn_PER_type_* / asn_OER_type_* initialisers are parsed out of the .c files);
both are compared with the extracted model (compute / per_tables / oer_tables:
faithfulness) and with the Spec's effective constraint (oracle)."""
import sys, os, re, shutil, subprocess
sys.path.insert(0, os.path.join(os.path.dirname(os.path.abspath(__file__)), "..", "lib"))
from vlib import *
import c09_nest as NS

I63, U64 = 2**63, 2**64
SMALL = [-1, 0, 1, 2, 3, 5, 9, 10]
SMALL_SIZE = [0, 1, 2, 3, 5, 9, 10]
BOUNDARY = sorted(set([0, 1, -1, 127, 128, -128, -129, 255, 256, 32767, 32768, -32768, -32769, 65535, 65536, 65537,
                       2**31 - 1, 2**31, 2**31 + 1, -2**31, -2**31 - 1, 2**32 - 1, 2**32, 2**32 + 1, -2**32,
                       I63 - 1, -I63, -I63 + 1, I63 - 2]))
BOUNDARY_SIZE = [0, 1, 2, 127, 128, 255, 256, 16383, 16384, 65535, 65536, 65537, 2**31 - 1, 2**32]

# --------------------------------------------------------------------------
# trees.  ess: ('v',n) ('g',lo,hi) ('u',a,b) ('i',a,b) ('e',a,b) ('p',a) ('A',a)
#         spec: ('r',e) ('x',e) ('a',e,add);  link = [spec];  chain = [link]


def b_txt(b):
    return b if isinstance(b, str) else str(b)


def ess_txt(e):
    k = e[0]
    if k == 'v':
        return str(e[1])
    if k == 'g':
        return "%s..%s" % (b_txt(e[1]), b_txt(e[2]))
    if k == 'u':
        return "%s | %s" % (ess_txt(e[1]), ess_txt(e[2]))
    if k == 'i':
        return "%s ^ %s" % (ess_txt(e[1]), ess_txt(e[2]))
    if k == 'e':
        return "%s EXCEPT %s" % (ess_txt(e[1]), ess_txt(e[2]))
    if k == 'p':
        return "(%s)" % ess_txt(e[1])
    if k == 'A':
        return "ALL EXCEPT %s" % ess_txt(e[1])
    raise ValueError(k)


def ess_tok(e):
    k = e[0]
    if k == 'v':
        return "v %d" % e[1]
    if k == 'g':
        return "g %s %s" % (b_txt(e[1]), b_txt(e[2]))
    if k in 'uie':
        return "%s %s %s" % (k, ess_tok(e[1]), ess_tok(e[2]))
    return "%s %s" % (k, ess_tok(e[1]))


def spec_txt(s):
    if s[0] == 'r':
        return ess_txt(s[1])
    if s[0] == 'x':
        return ess_txt(s[1]) + ", ..."
    return "%s, ..., %s" % (ess_txt(s[1]), ess_txt(s[2]))


def spec_tok(s):
    return " ".join([s[0]] + [ess_tok(x) for x in s[1:]])


def chain_tok(chain):
    return " ".join([str(len(chain))] + [" ".join([str(len(l))] + [spec_tok(s) for s in l]) for l in chain])


def link_txt(link, size):
    return " ".join(("(SIZE(%s))" if size else "(%s)") % spec_txt(s) for s in link)


def group_defs(kind, name, chain):
    """ASN.1 definitions of one test group; the last one is the type under test"""
    base = {"T": "INTEGER", "O": "OCTET STRING", "Q": None}[kind]
    size = kind != "T"
    defs = []
    prev = None
    for i, link in enumerate(chain):
        nm = name if i == len(chain) - 1 else "%sp%d" % (name, i)
        if prev is None:
            if kind == "Q":
                assert len(link) <= 1
                defs.append("%s ::= SEQUENCE %s OF INTEGER" % (nm, link_txt(link, True)))
            else:
                defs.append(("%s ::= %s %s" % (nm, base, link_txt(link, size))).rstrip())
        else:
            defs.append(("%s ::= %s %s" % (nm, prev, link_txt(link, size))).rstrip())
        prev = nm
    return defs


def has_reversed(e):
    if e[0] == 'g':
        return isinstance(e[1], int) and isinstance(e[2], int) and e[1] > e[2]
    return any(has_reversed(x) for x in e[1:] if isinstance(x, tuple))


def ess_nodes(e):
    return 1 + sum(ess_nodes(x) for x in e[1:] if isinstance(x, tuple))


def ess_kinds(e, acc):
    acc.add(e[0])
    for x in e[1:]:
        if isinstance(x, tuple):
            ess_kinds(x, acc)


class Gen:
    def __init__(self, rng, universe, size):
        self.rng, self.U, self.size = rng, universe, size

    def leaf(self):
        r = self.rng
        if r.chance(1, 3):
            return ('v', r.choice(self.U))
        for _ in range(20):
            lo = "MIN" if r.chance(1, 6) else r.choice(self.U)
            hi = "MAX" if r.chance(1, 6) else r.choice(self.U)
            if isinstance(lo, int) and isinstance(hi, int) and lo > hi:
                lo, hi = hi, lo      # reversed ranges abort asn1c (candidate finding of C10): never generated
            return ('g', lo, hi)

    def elem(self, d):
        if d > 0 and self.rng.chance(1, 4):
            return ('p', self.unions(d - 1))
        return self.leaf()

    def ie(self, d):
        e = self.elem(d)
        if self.rng.chance(1, 7):
            return ('e', e, self.elem(d))
        return e

    def inters(self, d):
        n = self.rng.choice([1, 1, 1, 1, 2, 2, 3]) if d > 0 else self.rng.choice([1, 1, 1, 2])
        e = self.ie(d)
        for _ in range(n - 1):
            e = ('i', e, self.ie(d))
        return e

    def unions(self, d):
        n = self.rng.choice([1, 1, 2, 2, 3])
        e = self.inters(d)
        for _ in range(n - 1):
            e = ('u', e, self.inters(d))
        return e

    def top(self, d):
        # ALL EXCEPT is outside the property's list of constructs (asn1c ignores it): not generated
        return self.unions(d)

    def spec(self, d):
        k = self.rng.below(10)
        if k < 6:
            return ('r', self.top(d))
        if k < 8:
            return ('x', self.top(d))
        return ('a', self.top(d), self.top(max(d - 1, 0)))

    def link(self, d, maxn=3):
        n = min(maxn, self.rng.choice([1, 1, 1, 1, 1, 1, 2, 2, 2, 3]))
        return [self.spec(d) for _ in range(n)]

    def chain(self, d, kind):
        n = self.rng.choice([1, 1, 1, 1, 1, 1, 2, 2, 3])
        ch = []
        for i in range(n):
            if i > 0 and self.rng.chance(1, 8):
                ch.append([])        # B ::= A   (no own constraint)
            else:
                ch.append(self.link(d, 1 if (kind == "Q" and i == 0) else 3))
        if not any(ch):
            ch[0] = self.link(d, 1)
        return ch


def enumerate_small(universe, with_minmax=True):
    """every leaf, and every one-operator tree over two leaves, of the small universe"""
    leaves = [('v', v) for v in universe]
    los = (["MIN"] if with_minmax else []) + list(universe)
    his = list(universe) + (["MAX"] if with_minmax else [])
    for lo in los:
        for hi in his:
            if isinstance(lo, int) and isinstance(hi, int) and lo > hi:
                continue
            leaves.append(('g', lo, hi))
    return leaves


# --------------------------------------------------------------------------
# parsing what asn1c prints / emits

HDR = re.compile(r"^(\w+) ::= ")
EXPL = re.compile(r"^-- (Practical|OER-visible|PER-visible) constraints \((.*?)\): (.*)$")


def parse_print(text):
    """-> {type name: {'Practical': [v,s,f], 'OER-visible': ..., 'PER-visible': ...}}"""
    out, cur = {}, None
    for line in text.split("\n"):
        m = HDR.match(line)
        if m:
            cur = m.group(1)
            out[cur] = {}
            continue
        m = EXPL.match(line)
        if m and cur is not None:
            if m.group(2) == "(null)":
                continue
            cols = m.group(3).replace(" | ", "|").split(" ")
            cols = (cols + ["", "", ""])[:3]
            out[cur][m.group(1)] = cols
    return out


ROW = re.compile(r"\{\s*(APC_\w+)(\s*\|\s*APC_EXTENSIBLE)?\s*,\s*(-?\d+)\s*,\s*(-?\d+)\s*,\s*([^,]+?)\s*,\s*([^,}]+?)\s*\}")
PER_T = re.compile(r"asn_per_constraints_t asn_PER_type_(\w+)_constr_\d+ CC_NOTUSED = \{\n(.*?)\n(.*?)\n", re.S)
OER_T = re.compile(r"asn_oer_constraints_t asn_OER_type_(\w+)_constr_\d+ CC_NOTUSED = \{\n\s*\{\s*(\w+)\s*,\s*(\w+)\s*\}[^\n]*\n\s*(-?\d+)")


def c_int(s):
    s = s.strip()
    if s == "(-2147483647L - 1)":
        return -2147483648
    return int(s)


def parse_row(s):
    m = ROW.search(s)
    if not m:
        return "?" + s.strip()
    kind = {"APC_UNCONSTRAINED": "U", "APC_SEMI_CONSTRAINED": "S", "APC_CONSTRAINED": "C"}.get(m.group(1), "?")
    return "%s%s,%d,%d,%d,%d" % (kind, "X" if m.group(2) else "", int(m.group(3)), int(m.group(4)), c_int(m.group(5)), c_int(m.group(6)))


def parse_tables(ctext):
    """-> (PER string 'row/row' or None, OER string 'w,p,size' or None)"""
    per = oer = None
    m = PER_T.search(ctext)
    if m:
        per = parse_row(m.group(2)) + "/" + parse_row(m.group(3))
    m = OER_T.search(ctext)
    if m:
        oer = "%s,%s,%s" % (m.group(2), m.group(3), m.group(4))
    return per, oer


# --------------------------------------------------------------------------
# running asn1c on modules of groups


def write_module(path, groups):
    with open(path, "w") as f:
        f.write("M DEFINITIONS ::= BEGIN\n")
        for g in groups:
            for d in g["defs"]:
                f.write(d + "\n")
        f.write("END\n")


def run_asn1c(asn1c, args, cwd):
    p = subprocess.run([asn1c] + args, cwd=cwd, stdout=subprocess.PIPE, stderr=subprocess.PIPE, text=True, errors="replace", timeout=300)
    return p.returncode, p.stdout, p.stderr


FATAL_FOR = re.compile(r'This error happened for "(\w+)"')


def asn1c_print(asn1c, wd, groups, stats):
    """run -E -F -print-constraints; groups asn1c refuses are marked g['c']='REJECT',
    groups on which it dies are marked 'CRASH' (found by bisection)."""
    live = list(groups)
    path = os.path.join(wd, "m.asn1")
    while live:
        write_module(path, live)
        rc, out, err = run_asn1c(asn1c, ["-E", "-F", "-print-constraints", "m.asn1"], wd)
        stats["asn1c_runs"] = stats.get("asn1c_runs", 0) + 1
        if rc == 0 and "-- Practical" in out:
            pr = parse_print(out)
            for g in live:
                g["print"] = pr.get(g["name"], {})
            return
        names = set(FATAL_FOR.findall(err))
        if names:
            hit = [g for g in live if any(nm == g["name"] or nm.startswith(g["name"] + "p") for nm in names)]
            if hit:
                for g in hit:
                    g["c"] = "REJECT"
                    g["why"] = sorted(nm for nm in names if nm == g["name"] or nm.startswith(g["name"] + "p"))
                    live.remove(g)
                continue
        # crash or unidentified failure: bisect
        if len(live) == 1:
            live[0]["c"] = "CRASH" if rc < 0 or rc >= 128 else "REJECT"
            live[0]["why"] = ("rc=%d " % rc) + err.strip()[-300:]
            return
        h = len(live) // 2
        asn1c_print(asn1c, wd, live[:h], stats)
        asn1c_print(asn1c, wd, live[h:], stats)
        return


def asn1c_codegen(asn1c, skel, wd, groups, stats):
    live = [g for g in groups if "c" not in g]
    if not live:
        return
    gd = os.path.join(wd, "gen")
    shutil.rmtree(gd, ignore_errors=True)
    os.makedirs(gd)
    write_module(os.path.join(gd, "m.asn1"), live)
    rc, out, err = run_asn1c(asn1c, ["-S", skel, "-pdu=all", "-fcompound-names", "m.asn1"], gd)
    stats["asn1c_runs"] = stats.get("asn1c_runs", 0) + 1
    for g in live:
        p = os.path.join(gd, g["name"] + ".c")
        if rc != 0 or not os.path.exists(p):
            g["tables"] = ("codegen-failed rc=%d" % rc, err.strip()[-200:])
            continue
        g["tables"] = parse_tables(open(p).read())


def canon_c(g):
    """the line the model is expected to print for this group"""
    if "c" in g:
        return g["c"]
    col = 0 if g["kind"] == "T" else 1
    pr = g.get("print", {})
    f = []
    for tag, key in (("prac", "Practical"), ("oer", "OER-visible"), ("per", "PER-visible")):
        cols = pr.get(key)
        f.append("%s=%s" % (tag, (cols[col] or "-") if cols else "?"))
    per, oer = g.get("tables", (None, None))
    if g.get("nest"):
        # nested-marker region: SIZE column, size row of the PER table, size of the OER table
        f.append("PERS=%s" % (per.split("/")[1] if per and "/" in per else per))
        f.append("OERS=%s" % (oer.split(",")[2] if oer and oer.count(",") == 2 else oer))
        return " ".join(f)
    f.append("PER=%s" % per)
    f.append("OER=%s" % oer)
    return " ".join(f)


def canon_m(line):
    if line.startswith("prac=FAIL"):
        return "REJECT"
    if "ABORT" in line.split(" PER=")[0]:
        return "CRASH"
    return line


# --------------------------------------------------------------------------


def make_groups(rng, tier):
    groups = []

    def add(kind, chain, origin):
        name = "%s%d" % (kind, len(groups))
        groups.append({"kind": kind, "name": name, "chain": chain, "origin": origin,
                       "defs": group_defs(kind, name, chain)})

    # hand-picked: the witnesses of the theorems and findings, boundary cases
    fixed = [
        ("T", [[('a', ('g', 1, 10), ('g', 20, 30))]]),
        ("T", [[('r', ('g', 1, 10))]]),
        ("T", [[('r', ('u', ('g', 1, 10), ('g', 20, 30)))]]),
        ("T", [[('r', ('g', 1, 10)), ('r', ('g', 2, 5))]]),
        ("T", [[('r', ('i', ('p', ('g', 1, 10)), ('p', ('g', 2, 5))))]]),
        ("T", [[('r', ('e', ('g', 1, 10), ('v', 5)))]]),
        ("T", [[('x', ('g', 1, 10))], [('x', ('g', 1, 5)), ('r', ('g', 2, 3))]]),
        ("T", [[('x', ('g', 1, 10)), ('x', ('g', 1, 5)), ('r', ('g', 2, 3))]]),
        ("T", [[('r', ('u', ('i', ('p', ('g', 1, 5)), ('p', ('g', 7, 9))), ('g', 20, 30)))]]),
        ("T", [[('x', ('g', "MIN", 10))]]),
        ("T", [[('r', ('g', "MIN", 20)), ('r', ('g', -I63, 15))]]),
        ("T", [[('r', ('g', -20, "MAX")), ('r', ('g', -15, I63 - 1))]]),
        ("T", [[('r', ('g', 0, 65535))]]), ("T", [[('r', ('g', 0, 65536))]]), ("T", [[('r', ('g', 1, 65536))]]),
        ("T", [[('r', ('g', -I63, I63 - 1))]]),
        ("T", [[('r', ('u', ('g', 1, 4), ('g', 5, 10)))]]),
        ("O", [[('a', ('g', 1, 10), ('v', 20))]]),
        ("O", [[('r', ('v', 5))]]), ("O", [[('r', ('g', 0, 65535))]]), ("O", [[('r', ('g', 1, 65536))]]),
        ("Q", [[('r', ('g', 1, 4))]]),
        ("Q", [[('x', ('g', 1, 4))], [('r', ('g', 2, 3))]]),
    ]
    for kind, chain in fixed:
        add(kind, chain, "fixed")

    nq = {"quick": (1100, 300, 350, 250), "thorough": (14000, 5000, 5000, 3000)}[tier]
    g_small = Gen(rng, SMALL, False)
    g_bound = Gen(rng, BOUNDARY, False)
    g_size = Gen(rng, SMALL_SIZE, True)
    g_bsize = Gen(rng, BOUNDARY_SIZE, True)
    for _ in range(nq[0]):
        add("T", g_small.chain(rng.choice([1, 2, 2, 3]), "T"), "small")
    for _ in range(nq[1]):
        add("T", g_bound.chain(rng.choice([0, 1, 2]), "T"), "boundary")
    for _ in range(nq[2]):
        kind = rng.choice(["O", "O", "Q"])
        add(kind, g_size.chain(rng.choice([1, 2]), kind), "size-small")
    for _ in range(nq[3]):
        kind = rng.choice(["O", "O", "Q"])
        add(kind, g_bsize.chain(rng.choice([0, 1]), kind), "size-boundary")

    # reference chains whose referencing type has a marker in a non-last serial constraint
    # (nested sub-ranges, so that most are accepted)
    for _ in range(60 if tier == "quick" else 1200):
        a = sorted(rng.choice(SMALL_SIZE) for _ in range(6))
        first = (rng.choice("rx"), ('g', a[0], a[5]))
        mid = (rng.choice("xxa"), ('g', a[1], a[4]))
        if mid[0] == 'a':
            mid = ('a', ('g', a[1], a[4]), ('v', rng.choice(SMALL_SIZE)))
        lastc = (rng.choice("rrx"), ('g', a[2], a[3]))
        kind = rng.choice(["T", "T", "O", "Q"])
        add(kind, [[first], [mid, lastc]] if rng.chance(3, 4) else [[first], [mid], [lastc]], "chain-marker")

    # exhaustive: every leaf, every one-operator tree over two leaves (a sample of
    # those in the quick tier), with each marker form
    leaves = enumerate_small(SMALL)
    for lf in leaves:
        add("T", [[('r', lf)]], "exh-leaf")
        add("T", [[('x', lf)]], "exh-leaf")
    pairs = [(a, b) for a in leaves for b in leaves]
    if tier == "quick":
        pairs = rng.shuffle(pairs)[:500]
    for a, b in pairs:
        op = rng.choice("uie") if tier == "quick" else None
        for o in ([op] if op else "uie"):
            if o == 'e':
                e = ('e', a, b)
            else:
                e = (o, a, b)
            add("T", [[(rng.choice("rrx"), e)]], "exh-op")
        if tier != "quick" or rng.chance(1, 3):
            add("T", [[('r', a), ('r', b)]], "exh-serial")
            add("T", [[('a', a, b)]], "exh-add")
    return groups


def make_nested_groups(rng, tier, start):
    """the nested-marker region (lib/c09_nest.py): SIZE operands with markers of their own"""
    groups = []
    for kind, bare, chain, origin, words in NS.make_nested(rng, tier):
        name = "N%d" % (start + len(groups))
        groups.append({"kind": kind, "nest": True, "bare": bare, "name": name, "chain": chain, "origin": origin,
                       "defs": NS.ngroup_defs(kind, bare, name, chain, words)})
    return groups


NQUIRKS = {"a": "C09-additions-in-root", "c": "C09-chain-marker-kept", "e": "C09-empty-union-operand"}
NMASKS = sorted(("".join(k for i, k in enumerate("ace") if m >> i & 1) for m in range(1, 8)), key=lambda x: (len(x), x))


def nested_oracle(run, g, model_spec):
    """Spec vs asn1c for one group of the nested-marker region.  The oracle is the Python
    implementation of the X.680 rules (lib/c09_nest.py:oracle), cross-checked against the Coq
    Spec (CtNest.nroot / nextc).  Returns None (agree / not claimed), a list of finding ids, or
    the violation record."""
    o = NS.oracle(g["chain"], g["bare"])
    ms = dict(f.split("=", 1) for f in model_spec.split(" "))
    if (ms["empty"] == "true") != o["empty"] or (not o["empty"] and (ms["vis"] != o["vis"] or ms["PERS"] != o["PER"])):
        return {"kind": "oracle:python-vs-coq-spec", "what": "the two implementations of the Spec disagree (harness defect)",
                "python": o["vis"] + " " + o["PER"], "coq": model_spec}
    c_vis = (g["print"].get("PER-visible") or ["", "", ""])[1] or "-"
    per, oer = g["tables"]
    c_row = per.split("/")[1]
    c_oer = oer.split(",")[2] if oer else None

    def differs(o):
        d = []
        if o["empty"]:
            if not c_vis.endswith(":Empty!"):
                d.append(("empty", "spec: root is empty", c_vis))
            return d
        if c_vis != o["vis"]:
            d.append(("visible-range", o["vis"], c_vis))
        if c_row != o["PER"]:
            d.append(("per-size-row", o["PER"], c_row))
        if o["OER"] not in ("unclaimed", "empty") and c_oer != o["OER"]:
            d.append(("oer-size", o["OER"], c_oer))
        return d
    run.count("noracle:" + ("empty-root(no claim)" if o["empty"] else "ext" if o["ext"] else "not-ext"))
    diffs = differs(o)
    if not diffs:
        run.count("noracle:agree")
        return None
    for m in NMASKS:
        if "c" in m and len([l for l in g["chain"] if l]) < 2:
            continue
        if not differs(NS.oracle(g["chain"], g["bare"], m)):
            return [NQUIRKS[k] for k in m]
    c_ext = ",...)" in c_vis
    lb = o["root"][0][0] if o["root"] else 0
    return {"kind": "oracle:nested-extensibility" if (not o["empty"] and c_ext != o["ext"]) else "oracle:effective-constraint",
            "what": "the extensibility / range asn1c derives for set arithmetic over SIZE operands with their own markers "
                    "is not the one X.680 G.4 assigns (union, intersection: any operand; EXCEPT: the first; serial: the last)",
            "asn1": g["defs"], "command_line": "spec_c09n " + NS.nchain_tok(g["chain"]),
            "marker_mask": [NS.marker_mask(s[1]) for l in g["chain"] for s in l],
            "differences": [{"what": d[0], "spec": d[1], "asn1c": d[2]} for d in diffs],
            "value_encoded_differently": {"size": lb, "spec_layout": o["PER"], "asn1c_layout": c_row},
            "replay_cmd": "printf 'M DEFINITIONS ::= BEGIN\\n%s\\nEND\\n' > m.asn1 && asn1c -E -F -print-constraints m.asn1" % "\\n".join(g["defs"])}


def specs_of(chain):
    return [s for link in chain for s in link]


def witness_value(spec, c_row):
    """a root value whose PER encoding differs between the two layouts (the lower
    bound of the Spec's root: its offset / field width / extension bit differ)"""
    if spec["lb"] not in ("MIN", "MAX"):
        return {"value": int(spec["lb"]), "spec_layout": spec["PER"], "asn1c_layout": c_row}
    if spec["ub"] not in ("MIN", "MAX"):
        return {"value": int(spec["ub"]), "spec_layout": spec["PER"], "asn1c_layout": c_row}
    return {"value": 0, "spec_layout": spec["PER"], "asn1c_layout": c_row}


QUIRKS = {"a": "C09-additions-in-root", "c": "C09-chain-marker-kept", "e": "C09-empty-union-operand", "u": "C09-unconstrained-extensible"}
MASKS = sorted(("".join(k for i, k in enumerate("aceu") if m >> i & 1) for m in range(1, 16)), key=lambda x: (len(x), x))


def classify(g, c_vis, c_row, c_oer, model):
    """known-finding predicates (coq/Fix/CtQuirks.v): each finding is one rule
    changing the Spec; a disagreement is attributed to a set of findings only if
    the Spec changed by exactly those rules reproduces what asn1c printed and
    emitted (smallest set first).  Returns the finding ids or None."""
    qs = ["quirk_c09 %s %s %s" % (m, g["kind"], chain_tok(g["chain"])) for m in MASKS]
    _, qo, _ = run_lines(model, qs)
    for m, line in zip(MASKS, qo):
        q = dict(f.split("=", 1) for f in line.split(" "))
        if q["empty"] == "true":
            if c_vis.endswith(":Empty!"):
                return [QUIRKS[k] for k in m]
            continue
        if q["vis"] == c_vis and q["PER"] == c_row and (q["OER"] in ("unclaimed", "empty") or q["OER"] == c_oer):
            return [QUIRKS[k] for k in m]
    return None


def main(tier):
    run = Run("C09", tier)
    rng = Rng(run.seed)
    ok, out = coq_build()
    have_props = os.path.exists(os.path.join(COQ, "Props", "Properties_C09.v"))
    nthm, ndis, axioms, names, plog = obligations("C09") if (ok and have_props) else (0, 0, set(), [], out)
    gate = grep_gate()
    if not ok or ndis != nthm or gate or not have_props:
        run.violation("proof:Properties_C09", {"what": "Coq development does not build or an obligation is open",
                                               "log_tail": (out if not ok else plog)[-2000:], "grep_gate": gate}, no_input=True)
    model = model_build()
    try:
        asn1c, skel = build_asn1c()
    except BuildError as e:
        run.violation("build:asn1c", {"what": str(e)[-2000:]}, no_input=True)
        return run.finish("proof", (nthm, ndis))

    groups = make_groups(rng, tier)
    groups += make_nested_groups(rng, tier, len(groups))
    stats = {}
    wd = os.path.join(scratch(), "c09")
    os.makedirs(wd, exist_ok=True)
    B = 200
    for i in range(0, len(groups), B):
        batch = groups[i:i + B]
        asn1c_print(asn1c, wd, batch, stats)
        asn1c_codegen(asn1c, skel, wd, batch, stats)

    # one model line per type definition of the group (asn1c checks each link of a chain)
    plines = []
    for g in groups:
        for k in range(1, len(g["chain"]) + 1):
            if g.get("nest"):
                plines.append("c09n %s %d %s" % (g["kind"], 1 if g["bare"] else 0, NS.nchain_tok(g["chain"][:k])))
            else:
                plines.append("c09 %s %s" % (g["kind"], chain_tok(g["chain"][:k])))
    rc, pmo, me = run_lines(model, plines)
    if rc != 0 or len(pmo) != len(plines):
        raise RuntimeError("model driver failed: rc=%s %d/%d %s" % (rc, len(pmo), len(plines), me))
    lines, mo, j = [], [], 0
    for g in groups:
        n = len(g["chain"])
        outs = [canon_m(x) for x in pmo[j:j + n]]
        lines.append(plines[j + n - 1])
        bad = [x for x in outs[:-1] if x in ("REJECT", "CRASH")]
        mo.append(bad[0] if bad else pmo[j + n - 1])
        j += n

    # faithfulness: model vs asn1c
    for g, line, m in zip(groups, lines, mo):
        c = canon_c(g)
        mm = canon_m(m)
        run.case(line)
        run.count("origin:" + g["origin"])
        run.count("kind:" + g["kind"])
        run.count("outcome:" + (c if c in ("REJECT", "CRASH") else "accepted"))
        g["model"], g["cline"] = m, c
        if g.get("nest"):
            run.count("nest-kind:%s%s" % (g["kind"], "-bare" if g["bare"] else ""))
            for sp in specs_of(g["chain"]):
                na = NS.n_atoms(sp[1])
                run.count("nest-shape:atoms=%s,depth=%s" % (na if na < 4 else "4-6" if na < 7 else "7+", min(NS.n_depth(sp[1]), 4)))
        if mm != c:
            run.count("model_vs_code_diff")
            run.violation("correspondence:Crange(%s)" % g["kind"],
                          {"what": "model and asn1c disagree", "asn1": g["defs"], "command_line": line, "model": mm, "asn1c": c,
                           "why": g.get("why"), "_pending": True})
    for g in groups[:3] + groups[len(groups) // 2: len(groups) // 2 + 2]:
        run.sample({"asn1": g["defs"], "asn1c": g["cline"], "model": g["model"]})

    # property oracle: Spec (X.680 root + X.691/X.696 effective constraint) vs what asn1c printed / emitted
    slines = [("spec_c09n %s" % NS.nchain_tok(g["chain"])) if g.get("nest") else ("spec_c09 %s %s" % (g["kind"], chain_tok(g["chain"])))
              for g in groups]
    rc, so, me = run_lines(model, slines)
    if rc != 0 or len(so) != len(slines):
        raise RuntimeError("model driver failed on spec queries: rc=%s %s" % (rc, me))
    oracle_bad = set()
    for g, sl in zip(groups, so):
        if "c" in g or not g.get("print") or not isinstance(g.get("tables"), tuple) or g["tables"][0] is None:
            continue
        if g.get("nest"):
            r = nested_oracle(run, g, sl)
            if isinstance(r, list):
                for fid in r:
                    run.count("noracle:" + fid)
                    run.known_finding(fid, g["defs"])
            elif r is not None:
                oracle_bad.add(g["name"])
                run.violation(r.pop("kind"), r)
            continue
        spec = dict(f.split("=", 1) for f in sl.split(" "))
        col = 0 if g["kind"] == "T" else 1
        c_vis = (g["print"].get("PER-visible") or ["", "", ""])[col] or "-"
        per_rows = g["tables"][0].split("/")
        c_row = per_rows[col]
        c_oer = g["tables"][1]
        c_oer = ",".join(c_oer.split(",")[:2]) if g["kind"] == "T" else c_oer.split(",")[2]
        diffs = []
        if spec["empty"] == "true":
            run.count("oracle:empty-root(no claim)")
            if not c_vis.endswith(":Empty!"):
                diffs.append(("empty", "spec: root is empty", c_vis))
        else:
            if c_vis != spec["vis"]:
                diffs.append(("visible-range", spec["vis"], c_vis))
            if c_row != spec["PER"]:
                diffs.append(("per-row", spec["PER"], c_row))
            if spec["OER"] not in ("unclaimed", "empty") and c_oer != spec["OER"]:
                diffs.append(("oer-row", spec["OER"], c_oer))
            run.count("oracle:" + ("oer-claimed" if spec["OER"] != "unclaimed" else "oer-unclaimed"))
        if not diffs:
            run.count("oracle:agree")
            continue
        fids = classify(g, c_vis, c_row, c_oer, model)
        if fids:
            for fid in fids:
                run.count("oracle:" + fid)
                run.known_finding(fid, g["defs"])
            continue
        oracle_bad.add(g["name"])
        run.violation("oracle:effective-constraint",
                      {"what": "the range / table asn1c derives is not the effective constraint of the expression",
                       "asn1": g["defs"], "command_line": "spec_c09 %s %s" % (g["kind"], chain_tok(g["chain"])),
                       "differences": [{"what": d[0], "spec": d[1], "asn1c": d[2]} for d in diffs],
                       "value_encoded_differently": witness_value(spec, c_row),
                       "replay_cmd": "printf 'M DEFINITIONS ::= BEGIN\\n%s\\nEND\\n' > m.asn1 && asn1c -E -F -print-constraints m.asn1" % "\\n".join(g["defs"])})
    for v in run.violations:
        if v.pop("_pending", False):
            v["no_failing_input_found"] = not any(nm in " ".join(v.get("asn1", [])) for nm in oracle_bad)
    # only the first 20 violations are written out: those for which a failing input was found first
    # and every kind represented (round-robin over the kinds)
    seen_kind = {}
    for v in run.violations:
        v["_rank"] = seen_kind.get(v["kind"], 0)
        seen_kind[v["kind"]] = v["_rank"] + 1
    run.violations.sort(key=lambda v: (bool(v.get("no_failing_input_found")), v["_rank"]))
    for v in run.violations:
        del v["_rank"]
    tb = ["Coq 8.16.1 kernel + vm_compute (refuted witnesses only)",
          "axioms under Print Assumptions: " + (", ".join(sorted(axioms)) or "none (Closed under the global context)"),
          "extraction: ExtrOcamlBasic only; OCaml 4.13.1; ocaml/drv_c09.ml (tree parser, range printer)",
          "checks/c09.py: tree generator + ASN.1 printer, parser of -print-constraints output and of the emitted asn_PER_/asn_OER_ initialisers",
          "the asn1c yacc/lex front end outside the constraint sublanguage; generated C is read as text, not compiled"]
    return run.finish("proof", (nthm, ndis), trusted_base=tb,
                      checker_cmd="make -C /verif all && coqc -Q coq A1 coq/Props/Properties_C09.v",
                      extra_cov={"theorems": names, "asn1c_runs": stats.get("asn1c_runs", 0),
                                 "rule": "one case = one type definition (constraint tree, possibly along a reference chain); all distinct command lines",
                                 "traces_validated_against_impl": len(lines)},
                      assumptions=[])


if __name__ == "__main__":
    sys.exit(main(sys.argv[1] if len(sys.argv) > 1 else "quick"))
