"""C20 — unber / enber.
Theorems: coq/Props/Properties_C20.v (model: coq/Tools/Unber.v, Enber.v; spec: coq/Tools/BerTree.v).
Tie: the REAL `unber -p` and `enber` binaries rebuilt from the repository working
tree (vlib.build_tools) plus an ASan/UBSan build of unber made here, against
  (i)  the extracted model (ocaml/drv_c20.ml renders the model's line records to
       the exact text; compared byte for byte with the binary's stdout, the exit
       class/diagnostic, and enber's output and diagnostic), and
  (ii) the property oracle, independent of the model: enber(unber -p(x)) == x for
       well-formed minimal x, the O/T/TL/V attributes equal the TLV structure
       found by the small BER walker below, and on arbitrary bytes unber exits 0
       or 65-with-diagnostic, without signal, sanitizer report or timeout."""
import sys, os, re, json, subprocess, multiprocessing, multiprocessing.pool
sys.path.insert(0, os.path.join(os.path.dirname(os.path.abspath(__file__)), "..", "lib"))
from vlib import *

DEEP_STACK = 1 << 20       # stack limit for the deep-recursion case (default is 8 MiB: same death at depth ~40000)
TAG_LIMIT = 2**30          # ber_fetch_tag: tag numbers < 2^30 (32-bit ber_tlv_tag_t, 2 class bits)
TL_BUF = 32                # process_deeper: unsigned char tagbuf[32]
CLASS_WORD = ["UNIVERSAL ", "APPLICATION ", "", "PRIVATE "]

# --------------------------------------------------------------------------
# reference encoder (X.690 8.1.2-8.1.5) over trees
#   ('P', cls, num, body: bytes)  |  ('C', cls, num, definite: bool, [children])
# pad = None: minimal octets; pad = function node -> (tagpad, lenpad) for the
# non-minimal variants (tagpad extra 0x80 octets / forced long form, lenpad
# extra leading zero octets / forced long form).


def enc_tag(cls, num, constr, tagpad=0):
    first = (cls << 6) | (0x20 if constr else 0)
    if num <= 30 and tagpad == 0:
        return bytes([first | num])
    ds = []
    n = num
    while True:
        ds.append(n & 0x7f)
        n >>= 7
        if n == 0:
            break
    ds += [0] * max(0, tagpad - 1)       # tagpad-1 leading 0x80 octets (tagpad=1: long form only)
    ds.reverse()
    return bytes([first | 31] + [0x80 | d for d in ds[:-1]] + [ds[-1]])


def enc_len(n, lenpad=0):
    if n <= 127 and lenpad == 0:
        return bytes([n])
    bs = n.to_bytes(max(1, (n.bit_length() + 7) // 8), "big")
    bs = b"\x00" * max(0, lenpad - 1) + bs
    return bytes([0x80 | len(bs)]) + bs


def encode(t, pad=None):
    tp, lp = pad(t) if pad else (0, 0)
    if t[0] == 'P':
        _, cls, num, body = t
        return enc_tag(cls, num, False, tp) + enc_len(len(body), lp) + body
    _, cls, num, definite, ch = t
    content = b"".join(encode(c, pad) for c in ch)
    if definite:
        return enc_tag(cls, num, True, tp) + enc_len(len(content), lp) + content
    return enc_tag(cls, num, True, tp) + b"\x80" + content + b"\x00\x00"


def tree_tokens(t):
    if t[0] == 'P':
        return ["P", str((t[2] << 2) | t[1]), hexs(t[3])]
    out = ["C", str((t[2] << 2) | t[1]), "1" if t[3] else "0", str(len(t[4]))]
    for c in t[4]:
        out += tree_tokens(c)
    return out


def depth_of(t):
    d, stack = 0, [(t, 1)]
    while stack:
        n, k = stack.pop()
        d = max(d, k)
        if n[0] == 'C':
            stack += [(c, k + 1) for c in n[4]]
    return d


# --------------------------------------------------------------------------
# independent BER walker: the TLV structure of x, computed without the model.
# Returns (nodes, wf, info); nodes in document order:
#   (offset, cls, num, constructed, header_len, content_len or -1)
# wf = x is a concatenation of complete, properly nested TLVs.


def walk(x):
    nodes = []
    info = {"nonminimal": False, "maxtag": 0, "maxhdr": 0, "depth": 0}
    n = len(x)
    pos = 0
    stack = []          # frames: [end or None (indefinite)]
    while True:
        # close finished definite frames
        while stack and stack[-1] is not None and pos == stack[-1]:
            stack.pop()
        if pos == n and not stack:
            return nodes, True, info
        if pos >= n:
            return nodes, False, info
        if stack and stack[-1] is not None and pos > stack[-1]:
            return nodes, False, info
        start = pos
        b0 = x[pos]; pos += 1
        cls, constr, num = b0 >> 6, bool(b0 & 0x20), b0 & 0x1f
        if num == 0x1f:
            num = 0
            cnt = 0
            while True:
                if pos >= n:
                    return nodes, False, info
                o = x[pos]; pos += 1; cnt += 1
                if cnt == 1 and o == 0x80:
                    info["nonminimal"] = True
                num = (num << 7) | (o & 0x7f)
                if not o & 0x80:
                    break
            if num <= 30:
                info["nonminimal"] = True
        if pos >= n:
            return nodes, False, info
        l0 = x[pos]; pos += 1
        if l0 < 0x80:
            ln = l0
        elif l0 == 0x80:
            if not constr:
                return nodes, False, info        # indefinite primitive: not BER
            ln = -1
        elif l0 == 0xff:
            return nodes, False, info
        else:
            k = l0 & 0x7f
            if pos + k > n:
                return nodes, False, info
            ln = int.from_bytes(x[pos:pos + k], "big")
            if x[pos] == 0 or ln <= 127:
                info["nonminimal"] = True
            pos += k
        hl = pos - start
        # end-of-contents inside an indefinite frame
        if stack and stack[-1] is None and x[start:start + 2] == b"\x00\x00":
            stack.pop()
            continue
        info["maxtag"] = max(info["maxtag"], num)
        info["maxhdr"] = max(info["maxhdr"], hl)
        nodes.append((start, cls, num, constr, hl, ln))
        for e in stack:
            if e is not None and (pos > e or (ln >= 0 and pos + ln > e)):
                return nodes, False, info
        if ln >= 0 and pos + ln > n:
            return nodes, False, info
        if constr:
            stack.append(None if ln < 0 else pos + ln)
            info["depth"] = max(info["depth"], len(stack))
        else:
            pos += ln


# --------------------------------------------------------------------------
# parsing what the binaries print

OPEN_RE = re.compile(rb'^( *)<([PCI]) O="(\d+)" T="\[(UNIVERSAL |APPLICATION |PRIVATE |)(\d+)\]" TL="(\d+)" V="(\d+|Indefinite)"( A="[^"]*")?>')
DIAGS = [
    (re.compile(r"Too long TL sequence \((\d+) >= (-?\d+)\) at (\d+)"), "TOOLONG_LIMIT:%s:%s:%s"),
    (re.compile(r"Too long TL sequence \((\d+) bytes\) at (\d+)"), "TOOLONG_BUF:%s:%s"),
    (re.compile(r"Unexpected end of file \(TL\) at (\d+)"), "EOF_TL:%s"),
    (re.compile(r"Fatal error decoding tag at (\d+)"), "TAGERR:%s"),
    (re.compile(r"Fatal error decoding value length at (\d+)"), "LENERR:%s"),
    (re.compile(r"Outer tag length doesn't match inner tag length at (\d+)"), "MISMATCH:%s"),
    (re.compile(r"Structure advertizes length \((-?\d+)\) greater than of a parent container \((-?\d+)\)"), "EXCEEDS:%s:%s"),
    (re.compile(r"Unexpected end of file \(V\)"), "EOF_V"),
]
EDIAGS = [("Cannot encode TL", "CANNOT_ENCODE_TL"), ("Invalid TL or V value", "INVALID_TLV"), ("Invalid tag value", "INVALID_TAG"),
          ("Could not encode value", "VALUE_LEN")]


def unber_exit(rc, err):
    if rc == 0:
        return "OK" if not err.strip() else "OK+stderr"
    if rc == 65:
        for rx, fmt in DIAGS:
            m = rx.search(err)
            if m:
                return "FAIL:" + (fmt % m.groups() if m.groups() else fmt)
        return "FAIL:?"
    if rc in (-6, 134):
        return "ABORT"
    return "CRASH:%s" % rc


def enber_exit(rc, err):
    if rc == 0:
        return "OK"
    if rc == 65:
        for s, k in EDIAGS:
            if s in err:
                return "ERR:" + k
        return "ERR:?"
    return "CRASH:%s" % rc


def printed_nodes(out):
    """(offset, cls, num, constructed, TL, V or -1) of every opening line of `unber -p` output"""
    res = []
    for ln in out.split(b"\n"):
        s = ln.lstrip(b" ")
        if not s.startswith(b"<") or s.startswith(b"</"):
            continue
        m = OPEN_RE.match(ln)
        if not m:
            res.append(("unparsed", ln[:80]))
            continue
        cls = CLASS_WORD.index(m.group(4).decode())
        v = -1 if m.group(7) == b"Indefinite" else int(m.group(7))
        kind = m.group(2)
        if (kind == b"I") != (v == -1):
            res.append(("kind/V mismatch", ln[:80]))
            continue
        res.append((int(m.group(3)), cls, int(m.group(5)), kind != b"P", int(m.group(6)), v))
    return res


# --------------------------------------------------------------------------
# running the binaries (process pool)

_W = {}


def _init(unber, enber, unber_asan, tmpdir):
    _W.update(unber=unber, enber=enber, asan=unber_asan, tmp=tmpdir)


def _small_stack():
    import resource
    resource.setrlimit(resource.RLIMIT_STACK, (DEEP_STACK, DEEP_STACK))


def _run(cmd, inp=None, env=None, timeout=20, discard=False):
    try:
        p = subprocess.run(cmd, input=inp, stdout=subprocess.DEVNULL if discard else subprocess.PIPE, stderr=subprocess.PIPE, timeout=timeout, env=env,
                           preexec_fn=_small_stack if discard else None)
        return p.returncode, (b"" if discard else p.stdout), p.stderr.decode("latin1")[-1500:]
    except subprocess.TimeoutExpired:
        return "timeout", b"", ""


def _work(batch):
    res = []
    path = os.path.join(_W["tmp"], "in.%d.ber" % os.getpid())
    for idx, x, want_asan, want_enber in batch:
        open(path, "wb").write(x)
        # (deep documents: the indentation makes the output quadratic in the depth, so it is discarded
        # and the run is made under a 1 MiB stack limit, where the recursion dies ~8 times earlier)
        urc, uout, uerr = _run([_W["unber"], "-p", path], discard=not want_enber, timeout=20 if want_enber else 120)
        uerr = uerr.replace(path, "F")
        erc, eout, eerr = (None, b"", "")
        if want_enber:
            erc, eout, eerr = _run([_W["enber"], "-"], inp=uout)
        arc, aout, aerr = (None, b"", "")
        if want_asan and _W["asan"]:
            arc, aout, aerr = _run([_W["asan"], "-p", path], env=SAN_ENV)
            aerr = aerr.replace(path, "F")
        res.append((idx, urc, uout, uerr, erc, eout, eerr, arc, aout == uout, aerr))
    try:
        os.unlink(path)
    except OSError:
        pass
    return res


def build_asan_unber(run):
    scr = scratch()
    exe = os.path.join(scr, "unber_asan")
    R = REPO
    srcs = [R + "/asn1-tools/unber/unber.c", R + "/asn1-tools/unber/libasn1_unber_tool.c"] + \
           [R + "/libasn1common/" + f for f in sorted(os.listdir(R + "/libasn1common")) if f.endswith(".c")]
    cmd = ["gcc", "-std=gnu99", "-w", "-DHAVE_CONFIG_H", "-D" + GUARD] + SAN + \
          ["-I" + R, "-I" + R + "/libasn1common", "-I" + R + "/libasn1parser", "-I" + R + "/skeletons", "-I" + R + "/asn1-tools/unber"] + \
          srcs + ["-lm", "-o", exe]
    rc, o = sh(cmd, timeout=300)
    if rc != 0:
        raise BuildError("ASan build of unber failed:\n" + o[-3000:])
    return exe


# --------------------------------------------------------------------------
# generators

TAGNUMS = [0, 1, 2, 4, 16, 17, 29, 30, 31, 32, 127, 128, 129, 2**14 - 1, 2**14, 2**21 - 1, 2**21, 2**28 - 1, 2**28, 2**30 - 1]
LENS = [0, 1, 2, 126, 127, 128, 129, 255, 256, 257, 65535, 65536]


def g_tag(rng):
    cls = rng.below(4)
    r = rng.below(10)
    if r < 5:
        num = rng.below(31)
    elif r < 9:
        num = rng.choice(TAGNUMS)
    else:
        num = rng.below(2 ** rng.range(5, 30))
    return cls, num


def g_body(rng, small=True):
    r = rng.below(40)
    if r == 0 and not small:
        n = rng.choice(LENS)
    elif r < 4:
        n = rng.choice([126, 127, 128, 129, 255, 256])
    else:
        n = rng.below(12)
    k = rng.below(4)
    if k == 0:
        return bytes([rng.choice([0, 0xff, 0x26, 0x3c, 0x3e, 0x41, 0x0a, 0x80])]) * n
    return rng.bytes(n)


def g_prim(rng, in_indef, small=True):
    cls, num = g_tag(rng)
    body = g_body(rng, small)
    if in_indef and cls == 0 and num == 0 and len(body) == 0:
        body = b"\x00"            # 00 00 inside an indefinite parent *is* the end-of-contents marker
    return ('P', cls, num, body)


def g_tree(rng, depth, in_indef=False, fan=3):
    """random tree with nesting depth exactly `depth` along one spine"""
    if depth <= 1:
        if rng.chance(1, 6):
            cls, num = g_tag(rng)
            return ('C', cls, num, rng.chance(1, 2), [])
        return g_prim(rng, in_indef)
    cls, num = g_tag(rng)
    definite = rng.chance(1, 2)
    k = 1 + rng.below(fan)
    spine = rng.below(k)
    ch = []
    for i in range(k):
        d = depth - 1 if i == spine else rng.below(min(depth, 4))
        ch.append(g_tree(rng, d, not definite, fan) if d >= 1 else g_prim(rng, not definite))
    return ('C', cls, num, definite, ch)


def boundary_trees():
    """directed: every class x boundary tag number, every boundary content length,
    as primitive, definite and indefinite constructed"""
    out = []
    for cls in range(4):
        for num in TAGNUMS:
            out.append(('P', cls, num, b"\x01\x02"))
            out.append(('C', cls, num, True, [('P', 0, 4, b"ab")]))
            out.append(('C', cls, num, False, [('P', 0, 4, b"ab")]))
    for n in LENS:
        body = bytes((i * 7 + 3) & 0xff for i in range(n))
        out.append(('P', 0, 4, body))
        out.append(('P', 3, 2**21, body))
        # a definite constructed node whose content length is exactly n
        for inner in range(max(0, n - 6), n + 1):
            c = ('P', 2, 1, body[:inner])
            if len(encode(c)) == n:
                out.append(('C', 0, 16, True, [c]))
                out.append(('C', 1, 31, True, [('C', 2, 0, False, [c])]))
                break
    out.append(('C', 0, 16, True, []))
    out.append(('C', 0, 16, False, []))
    out.append(('P', 0, 0, b""))                      # 00 00 outside an indefinite parent: a primitive
    out.append(('C', 0, 16, True, [('P', 0, 0, b"")]))
    out.append(('C', 0, 16, False, [('P', 0, 0, b"\x00")]))
    out.append(('C', 0, 0, False, [('C', 0, 0, True, [])]))
    return out


def chain(depth, definite_of, leaf):
    t = leaf
    for d in range(depth - 1, 0, -1):
        t = ('C', d % 4, [16, 0, 31, 2**14][d % 4], definite_of(d), [t])
    return t


def padder(rng, p_num=1, p_den=3):
    cache = {}

    def pad(t):
        k = id(t)
        if k not in cache:
            tp = lp = 0
            if rng.chance(p_num, p_den):
                tp = rng.choice([0, 0, 1, 2, 3])
            if rng.chance(p_num, p_den) and not (t[0] == 'C' and not t[3]):
                lp = rng.choice([1, 1, 2, 3, 5])
            cache[k] = (tp, lp)
        return cache[k]
    return pad


def mutate_stream(rng, docs, tier):
    out = []
    for d in docs:
        for i in range(len(d)):
            out.append(("trunc", d[:i]))
        hdr_positions = [n[0] + j for n in walk(d)[0] for j in range(n[4])]
        for p in hdr_positions:
            for bit in range(8):
                m = bytearray(d); m[p] ^= 1 << bit
                out.append(("bitflip", bytes(m)))
        for _ in range(8 if tier == "quick" else 60):
            m = bytearray(d)
            for _ in range(1 + rng.below(3)):
                if not m:
                    break
                r = rng.below(4)
                p = rng.below(len(m))
                if r == 0:
                    m[p] = rng.choice([0, 0x80, 0x81, 0x82, 0x88, 0xff, 0x1f, 0x3f, 0x7f, 0x30, 0xa0])
                elif r == 1:
                    del m[p]
                elif r == 2:
                    m.insert(p, rng.below(256))
                else:
                    m[p] = rng.below(256)
            out.append(("mut", bytes(m)))
    nrand = 400 if tier == "quick" else 6000
    for _ in range(nrand):
        out.append(("random", rng.bytes(rng.below(48))))
    pool = [0x00, 0x30, 0x80, 0x1f, 0x3f, 0x81, 0x82, 0x84, 0x88, 0xff, 0x04, 0x01, 0x02, 0x7f, 0xa0, 0x24]
    for _ in range(nrand):
        out.append(("random-structured", bytes(rng.choice(pool) if rng.chance(3, 4) else rng.below(256) for _ in range(rng.below(40)))))
    # the limits of process_deeper's tagbuf[32] and of ber_fetch_tag / ber_fetch_length
    for k in range(24, 40):
        out.append(("tl-buffer", b"\x1f" + b"\x80" * (k - 3) + b"\x05\x00"))
        out.append(("tl-buffer", b"\x04" + bytes([0x80 | (k - 2)]) + b"\x00" * (k - 2)))
        out.append(("tl-buffer", b"\x30\x80\x1f" + b"\x80" * (k - 3) + b"\x05\x00\x00\x00"))
    for tail in (b"\x00", b"\x01\x00"):
        out.append(("tag-limit", b"\x1f\x83\xff\xff\xff\x7f" + tail))      # 2^30-1
        out.append(("tag-limit", b"\x1f\x84\x80\x80\x80\x00" + tail))      # 2^30
        out.append(("tag-limit", b"\xdf\x8f\xff\xff\xff\x7f" + tail))      # 2^32-1
    for l in (2**62 - 1, 2**62, 2**63 - 1, 2**63, 2**64 - 1):
        out.append(("len-limit", b"\x04\x88" + l.to_bytes(8, "big")))
        out.append(("len-limit", b"\x30\x88" + l.to_bytes(8, "big") + b"\x04\x00"))
    out.append(("len-limit", b"\x04\x89\x01" + b"\x00" * 8))
    return out


# --------------------------------------------------------------------------
# enber on line records that unber would not print: the lines of a tree with one
# attribute edited (TL missing/wrong, V wrong or out of ssize_t range, tag number
# out of range, content of the wrong length, missing closer)


def records(t, lv, off):
    tag = (t[2] << 2) | t[1]
    if t[0] == 'P':
        hl = len(enc_tag(t[1], t[2], False)) + len(enc_len(len(t[3])))
        return [["P", lv, off, tag, hl, len(t[3]), t[3]]], hl + len(t[3])
    body, pos = [], 0
    definite = t[3]
    content = b"".join(encode(c) for c in t[4])
    hl = len(enc_tag(t[1], t[2], True)) + (len(enc_len(len(content))) if definite else 1)
    for c in t[4]:
        r, n = records(c, lv + 1, off + hl + pos)
        body += r
        pos += n
    size = hl + pos + (0 if definite else 2)
    close = ["C", lv, off + size, tag, size] if definite else ["I", lv, off + size - 2, size]
    return [["O", lv, off, tag, hl, len(content) if definite else -1]] + body + [close], size


def rec_tokens(rs):
    out = []
    for r in rs:
        if out:
            out.append("/")
        out += [str(v) if not isinstance(v, bytes) else hexs(v) for v in r]
    return " ".join(out)


def mutate_records(rng, rs):
    rs = [list(r) for r in rs]
    opens = [k for k, r in enumerate(rs) if r[0] in "OP"]
    k = rng.choice(opens)
    r = rs[k]
    m = rng.below(12)
    what = "none"
    if m == 0:
        r[4] = 0; what = "TL=0"
    elif m == 1:
        r[4] = rng.choice([1, r[4] + 1, max(2, r[4] - 1), 2**63, 2**63 - 1, 31, 32]); what = "TL"
    elif m == 2 and r[5] >= 0:
        r[5] = rng.choice([r[5] + 1, max(0, r[5] - 1), 127, 128, 2**62, 2**63, 2**64 - 1]); what = "V"
    elif m == 3:
        cls = r[3] & 3
        r[3] = (rng.choice([2**30 - 1, 2**30, 2**32 - 1, 2**32, 2**32 + 5, 2**31]) << 2) | cls; what = "tagnum"
    elif m == 4:
        r[3] = (r[3] & ~3) | rng.below(4); what = "class"
    elif m == 5 and r[0] == "P":
        r[6] = r[6] + rng.bytes(1 + rng.below(3)) if rng.chance(1, 2) else r[6][:max(0, len(r[6]) - 1)]; what = "content"
    elif m == 6:
        cl = [j for j, q in enumerate(rs) if q[0] == "I"]
        if cl:
            del rs[rng.choice(cl)]; what = "drop-closer"
    elif m == 7 and r[0] == "O":
        r[5] = -1 if r[5] >= 0 else 0; what = "C<->I"
    elif m == 8:
        r[4] = 0; r[3] = (rng.below(2**20) << 2) | rng.below(4); what = "TL=0+tag"
    elif m == 9 and r[0] == "P":
        n = rng.choice([127, 128, 255, 256])
        r[6] = rng.bytes(n); r[5] = n; r[4] = 0; what = "TL=0+content"
    return rs, what


def main(tier):
    run = Run("C20", tier)
    if not run.findings:     # fragment not yet assembled into known_findings.json by bin/mkmanifest
        fp = os.path.join(VERIF, "findings.d", "C20.json")
        if os.path.exists(fp):
            run.findings = [f for f in json.load(open(fp)) if f.get("status") == "open"]
    rng = Rng(run.seed)
    quick = tier == "quick"

    # 1. proofs
    ok, out = coq_build()
    have = os.path.exists(os.path.join(COQ, "Props", "Properties_C20.v"))
    nthm, ndis, axioms, names, plog = obligations("C20") if ok and have else (0, 0, set(), [], out)
    gate = grep_gate()
    if not ok or ndis != nthm or nthm == 0 or gate:
        run.violation("proof:Properties_C20", {"what": "Coq development does not build or an obligation is open",
                                               "log_tail": (out if not ok else plog)[-2000:], "grep_gate": gate}, no_input=True)
    chk = None
    if not quick and ok:
        rc_k, ko = sh("timeout 900 coqchk -silent -o -Q %s A1 A1.Props.Properties_C20" % COQ, timeout=1000)
        m = re.search(r"\* Axioms:\s*(.*?)\n\s*\n", ko, flags=re.S)
        chk = {"rc": rc_k, "axioms": (m.group(1).strip() if m else "?")}
        if rc_k != 0 or chk["axioms"] != "<none>":
            run.violation("proof:coqchk", {"what": "coqchk rejects the compiled property file or reports axioms", "log_tail": ko[-1500:]}, no_input=True)
    log("[c20] proofs %.1fs" % (time.time() - T0))
    # 2. builds
    model = model_build()
    try:
        unber, enber = build_tools()
        asan = build_asan_unber(run)
    except BuildError as e:
        run.violation("build:tools", {"what": str(e)[-2000:]}, no_input=True)
        return run.finish("proof", (nthm, ndis))

    log("[c20] builds %.1fs" % (time.time() - T0))
    # 3. cases: (kind, bytes, forest or None)
    cases = []
    for t in boundary_trees():
        cases.append(("wf-boundary", encode(t), [t]))
    maxd = 12 if quick else 200
    ntrees = 500 if quick else 6000
    for i in range(ntrees):
        d = 1 + (i % maxd) if i < 4 * maxd else 1 + rng.below(min(maxd, 10))
        fan = 3 if d <= 16 else 2
        t = g_tree(rng, d, False, fan)
        cases.append(("wf-random", encode(t), [t]))
    for d in ([12] if quick else [12, 50, 100, 200]):
        for f in (lambda k: True, lambda k: False, lambda k: k % 2 == 0, lambda k: k % 3 != 0):
            t = chain(d, f, ('P', 2, 5, b"x"))
            cases.append(("wf-chain", encode(t), [t]))
    # several top-level TLVs in one file
    for _ in range(40 if quick else 400):
        ts = [g_tree(rng, 1 + rng.below(4)) for _ in range(1 + rng.below(4))]
        cases.append(("wf-multi", b"".join(encode(t) for t in ts), ts))
    # large primitive inside nested definite/indefinite parents
    for n in (65535, 65536):
        body = rng.bytes(n)
        t = ('C', 0, 16, False, [('C', 2, 2**14, True, [('P', 1, 128, body)]), ('P', 0, 5, b"")])
        cases.append(("wf-large", encode(t), [t]))
    nwf = len(cases)
    # non-minimal variants (known finding): same trees, padded tag / length octets
    for i in range(250 if quick else 3000):
        t = g_tree(rng, 1 + rng.below(6))
        cases.append(("nonminimal", encode(t, padder(rng)), None))
    cases.append(("nonminimal", bytes.fromhex("04810100"), None))
    cases.append(("nonminimal", bytes.fromhex("1f0500"), None))
    cases.append(("nonminimal", bytes.fromhex("1f800500"), None))
    cases.append(("nonminimal", bytes.fromhex("3081020500"), None))
    # malformed stream
    small_docs = [encode(t) for t in boundary_trees() if len(encode(t)) <= 24][:: (6 if quick else 1)]
    small_docs += [encode(g_tree(rng, 1 + rng.below(5))) for _ in range(12 if quick else 150)]
    small_docs = [d for d in small_docs if len(d) <= 48]
    for k, x in mutate_stream(rng, small_docs, tier):
        cases.append(("mal-" + k, x, None))
    # unbounded recursion of process_deeper: one deep, perfectly well-formed document
    deep_n = 20000
    cases.append(("deep", b"\x30\x80" * deep_n + b"\x00\x00" * deep_n, None))
    cases.append(("deep", b"\x30\x80" * 1000 + b"\x00\x00" * 1000, None))      # same shape, shallow: must be fine

    log("[c20] %d cases generated %.1fs" % (len(cases), time.time() - T0))
    # 4. run the binaries
    tmpdir = os.path.join(scratch(), "c20io")
    os.makedirs(tmpdir, exist_ok=True)
    jobs = []
    for i, (kind, x, t) in enumerate(cases):
        want_asan = kind.startswith("mal-") or (i % (7 if quick else 3) == 0 and kind != "deep")
        jobs.append((i, x, want_asan, kind != "deep"))
    order = sorted(jobs, key=lambda j: -len(j[1]))
    nb = NCPU * 8
    batches = [order[i::nb] for i in range(nb)]
    with multiprocessing.Pool(NCPU, initializer=_init, initargs=(unber, enber, asan, tmpdir)) as pool:
        results = {}
        for rs in pool.imap_unordered(_work, [b for b in batches if b]):
            for r in rs:
                results[r[0]] = r

    log("[c20] binaries done %.1fs" % (time.time() - T0))
    # 5. the model on the same inputs (split over several driver processes)
    midx = [i for i, c in enumerate(cases) if c[0] != "deep"]
    mlines = []
    for i in midx:
        h = hexs(cases[i][1])
        mlines += ["unber " + h, "xxber " + h]
    nproc = min(NCPU, 8)
    per = (len(midx) + nproc - 1) // nproc * 2
    chunks = [mlines[k:k + per] for k in range(0, len(mlines), per)]
    with multiprocessing.pool.ThreadPool(nproc) as tp:
        outs = tp.map(lambda ch: run_lines(model, ch, timeout=900), chunks)
    mo = []
    for (rc_m, o, e), ch in zip(outs, chunks):
        if rc_m != 0 or len(o) != len(ch):
            raise RuntimeError("model driver failed: rc=%s lines=%d/%d %s" % (rc_m, len(o), len(ch), e))
        mo += o
    mres = {i: (mo[2 * k], mo[2 * k + 1]) for k, i in enumerate(midx)}
    # Spec side (coq/Tools/BerTree.v): ser and nodes of the generated trees, to be
    # compared with the reference encoder and the walker below
    sidx = [i for i, c in enumerate(cases) if c[2] is not None]
    slines = []
    for i in sidx:
        tk = " ".join(" ".join(tree_tokens(t)) for t in cases[i][2])
        # (the spec's nodes recomputes subtree sizes at every level: cubic in the depth, so only for documents <= 800 octets)
        slines += ["spec_ser " + tk, ("spec_nodes " + tk) if len(cases[i][1]) <= 800 else "spec_ser"]
    rc_s, so, se = run_lines(model, slines, timeout=900)
    if rc_s != 0 or len(so) != len(slines):
        raise RuntimeError("model driver failed on spec queries: rc=%s %s" % (rc_s, se))
    sres = {i: (so[2 * k], so[2 * k + 1]) for k, i in enumerate(sidx)}

    # 5b. enber alone on edited line records: model's enber on the records vs the binary on their rendering
    rec_cases = []
    src = [c[2][0] for c in cases if c[0] in ("wf-random", "wf-boundary") and c[2] and len(c[1]) <= 400]
    for j in range(600 if quick else 8000):
        t = src[rng.below(len(src))]
        rs, what = mutate_records(rng, records(t, 0, 0)[0])
        rec_cases.append((what, rs))
    rl = []
    for what, rs in rec_cases:
        tk = rec_tokens(rs)
        rl += ["render_recs " + tk, "enber_recs " + tk]
    rc_r, ro, re_ = run_lines(model, rl, timeout=900)
    if rc_r != 0 or len(ro) != len(rl):
        raise RuntimeError("model driver failed on record queries: rc=%s %s" % (rc_r, re_))
    texts = [(b"" if ro[2 * k] == "-" else ro[2 * k].replace("|", "\n").encode()) for k in range(len(rec_cases))]

    def _enber_batch(idxs):
        return [(k,) + _run([enber, "-"], inp=texts[k]) for k in idxs]
    with multiprocessing.pool.ThreadPool(NCPU) as tp:
        eres = {}
        for part in tp.map(_enber_batch, [list(range(k, len(texts), NCPU)) for k in range(NCPU)]):
            for k, erc, eout, eerr in part:
                eres[k] = (erc, eout, eerr)
    for k, (what, rs) in enumerate(rec_cases):
        erc, eout, eerr = eres[k]
        eex = enber_exit(erc, eerr)
        m_eex, m_ehex = ro[2 * k + 1].split(" ", 1)
        m_ebytes = b"" if m_ehex == "-" else bytes.fromhex(m_ehex)
        run.case("recs:" + rec_tokens(rs), nontrivial=True)
        run.count("enber-records:" + what)
        run.count("enber-records-exit:" + eex)
        if m_eex != eex or m_ebytes != eout:
            run.count("model_vs_code_diff")
            run.violation("correspondence:enber-records", {"what": "model of enber and the binary disagree on edited line records", "edit": what,
                                                            "records": rec_tokens(rs)[:1500], "text": texts[k].decode("latin1")[:1500],
                                                            "model": m_eex, "c": eex, "model_out": m_ebytes.hex()[:400], "c_out": eout.hex()[:400],
                                                            "c_stderr": eerr[-300:], "replay_cmd": "printf '%s' \"$text\" | enber -", "_pending": True})
    log("[c20] model done %.1fs" % (time.time() - T0))
    # 6. compare
    def replay(x):
        h = x.hex()
        return {"input_hex": h if len(h) <= 4000 else h[:4000] + "...(%d octets)" % len(x),
                "replay_cmd": "xxd -r -p <<< $input_hex > t.ber; unber -p t.ber | enber - | cmp - t.ber"}

    nasan = 0
    for i, (kind, x, t) in enumerate(cases):
        _, urc, uout, uerr, erc, eout, eerr, arc, asan_same, aerr = results[i]
        run.case(x, nontrivial=True)
        run.count("kind:" + kind)
        uex = unber_exit(urc, uerr)
        run.count("unber:" + uex.split(":")[0] + (":" + uex.split(":")[1] if uex.startswith("FAIL") else ""))
        rp = replay(x)

        # -------- memory safety / termination (oracle, all inputs)
        bad_exit = uex.startswith("CRASH") or uex in ("ABORT", "FAIL:?", "OK+stderr") or urc == "timeout"
        if kind == "deep":
            dn = len(x) // 4
            run.count("deep:%d:%s" % (dn, uex))
            if bad_exit:
                if urc in (-11, 139) and dn >= 4000:
                    run.known_finding("C20-deep-recursion", "depth %d" % dn)
                else:
                    run.violation("oracle:memory-safety", dict(rp, what="unber died on a nested document (stack limit %d)" % DEEP_STACK, exit=uex,
                                                               input_hex="3080 x %d, 0000 x %d" % (dn, dn)))
            continue
        if bad_exit:
            run.violation("oracle:memory-safety", dict(rp, what="unber did not end with exit 0 or a diagnostic and exit 65", exit=uex, stderr=uerr[-600:]))
        if arc is not None:
            nasan += 1
            aex = unber_exit(arc, aerr)
            if aex != uex or not asan_same:
                run.violation("oracle:memory-safety", dict(rp, what="sanitizer build of unber reports an error or behaves differently",
                                                           exit=uex, asan_exit=aex, asan_stderr=aerr[-1200:]))
        # -------- faithfulness: model vs binaries
        m_un, m_xx = mres[i]
        m_exit, m_text = m_un.split(" ", 1)
        m_text = b"" if m_text == "-" else m_text.replace("|", "\n").encode()
        pend = False
        if m_exit != uex or m_text != uout:
            run.count("model_vs_code_diff")
            k = 0
            while k < min(len(m_text), len(uout)) and m_text[k] == uout[k]:
                k += 1
            run.violation("correspondence:unber", dict(rp, what="model of unber -p and the binary disagree", model_exit=m_exit, c_exit=uex,
                                                       first_diff_at=k, model_text=m_text[max(0, k - 80):k + 120].decode("latin1"),
                                                       c_text=uout[max(0, k - 80):k + 120].decode("latin1"), _pending=True))
            pend = True
        eex = enber_exit(erc, eerr)
        m_eex, m_ehex = m_xx.split(" ", 1)
        m_ebytes = b"" if m_ehex == "-" else bytes.fromhex(m_ehex)
        if not pend and (m_eex != eex or m_ebytes != eout):
            run.count("model_vs_code_diff")
            run.violation("correspondence:enber", dict(rp, what="model of enber and the binary disagree on unber's output", model=m_eex, c=eex,
                                                       model_out=m_ebytes.hex()[:400], c_out=eout.hex()[:400], c_stderr=eerr[-300:], _pending=True))
        # -------- property oracle (independent of the model)
        nodes, wf, info = walk(x)
        if i in sres:
            run.count("spec:checked")
            want_nodes = ",".join("%d:%d:%d:%d" % (o, (num << 2) | cls, hl, ln) for (o, cls, num, c, hl, ln) in nodes) or "-"
            if len(x) > 800:
                want_nodes = "-"
            if sres[i][0] != hexs(x) or sres[i][1] != want_nodes or not wf:
                run.violation("spec:BerTree", dict(rp, what="Coq spec (ser / nodes) disagrees with the reference encoder / BER walker of the check",
                                                   spec_ser=sres[i][0][:400], spec_nodes=sres[i][1][:400], walker_nodes=want_nodes[:400]), no_input=True)
        if not wf:
            run.count("oracle:not-wf")
            continue
        run.count("oracle:wf" + ("-nonminimal" if info["nonminimal"] else "") + ("" if kind.startswith("wf") or kind == "nonminimal" else "-by-mutation"))
        run.count("depth:%s" % (info["depth"] if info["depth"] < 12 else ("12-49" if info["depth"] < 50 else "50+")))
        if kind.startswith("wf") and info["nonminimal"]:
            run.violation("harness:generator", dict(rp, what="generator produced a non-minimal encoding in the minimal stream"), no_input=True)
        # documented limits of the tools (recorded findings): tag numbers >= 2^30, TL header > 32 octets
        if info["maxtag"] >= TAG_LIMIT:
            if uex.startswith("FAIL:TAGERR"):
                run.known_finding("C20-tag-limit", x.hex())
                continue
        if info["maxhdr"] > TL_BUF:
            if uex.startswith("FAIL:TOOLONG_BUF") or uex.startswith("FAIL:TOOLONG_LIMIT"):
                run.known_finding("C20-tl-buffer", x.hex())
                continue
        # fields
        pn = printed_nodes(uout)
        if uex != "OK" or pn != nodes:
            d = next((k for k in range(min(len(pn), len(nodes))) if pn[k] != nodes[k]), min(len(pn), len(nodes)))
            run.violation("oracle:fields", dict(rp, what="unber -p does not print the TLV structure of a well-formed input (offset, class, number, constructed, TL, V)",
                                                exit=uex, stderr=uerr[-300:], first_diff_index=d,
                                                printed=str(pn[d:d + 2]), expected=str(nodes[d:d + 2])))
            continue
        # round trip
        if eex == "OK" and eout == x:
            run.count("roundtrip:ok")
            continue
        if info["nonminimal"] and eex == "ERR:CANNOT_ENCODE_TL":
            run.count("roundtrip:known-nonminimal")
            run.known_finding("C20-nonminimal-length", x.hex())
            continue
        run.violation("oracle:roundtrip", dict(rp, what="enber(unber -p(x)) != x for a well-formed x", enber_exit=eex, enber_stderr=eerr[-300:],
                                               got_hex=eout.hex()[:400]))

    for k in (0, nwf // 2, nwf + 3, len(cases) - 40):
        kind, x, _ = cases[k]
        if len(x) <= 64:
            run.sample({"kind": kind, "input": x.hex(), "unber_exit": unber_exit(results[k][1], results[k][3]),
                        "unber_stdout": results[k][2].decode("latin1")[:300], "enber": results[k][5].hex()})
    oracle_inputs = {v.get("input_hex") for v in run.violations if v["kind"].startswith("oracle:")}
    for v in run.violations:
        if v.pop("_pending", False):
            v["no_failing_input_found"] = not oracle_inputs
    tb = ["Coq 8.16.1 kernel + vm_compute (refuted witnesses and Examples only)",
          "axioms under Print Assumptions: " + (", ".join(sorted(axioms)) or "none (Closed under the global context)"),
          "extraction: ExtrOcamlBasic only; OCaml 4.13.1",
          "ocaml/drv_c20.ml: rendering of line records to the text of unber -p (print_TL/print_V formats, A= names) is glue, checked only by the byte-for-byte comparison with the binary's stdout",
          "checks/c20.py: generators, reference encoder, BER walker, stderr classification",
          "gcc; ASan/UBSan build of asn1-tools/unber; LP64"]
    return run.finish("proof", (nthm, ndis), trusted_base=tb,
                      checker_cmd="make -C /verif all && coqc -Q coq A1 coq/Props/Properties_C20.v",
                      extra_cov={"theorems": names, "asan_runs": nasan, "coqchk": chk,
                                 "rule": "directed: 4 classes x tag numbers {0..2,4,16,17,29..32,127..129,2^14-1,2^14,2^21-1,2^21,2^28-1,2^28,2^30-1} as primitive/definite/indefinite; content lengths {0,1,2,126..129,255..257,65535,65536} primitive and constructed; random trees with a spine of every depth 1..%d, fan-out <= 3, definite/indefinite chosen per node; chains; multi-TLV files; non-minimal variants (padded tag/length octets); malformed: truncation at every offset, every bit of every header octet flipped, byte edits, random and structured-random strings, TL-buffer/tag/length limits; one 60000-deep document" % maxd,
                                 "traces_validated_against_impl": len(cases)},
                      assumptions=["models of libasn1_unber_tool.c (-p mode) and enber.c are hand-written at the line-record level; text layer (printf formats, attribute scanning, &#xNN; escapes, fgets line assembly) is tied by differential run only",
                                   "stack depth is not modelled (process_deeper recursion is unbounded: finding C20-deep-recursion)",
                                   "options other than -p (unber) and none (enber) are not modelled"])


if __name__ == "__main__":
    sys.exit(main(sys.argv[1] if len(sys.argv) > 1 else "quick"))
