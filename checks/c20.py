"""C20 — unber / enber.
Theorems: coq/Props/Properties_C20.v (model: coq/Tools/Unber.v, Enber.v; spec: coq/Tools/BerTree.v).
Tie: the REAL `unber -p` and `enber` binaries rebuilt from the repository working
tree (vlib.build_tools) plus an ASan/UBSan build of unber made here, against
  (i)  the extracted model (ocaml/drv_c20.ml renders the model's line records to
       the exact text; compared byte for byte with the binary's stdout, the exit
       class/diagnostic, and enber's output and diagnostic), and
  (ii) the property oracle, independent of the model: enber(unber -p(x)) == x for
       well-formed minimal x, the O/T/TL/V attributes equal the TLV structure
       found by the small BER walker below, and on arbitrary bytes unber exits 0
       or 65-with-diagnostic, without signal, sanitizer report or timeout.
  (iii) the same last clause for unber's other modes (plain pretty-printing, -1, -i, -m,
       -s, stdin, several files, -t), which are not modelled: typed documents (every
       universal tag number with contents aimed at print_V's case splits) and a
       malformed stream under the ASan/UBSan/LSan build; see modes_stage."""
import sys, os, re, json, zlib, subprocess, multiprocessing, multiprocessing.pool
sys.path.insert(0, os.path.join(os.path.dirname(os.path.abspath(__file__)), "..", "lib"))
from vlib import *

DEEP_STACK = 1 << 20       # stack limit for the deep-recursion case (default is 8 MiB: same death at depth ~40000)
TAG_LIMIT = 2**30          # ber_fetch_tag: tag numbers < 2^30 (32-bit ber_tlv_tag_t, 2 class bits)
TL_BUF = 32                # process_deeper: unsigned char tagbuf[32]
CLASS_WORD = ["UNIVERSAL ", "APPLICATION ", "", "PRIVATE "]

# --------------------------------------------------------------------------
# reference encoder (X.690 8.1.2-8.1.5) over trees
#   ('P', cls, num, body: bytes)  |  ('C', cls, num, definite: bool, [children])
# pad = None: minimal octets; pad = function node -> (tagpad, lenpad) for the
# non-minimal variants (tagpad extra 0x80 octets / forced long form, lenpad
# extra leading zero octets / forced long form).


def enc_tag(cls, num, constr, tagpad=0):
    first = (cls << 6) | (0x20 if constr else 0)
    if num <= 30 and tagpad == 0:
        return bytes([first | num])
    ds = []
    n = num
    while True:
        ds.append(n & 0x7f)
        n >>= 7
        if n == 0:
            break
    ds += [0] * max(0, tagpad - 1)       # tagpad-1 leading 0x80 octets (tagpad=1: long form only)
    ds.reverse()
    return bytes([first | 31] + [0x80 | d for d in ds[:-1]] + [ds[-1]])


def enc_len(n, lenpad=0):
    if n <= 127 and lenpad == 0:
        return bytes([n])
    bs = n.to_bytes(max(1, (n.bit_length() + 7) // 8), "big")
    bs = b"\x00" * max(0, lenpad - 1) + bs
    return bytes([0x80 | len(bs)]) + bs


def encode(t, pad=None):
    tp, lp = pad(t) if pad else (0, 0)
    if t[0] == 'P':
        _, cls, num, body = t
        return enc_tag(cls, num, False, tp) + enc_len(len(body), lp) + body
    _, cls, num, definite, ch = t
    content = b"".join(encode(c, pad) for c in ch)
    if definite:
        return enc_tag(cls, num, True, tp) + enc_len(len(content), lp) + content
    return enc_tag(cls, num, True, tp) + b"\x80" + content + b"\x00\x00"


def tree_tokens(t):
    if t[0] == 'P':
        return ["P", str((t[2] << 2) | t[1]), hexs(t[3])]
    out = ["C", str((t[2] << 2) | t[1]), "1" if t[3] else "0", str(len(t[4]))]
    for c in t[4]:
        out += tree_tokens(c)
    return out


def depth_of(t):
    d, stack = 0, [(t, 1)]
    while stack:
        n, k = stack.pop()
        d = max(d, k)
        if n[0] == 'C':
            stack += [(c, k + 1) for c in n[4]]
    return d


# --------------------------------------------------------------------------
# independent BER walker: the TLV structure of x, computed without the model.
# Returns (nodes, wf, info); nodes in document order:
#   (offset, cls, num, constructed, header_len, content_len or -1)
# wf = x is a concatenation of complete, properly nested TLVs.


def walk(x):
    nodes = []
    info = {"nonminimal": False, "maxtag": 0, "maxhdr": 0, "depth": 0}
    n = len(x)
    pos = 0
    stack = []          # frames: [end or None (indefinite)]
    while True:
        # close finished definite frames
        while stack and stack[-1] is not None and pos == stack[-1]:
            stack.pop()
        if pos == n and not stack:
            return nodes, True, info
        if pos >= n:
            return nodes, False, info
        if stack and stack[-1] is not None and pos > stack[-1]:
            return nodes, False, info
        start = pos
        b0 = x[pos]; pos += 1
        cls, constr, num = b0 >> 6, bool(b0 & 0x20), b0 & 0x1f
        if num == 0x1f:
            num = 0
            cnt = 0
            while True:
                if pos >= n:
                    return nodes, False, info
                o = x[pos]; pos += 1; cnt += 1
                if cnt == 1 and o == 0x80:
                    info["nonminimal"] = True
                num = (num << 7) | (o & 0x7f)
                if not o & 0x80:
                    break
            if num <= 30:
                info["nonminimal"] = True
        if pos >= n:
            return nodes, False, info
        l0 = x[pos]; pos += 1
        if l0 < 0x80:
            ln = l0
        elif l0 == 0x80:
            if not constr:
                return nodes, False, info        # indefinite primitive: not BER
            ln = -1
        elif l0 == 0xff:
            return nodes, False, info
        else:
            k = l0 & 0x7f
            if pos + k > n:
                return nodes, False, info
            ln = int.from_bytes(x[pos:pos + k], "big")
            if x[pos] == 0 or ln <= 127:
                info["nonminimal"] = True
            pos += k
        hl = pos - start
        # end-of-contents inside an indefinite frame
        if stack and stack[-1] is None and x[start:start + 2] == b"\x00\x00":
            stack.pop()
            continue
        info["maxtag"] = max(info["maxtag"], num)
        info["maxhdr"] = max(info["maxhdr"], hl)
        nodes.append((start, cls, num, constr, hl, ln))
        for e in stack:
            if e is not None and (pos > e or (ln >= 0 and pos + ln > e)):
                return nodes, False, info
        if ln >= 0 and pos + ln > n:
            return nodes, False, info
        if constr:
            stack.append(None if ln < 0 else pos + ln)
            info["depth"] = max(info["depth"], len(stack))
        else:
            pos += ln


# --------------------------------------------------------------------------
# parsing what the binaries print

OPEN_RE = re.compile(rb'^( *)<([PCI]) O="(\d+)" T="\[(UNIVERSAL |APPLICATION |PRIVATE |)(\d+)\]" TL="(\d+)" V="(\d+|Indefinite)"( A="[^"]*")?>')
DIAGS = [
    (re.compile(r"Too long TL sequence \((\d+) >= (-?\d+)\) at (\d+)"), "TOOLONG_LIMIT:%s:%s:%s"),
    (re.compile(r"Too long TL sequence \((\d+) bytes\) at (\d+)"), "TOOLONG_BUF:%s:%s"),
    (re.compile(r"Unexpected end of file \(TL\) at (\d+)"), "EOF_TL:%s"),
    (re.compile(r"Fatal error decoding tag at (\d+)"), "TAGERR:%s"),
    (re.compile(r"Fatal error decoding value length at (\d+)"), "LENERR:%s"),
    (re.compile(r"Outer tag length doesn't match inner tag length at (\d+)"), "MISMATCH:%s"),
    (re.compile(r"Structure advertizes length \((-?\d+)\) greater than of a parent container \((-?\d+)\)"), "EXCEEDS:%s:%s"),
    (re.compile(r"Unexpected end of file \(V\)"), "EOF_V"),
]
EDIAGS = [("Cannot encode TL", "CANNOT_ENCODE_TL"), ("Invalid TL or V value", "INVALID_TLV"), ("Invalid tag value", "INVALID_TAG"),
          ("Could not encode value", "VALUE_LEN")]


def unber_exit(rc, err):
    if rc == 0:
        return "OK" if not err.strip() else "OK+stderr"
    if rc == 65:
        for rx, fmt in DIAGS:
            m = rx.search(err)
            if m:
                return "FAIL:" + (fmt % m.groups() if m.groups() else fmt)
        return "FAIL:?"
    if rc in (-6, 134):
        return "ABORT"
    return "CRASH:%s" % rc


def enber_exit(rc, err):
    if rc == 0:
        return "OK"
    if rc == 65:
        for s, k in EDIAGS:
            if s in err:
                return "ERR:" + k
        return "ERR:?"
    return "CRASH:%s" % rc


def printed_nodes(out):
    """(offset, cls, num, constructed, TL, V or -1) of every opening line of `unber -p` output"""
    res = []
    for ln in out.split(b"\n"):
        s = ln.lstrip(b" ")
        if not s.startswith(b"<") or s.startswith(b"</"):
            continue
        m = OPEN_RE.match(ln)
        if not m:
            res.append(("unparsed", ln[:80]))
            continue
        cls = CLASS_WORD.index(m.group(4).decode())
        v = -1 if m.group(7) == b"Indefinite" else int(m.group(7))
        kind = m.group(2)
        if (kind == b"I") != (v == -1):
            res.append(("kind/V mismatch", ln[:80]))
            continue
        res.append((int(m.group(3)), cls, int(m.group(5)), kind != b"P", int(m.group(6)), v))
    return res


# --------------------------------------------------------------------------
# running the binaries (process pool)

_W = {}


def _init(unber, enber, unber_asan, tmpdir):
    _W.update(unber=unber, enber=enber, asan=unber_asan, tmp=tmpdir)


def _small_stack():
    import resource
    resource.setrlimit(resource.RLIMIT_STACK, (DEEP_STACK, DEEP_STACK))


def _run(cmd, inp=None, env=None, timeout=20, discard=False):
    try:
        p = subprocess.run(cmd, input=inp, stdout=subprocess.DEVNULL if discard else subprocess.PIPE, stderr=subprocess.PIPE, timeout=timeout, env=env,
                           preexec_fn=_small_stack if discard else None)
        return p.returncode, (b"" if discard else p.stdout), p.stderr.decode("latin1")[-1500:]
    except subprocess.TimeoutExpired:
        return "timeout", b"", ""


def _work(batch):
    res = []
    path = os.path.join(_W["tmp"], "in.%d.ber" % os.getpid())
    for idx, x, want_asan, want_enber in batch:
        open(path, "wb").write(x)
        # (deep documents: the indentation makes the output quadratic in the depth, so it is discarded
        # and the run is made under a 1 MiB stack limit, where the recursion dies ~8 times earlier)
        urc, uout, uerr = _run([_W["unber"], "-p", path], discard=not want_enber, timeout=20 if want_enber else 120)
        uerr = uerr.replace(path, "F")
        erc, eout, eerr = (None, b"", "")
        if want_enber:
            erc, eout, eerr = _run([_W["enber"], "-"], inp=uout)
        arc, aout, aerr = (None, b"", "")
        if want_asan and _W["asan"]:
            arc, aout, aerr = _run([_W["asan"], "-p", path], env=SAN_ENV)
            aerr = aerr.replace(path, "F")
        res.append((idx, urc, uout, uerr, erc, eout, eerr, arc, aout == uout, aerr))
    try:
        os.unlink(path)
    except OSError:
        pass
    return res


def build_asan_unber(run):
    scr = scratch()
    exe = os.path.join(scr, "unber_asan")
    R = REPO
    srcs = [R + "/asn1-tools/unber/unber.c", R + "/asn1-tools/unber/libasn1_unber_tool.c"] + \
           [R + "/libasn1common/" + f for f in sorted(os.listdir(R + "/libasn1common")) if f.endswith(".c")]
    cmd = ["gcc", "-std=gnu99", "-w", "-DHAVE_CONFIG_H", "-D" + GUARD] + SAN + \
          ["-I" + R, "-I" + R + "/libasn1common", "-I" + R + "/libasn1parser", "-I" + R + "/skeletons", "-I" + R + "/asn1-tools/unber"] + \
          srcs + ["-lm", "-o", exe]
    rc, o = sh(cmd, timeout=300)
    if rc != 0:
        raise BuildError("ASan build of unber failed:\n" + o[-3000:])
    return exe


# --------------------------------------------------------------------------
# generators

TAGNUMS = [0, 1, 2, 4, 16, 17, 29, 30, 31, 32, 127, 128, 129, 2**14 - 1, 2**14, 2**21 - 1, 2**21, 2**28 - 1, 2**28, 2**30 - 1]
LENS = [0, 1, 2, 126, 127, 128, 129, 255, 256, 257, 65535, 65536]


def g_tag(rng):
    cls = rng.below(4)
    r = rng.below(10)
    if r < 5:
        num = rng.below(31)
    elif r < 9:
        num = rng.choice(TAGNUMS)
    else:
        num = rng.below(2 ** rng.range(5, 30))
    return cls, num


def g_body(rng, small=True):
    r = rng.below(40)
    if r == 0 and not small:
        n = rng.choice(LENS)
    elif r < 4:
        n = rng.choice([126, 127, 128, 129, 255, 256])
    else:
        n = rng.below(12)
    k = rng.below(4)
    if k == 0:
        return bytes([rng.choice([0, 0xff, 0x26, 0x3c, 0x3e, 0x41, 0x0a, 0x80])]) * n
    return rng.bytes(n)


def g_prim(rng, in_indef, small=True):
    cls, num = g_tag(rng)
    body = g_body(rng, small)
    if in_indef and cls == 0 and num == 0 and len(body) == 0:
        body = b"\x00"            # 00 00 inside an indefinite parent *is* the end-of-contents marker
    return ('P', cls, num, body)


def g_tree(rng, depth, in_indef=False, fan=3):
    """random tree with nesting depth exactly `depth` along one spine"""
    if depth <= 1:
        if rng.chance(1, 6):
            cls, num = g_tag(rng)
            return ('C', cls, num, rng.chance(1, 2), [])
        return g_prim(rng, in_indef)
    cls, num = g_tag(rng)
    definite = rng.chance(1, 2)
    k = 1 + rng.below(fan)
    spine = rng.below(k)
    ch = []
    for i in range(k):
        d = depth - 1 if i == spine else rng.below(min(depth, 4))
        ch.append(g_tree(rng, d, not definite, fan) if d >= 1 else g_prim(rng, not definite))
    return ('C', cls, num, definite, ch)


def boundary_trees():
    """directed: every class x boundary tag number, every boundary content length,
    as primitive, definite and indefinite constructed"""
    out = []
    for cls in range(4):
        for num in TAGNUMS:
            out.append(('P', cls, num, b"\x01\x02"))
            out.append(('C', cls, num, True, [('P', 0, 4, b"ab")]))
            out.append(('C', cls, num, False, [('P', 0, 4, b"ab")]))
    for n in LENS:
        body = bytes((i * 7 + 3) & 0xff for i in range(n))
        out.append(('P', 0, 4, body))
        out.append(('P', 3, 2**21, body))
        # a definite constructed node whose content length is exactly n
        for inner in range(max(0, n - 6), n + 1):
            c = ('P', 2, 1, body[:inner])
            if len(encode(c)) == n:
                out.append(('C', 0, 16, True, [c]))
                out.append(('C', 1, 31, True, [('C', 2, 0, False, [c])]))
                break
    out.append(('C', 0, 16, True, []))
    out.append(('C', 0, 16, False, []))
    out.append(('P', 0, 0, b""))                      # 00 00 outside an indefinite parent: a primitive
    out.append(('C', 0, 16, True, [('P', 0, 0, b"")]))
    out.append(('C', 0, 16, False, [('P', 0, 0, b"\x00")]))
    out.append(('C', 0, 0, False, [('C', 0, 0, True, [])]))
    return out


def chain(depth, definite_of, leaf):
    t = leaf
    for d in range(depth - 1, 0, -1):
        t = ('C', d % 4, [16, 0, 31, 2**14][d % 4], definite_of(d), [t])
    return t


def padder(rng, p_num=1, p_den=3):
    cache = {}

    def pad(t):
        k = id(t)
        if k not in cache:
            tp = lp = 0
            if rng.chance(p_num, p_den):
                tp = rng.choice([0, 0, 1, 2, 3])
            if rng.chance(p_num, p_den) and not (t[0] == 'C' and not t[3]):
                lp = rng.choice([1, 1, 2, 3, 5])
            cache[k] = (tp, lp)
        return cache[k]
    return pad


def mutate_stream(rng, docs, tier):
    out = []
    for d in docs:
        for i in range(len(d)):
            out.append(("trunc", d[:i]))
        hdr_positions = [n[0] + j for n in walk(d)[0] for j in range(n[4])]
        for p in hdr_positions:
            for bit in range(8):
                m = bytearray(d); m[p] ^= 1 << bit
                out.append(("bitflip", bytes(m)))
        for _ in range(8 if tier == "quick" else 60):
            m = bytearray(d)
            for _ in range(1 + rng.below(3)):
                if not m:
                    break
                r = rng.below(4)
                p = rng.below(len(m))
                if r == 0:
                    m[p] = rng.choice([0, 0x80, 0x81, 0x82, 0x88, 0xff, 0x1f, 0x3f, 0x7f, 0x30, 0xa0])
                elif r == 1:
                    del m[p]
                elif r == 2:
                    m.insert(p, rng.below(256))
                else:
                    m[p] = rng.below(256)
            out.append(("mut", bytes(m)))
    nrand = 400 if tier == "quick" else 6000
    for _ in range(nrand):
        out.append(("random", rng.bytes(rng.below(48))))
    pool = [0x00, 0x30, 0x80, 0x1f, 0x3f, 0x81, 0x82, 0x84, 0x88, 0xff, 0x04, 0x01, 0x02, 0x7f, 0xa0, 0x24]
    for _ in range(nrand):
        out.append(("random-structured", bytes(rng.choice(pool) if rng.chance(3, 4) else rng.below(256) for _ in range(rng.below(40)))))
    # the limits of process_deeper's tagbuf[32] and of ber_fetch_tag / ber_fetch_length
    for k in range(24, 40):
        out.append(("tl-buffer", b"\x1f" + b"\x80" * (k - 3) + b"\x05\x00"))
        out.append(("tl-buffer", b"\x04" + bytes([0x80 | (k - 2)]) + b"\x00" * (k - 2)))
        out.append(("tl-buffer", b"\x30\x80\x1f" + b"\x80" * (k - 3) + b"\x05\x00\x00\x00"))
    for tail in (b"\x00", b"\x01\x00"):
        out.append(("tag-limit", b"\x1f\x83\xff\xff\xff\x7f" + tail))      # 2^30-1
        out.append(("tag-limit", b"\x1f\x84\x80\x80\x80\x00" + tail))      # 2^30
        out.append(("tag-limit", b"\xdf\x8f\xff\xff\xff\x7f" + tail))      # 2^32-1
    for l in (2**62 - 1, 2**62, 2**63 - 1, 2**63, 2**64 - 1):
        out.append(("len-limit", b"\x04\x88" + l.to_bytes(8, "big")))
        out.append(("len-limit", b"\x30\x88" + l.to_bytes(8, "big") + b"\x04\x00"))
    out.append(("len-limit", b"\x04\x89\x01" + b"\x00" * 8))
    return out


# --------------------------------------------------------------------------
# enber on line records that unber would not print: the lines of a tree with one
# attribute edited (TL missing/wrong, V wrong or out of ssize_t range, tag number
# out of range, content of the wrong length, missing closer)


def records(t, lv, off):
    tag = (t[2] << 2) | t[1]
    if t[0] == 'P':
        hl = len(enc_tag(t[1], t[2], False)) + len(enc_len(len(t[3])))
        return [["P", lv, off, tag, hl, len(t[3]), t[3]]], hl + len(t[3])
    body, pos = [], 0
    definite = t[3]
    content = b"".join(encode(c) for c in t[4])
    hl = len(enc_tag(t[1], t[2], True)) + (len(enc_len(len(content))) if definite else 1)
    for c in t[4]:
        r, n = records(c, lv + 1, off + hl + pos)
        body += r
        pos += n
    size = hl + pos + (0 if definite else 2)
    close = ["C", lv, off + size, tag, size] if definite else ["I", lv, off + size - 2, size]
    return [["O", lv, off, tag, hl, len(content) if definite else -1]] + body + [close], size


def rec_tokens(rs):
    out = []
    for r in rs:
        if out:
            out.append("/")
        out += [str(v) if not isinstance(v, bytes) else hexs(v) for v in r]
    return " ".join(out)


def mutate_records(rng, rs):
    rs = [list(r) for r in rs]
    opens = [k for k, r in enumerate(rs) if r[0] in "OP"]
    k = rng.choice(opens)
    r = rs[k]
    m = rng.below(12)
    what = "none"
    if m == 0:
        r[4] = 0; what = "TL=0"
    elif m == 1:
        r[4] = rng.choice([1, r[4] + 1, max(2, r[4] - 1), 2**63, 2**63 - 1, 31, 32]); what = "TL"
    elif m == 2 and r[5] >= 0:
        r[5] = rng.choice([r[5] + 1, max(0, r[5] - 1), 127, 128, 2**62, 2**63, 2**64 - 1]); what = "V"
    elif m == 3:
        cls = r[3] & 3
        r[3] = (rng.choice([2**30 - 1, 2**30, 2**32 - 1, 2**32, 2**32 + 5, 2**31]) << 2) | cls; what = "tagnum"
    elif m == 4:
        r[3] = (r[3] & ~3) | rng.below(4); what = "class"
    elif m == 5 and r[0] == "P":
        r[6] = r[6] + rng.bytes(1 + rng.below(3)) if rng.chance(1, 2) else r[6][:max(0, len(r[6]) - 1)]; what = "content"
    elif m == 6:
        cl = [j for j, q in enumerate(rs) if q[0] == "I"]
        if cl:
            del rs[rng.choice(cl)]; what = "drop-closer"
    elif m == 7 and r[0] == "O":
        r[5] = -1 if r[5] >= 0 else 0; what = "C<->I"
    elif m == 8:
        r[4] = 0; r[3] = (rng.below(2**20) << 2) | rng.below(4); what = "TL=0+tag"
    elif m == 9 and r[0] == "P":
        n = rng.choice([127, 128, 255, 256])
        r[6] = rng.bytes(n); r[5] = n; r[4] = 0; what = "TL=0+content"
    return rs, what


# --------------------------------------------------------------------------
# unber's other modes: plain `unber` (pretty-printing of the universal types in
# print_V), -1, -i <n>, -m, -s <skip>, several files, stdin, and -t <hex>.
# Nothing of this is modelled (except the OID arc count, Tools/UnberOid.v); the
# oracle is the memory-safety / termination half of the property: the process
# ends by itself with status 0 or with a diagnostic and a non-zero status, no
# signal, no sanitizer report, within the time limit; on a well-formed input
# every mode that does not cut the input (-s) ends with status 0 and the plain
# output carries the TLV structure.
# Contents generators are aimed at the case splits of print_V:
#   BOOLEAN  tlv_len == 1 or not; 00 / ff / other
#   INTEGER, ENUMERATED  tlv_len <= 8 (collector) or not
#   OBJECT IDENTIFIER, RELATIVE-OID  0 < tlv_len < 128K -> arcs[tlv_len+1], vbuf;
#       get_arcs >= 0 (n octets -> up to n+1 arcs) or -1 (-> the text/binary scan)
#   UTCTime, GeneralizedTime, Numeric/Printable/Visible/IA5/UTF8String  per-octet
#       escape (0x80 bit, < 0x20, < > &)
#   BMPString, UniversalString  no buffer
#   other strings, OCTET STRING, non-universal classes  vbuf, 12.5% binary threshold, 0x1b
#   everything else (BIT STRING, NULL, REAL, EXTERNAL, 14, 15, 16, 17 as primitive, > 30)

U_DIRECT = (12, 18, 19, 22, 23, 24, 26)          # printed octet by octet
U_VBUF = (4, 7, 20, 21, 25, 27)                  # collected, then text or binary
U_NOBUF = (28, 30)
STR_LENS = [1, 2, 7, 8, 9, 15, 16, 17, 31, 32, 33, 63, 64, 65, 255, 256, 257]


def subid(v, pad=0):
    ds = [v & 0x7f]
    v >>= 7
    while v:
        ds.append(0x80 | (v & 0x7f))
        v >>= 7
    ds += [0x80] * pad
    return bytes(reversed(ds))


def oid_bodies():
    out = []
    for n in range(1, 21):                       # n octets, all below 0x80: n+1 arcs for an OBJECT IDENTIFIER
        out.append(bytes(((i * 5 + 42) & 0x7f) for i in range(n)))
        out.append(bytes([0x2a] + [0x7f] * (n - 1)))
        out.append(bytes(n))
        out.append(bytes([0x2a] * (n - 1)) + subid(840))          # one two-octet arc at the end: n+1 octets, n+1 arcs
        out.append(subid(113549) + bytes([1] * (n - 1)))
    for v in (0, 39, 40, 79, 80, 119, 120, 127):                  # first subidentifier: arc0/arc1 split
        out += [bytes([v]), bytes([v, 1])]
    for v in (128, 16383, 16384, 2**21 - 1, 2**21, 2**28 - 1, 2**28, 2**32 - 1, 2**32, 2**32 + 80, 2**35 - 1, 2**35, 2**63, 2**70):
        out += [subid(v), b"\x2a" + subid(v), b"\x2a" + subid(v) + b"\x01", subid(v) + subid(v), subid(v, 1), b"\x2a" + subid(v, 2) + b"\x03"]
    out += [b"\x80", b"\x80\x01", b"\x80\x80", b"\x2a\x80\x01", b"\x2a\x80\x80\x80\x80\x80\x01", b"\x2a\x80", b"\x2a\x86", b"\x2a\x03\x86",
            b"\xff", b"\xff" * 5, b"\xff" * 6, b"\xff\xff\xff\xff\x7f", b"\x8f\xff\xff\xff\x7f", b"\x90\x80\x80\x80\x00",
            bytes.fromhex("2a864886f70d01010b"), bytes.fromhex("550403"), bytes.fromhex("2b06010505070301"), bytes.fromhex("6086480165030402 01")]
    for n in (31, 32, 33, 63, 64, 65, 127, 128, 129, 255, 256, 257, 1000):
        out += [bytes([0x2a] + [1] * (n - 1)), bytes([0x2a] + [0x81, 0x01] * ((n - 1) // 2)), bytes([0x81] * (n - 1) + [0x01]), bytes([0x2a] * (n - 1) + [0x81])]
    return out


def int_bodies():
    out = []
    for n in range(0, 11):
        out += [bytes(n), b"\xff" * n, b"\x7f" + b"\xff" * (n - 1) if n else b"", b"\x80" + bytes(n - 1) if n else b"",
                b"\x01" + bytes(n - 1) if n else b"", bytes((i * 37 + 0x9c) & 0xff for i in range(n)), b"\x00" + b"\xff" * (n - 1) if n else b""]
    out += [bytes([0x12] * 16), bytes([0xfe] * 17), bytes([0x80] + [0] * 127)]
    return out


BOOL_BODIES = [b"", b"\x00", b"\xff", b"\x01", b"\x80", b"\x7f", b"\x00\x00", b"\xff\xff", b"\x00\xff\x01", b"\x3c"]
TIME_BODIES = [b"", b"Z", b"230101120000Z", b"2301011200Z", b"230101120000+0100", b"9912312359", b"20230101120000Z", b"20230101120000.5Z",
               b"20230101120000,123456789+0100", b"2023010112", b"99999999999999", b"230101<120000>&Z", b"\x00" * 13, b"2301\x80\xff1200Z",
               b"23010112\x1b000Z", b"Z" * 64, b"2" * 257, b"20230101120000.\n\tZ", "2023-01-01T12:00:00±".encode()]
REAL_BODIES = [b"", b"\x00", b"\x40", b"\x41", b"\x42", b"\x43", b"\x44", b"\x80\x00\x01", b"\x80\xfe\x03", b"\xc0\x05\x7f", b"\x81\x03\xff\x01", b"\x82\x00\x00\x01\x05",
               b"\x83\x02\x01\x00\x01", b"\x83\xff\x01", b"\x83\x00", b"\x83", b"\xbf\xff\xff", b"\x01123", b"\x02 1.5", b"\x031.E0", b"\x03-0.E-1000", b"\x3f???",
               b"\x80" + b"\xff" * 20, b"\x80\x00" + bytes(300)]
UTF8_OK = ["é", "€", "\U0001f600", "aЖ中", "߿ࠀ￿\U00010000\U0010ffff", "\x7f\u0080"]
UTF8_BAD = [b"\x80", b"\xbf", b"\xc3", b"\xe2\x82", b"\xf0\x9f\x98", b"\xc0\x80", b"\xc1\xbf", b"\xe0\x80\x80", b"\xed\xa0\x80", b"\xf4\x90\x80\x80",
            b"\xf8\x88\x80\x80\x80", b"\xfc\x84\x80\x80\x80\x80", b"\xfe", b"\xff", b"\xff\xfe", b"a\xc3(", b"\xe2(\xa1", b"\xf0(\x8c\xbc"]


def fill(unit, n):
    return (unit * (n // len(unit) + 1))[:n]


def str_bodies(n):
    """contents of length n for the string printers (escape classes, text/binary threshold of the vbuf scan)"""
    out = [bytes(0x20 + (i * 7) % 95 for i in range(n)),           # printable ASCII
           fill(b"a<b>c&d\"e'", n), fill(b"line\r\n\tnext ", n),     # XML specials, white space (not counted as binary)
           bytes(n), b"\xff" * n, b"\x7f" * n, b"\x1f" * n, fill(b"\x7e\x7f\x80\x20\x1f", n),
           b"\x1b" + b"a" * (n - 1), b"a" * (n - 1) + b"\x1b"]
    k = n >> 3                                                       # vbuf scan: binary once more than n/8 octets are unprintable
    for d in (-1, 0, 1, 2):
        if 0 <= k + d <= n:
            out.append(b"a" * (n - k - d) + b"\x01" * (k + d))
            out.append(b"\x80" * (k + d) + b"z" * (n - k - d))
    for u in UTF8_OK:
        out.append(fill(u.encode(), n))                              # (cut at n: the last character may be incomplete)
        e = u.encode()
        if len(e) <= n:
            out.append(b"x" * (n - len(e)) + e)
    for b in UTF8_BAD:
        if len(b) <= n:
            out += [b + b"y" * (n - len(b)), b"y" * (n - len(b)) + b]
    return out


def typed_bodies(num, full, stride=1):
    """directed contents for a primitive [UNIVERSAL num]; full = every string length; stride > 1 (quick tier):
    every stride-th of the string contents, starting at a different one for every length and tag number"""
    base = [b"", b"\x00", b"\x7f", b"\x80", b"\xff", b"\x1b", b"<", b"ab", bytes(range(1, 21)), bytes(range(0x70, 0x90))]
    for n in (range(1, 21) if stride == 1 or num in (6, 13) else (1, 2, 3, 4, 6, 8, 9, 10, 16, 17, 20)):
        base.append(bytes(((i * 3 + 1) & 0x7f) for i in range(n)))   # every octet below 0x80, lengths 1..20, for every type
    if num == 1:
        return base + BOOL_BODIES
    if num in (2, 10):
        return base + int_bodies()
    if num in (6, 13):
        return base + oid_bodies()
    if num in (23, 24):
        return base + TIME_BODIES + str_bodies(17)[(num % stride)::stride]
    if num == 9:
        return base + REAL_BODIES
    lens = STR_LENS if full else [1, 16, 17, 257]
    out = list(base)
    for n in lens:
        out += str_bodies(n)[((n + num) % stride)::stride]
    return out


def typed_directed(quick):
    """well-formed documents: one primitive of every universal tag number 1..30 (and 0, 14, 15, 31, 32,
    2^30-1, and the other classes) around every directed contents; the same inside constructed parents"""
    out = []
    fullset = (4, 12, 19, 30)
    for num in range(0, 33):
        for b in typed_bodies(num, num in fullset or not quick, 1 if not quick else 4 if num in fullset else 6):
            if num == 0 and not b:
                continue
            out.append(('P', 0, num, b))
    for cls, num in ((1, 6), (2, 5), (3, 2), (2, 31), (1, 2**30 - 1), (0, 2**30 - 1), (0, 127)):     # non-universal: treated as OCTET STRING
        for b in typed_bodies(4, cls == 2 and num == 5, 1 if not quick else 4 if num == 5 else 6):
            out.append(('P', cls, num, b))
    # the 128K cut-off of the buffers (tlv_len < 128 * 1024)
    for n in (131071, 131072, 131073):
        for cls, num in ((0, 6), (0, 13), (0, 4), (2, 0), (0, 12), (0, 2)):
            out.append(('P', cls, num, bytes([0x2a] + [1] * (n - 1))))
        out.append(('P', 0, 6, bytes([0x81] * (n - 1) + [1])))
        out.append(('P', 0, 4, b"\x01" * n))
    docs = [("typed-directed", t) for t in out]
    # nested: typed primitives as members of definite / indefinite parents, two per parent (heap no longer pristine)
    prims = [t for t in out if len(t[3]) <= 40]
    step = 17 if quick else 2
    for k in range(0, len(prims) - 1, step):
        a, b = prims[k], prims[(k * 13 + 5) % len(prims)]
        docs.append(("typed-nested", ('C', 0, 16, k % 4 < 2, [a, ('C', 2, k % 31, k % 3 == 0, [b]), a])))
    # constructed encodings carrying the tag numbers of the primitive types
    for num in range(1, 31):
        docs.append(("typed-nested", ('C', 0, num, True, [('P', 0, 4, b"ab"), ('P', 0, num, b"\x2a\x03")])))
        docs.append(("typed-nested", ('C', 0, num, False, [('P', 0, num, b"\x2a\x03"), ('C', 0, num, False, [])])))
    return docs


def g_oid_body(rng):
    r = rng.below(10)
    n = rng.below(21)
    if r < 3:
        return bytes(rng.below(128) for _ in range(n))               # all single-octet arcs
    out = b""
    for _ in range(n):
        q = rng.below(40)
        if q < 24:
            out += bytes([rng.below(128)])
        elif q < 36:
            out += subid(rng.below(2 ** rng.range(8, 33)))
        elif q < 38:
            out += subid(rng.below(2 ** 32), 1 + rng.below(2))     # 0x80 lead octets
        else:
            out += subid(2 ** 32 + rng.below(2 ** 40))               # more than 32 bits
    if rng.chance(1, 12):
        out += bytes([0x80 | rng.below(128)])                        # ends inside a subidentifier
    return out


def g_typed_body(rng, num):
    if rng.chance(1, 12):
        return b""
    if num == 1:
        return rng.choice(BOOL_BODIES) if rng.chance(2, 3) else rng.bytes(rng.below(4))
    if num in (2, 10):
        n = rng.below(11)
        b = rng.bytes(n)
        if n and rng.chance(1, 2):
            b = bytes([rng.choice([0, 0xff, 0x7f, 0x80])]) + b[1:]
        return b
    if num in (6, 13):
        return g_oid_body(rng)
    if num in (23, 24) and rng.chance(1, 2):
        b = bytearray(rng.choice(TIME_BODIES))
        if b and rng.chance(1, 3):
            b[rng.below(len(b))] = rng.below(256)
        return bytes(b)
    if num == 9 and rng.chance(2, 3):
        return rng.choice(REAL_BODIES)
    n = rng.choice(STR_LENS) + rng.choice([0, 0, 0, 1, -1]) if rng.chance(1, 3) else rng.below(20)
    n = max(n, 0)
    r = rng.below(8)
    if r == 0:
        return rng.bytes(n)
    if r == 1:
        return bytes(0x20 + rng.below(95) for _ in range(n))
    if r == 2:
        return fill("".join(rng.choice(UTF8_OK) for _ in range(3)).encode(), n)
    if r == 3:
        b = bytearray(0x20 + rng.below(95) for _ in range(n))
        for _ in range(rng.choice([0, 1, (n >> 3), (n >> 3) + 1, (n >> 3) + 2])):
            if b:
                b[rng.below(len(b))] = rng.choice([0, 1, 0x1b, 0x7f, 0x80, 0xff, 0x09, 0x0a, 0x0d, 0x1f])
        return bytes(b)
    if r == 4:
        bad = rng.choice(UTF8_BAD)
        return fill(bad + b"ok", n) if rng.chance(1, 2) else (b"q" * max(0, n - len(bad)) + bad)
    bodies = str_bodies(n)
    return bodies[rng.below(len(bodies))]


def g_tprim(rng, in_indef, small=True):
    """primitive with a type-directed body: [UNIVERSAL 1..30] most of the time"""
    r = rng.below(16)
    if r < 12:
        cls, num = 0, 1 + rng.below(30)
    elif r < 14:
        cls, num = 1 + rng.below(3), rng.below(40)
    else:
        cls, num = g_tag(rng)
    body = g_typed_body(rng, num if cls == 0 else 4)
    if in_indef and cls == 0 and num == 0 and len(body) == 0:
        body = b"\x00"
    return ('P', cls, num, body)


def g_ttree(rng, depth, in_indef=False, fan=3):
    """as g_tree, with typed primitives and universal tag numbers 1..30 on half of the constructed nodes"""
    def ctag():
        return (0, 1 + rng.below(30)) if rng.chance(1, 2) else g_tag(rng)
    if depth <= 1:
        if rng.chance(1, 8):
            cls, num = ctag()
            return ('C', cls, num, rng.chance(1, 2), [])
        return g_tprim(rng, in_indef)
    cls, num = ctag()
    definite = rng.chance(1, 2)
    k = 1 + rng.below(fan)
    spine = rng.below(k)
    ch = []
    for i in range(k):
        d = depth - 1 if i == spine else rng.below(min(depth, 4))
        ch.append(g_ttree(rng, d, not definite, fan) if d >= 1 else g_tprim(rng, not definite))
    return ('C', cls, num, definite, ch)


def mutate_typed(rng, docs, tier):
    """malformed stream around the typed documents: truncation at every offset, every bit of every
    octet (header and contents), byte edits, wrong lengths; random octets behind a universal header"""
    out = []
    for d in docs:
        for i in range(len(d)):
            out.append(("trunc", d[:i]))
        for p in range(len(d)):
            for bit in range(8):
                m = bytearray(d); m[p] ^= 1 << bit
                out.append(("bitflip", bytes(m)))
        for _ in range(6 if tier == "quick" else 40):
            m = bytearray(d)
            for _ in range(1 + rng.below(3)):
                if not m:
                    break
                r = rng.below(4)
                p = rng.below(len(m))
                if r == 0:
                    m[p] = rng.choice([0, 0x7f, 0x80, 0x81, 0xff, 0x1b, 0x2a])
                elif r == 1:
                    del m[p]
                elif r == 2:
                    m.insert(p, rng.below(256))
                else:
                    m[p] = rng.below(256)
            out.append(("mut", bytes(m)))
    for _ in range(500 if tier == "quick" else 8000):
        num = rng.below(32)
        actual = rng.below(40)
        r = rng.below(6)
        declared = actual if r < 3 else (rng.below(48) if r < 5 else rng.choice([127, 128, 255, 1000]))
        body = rng.bytes(actual) if rng.chance(1, 2) else g_typed_body(rng, num)[:actual]
        hdr = enc_tag(0, num, rng.chance(1, 10)) + enc_len(declared, rng.choice([0, 0, 0, 1]))
        pre = b"\x30\x80" if rng.chance(1, 4) else b""
        out.append(("random-typed", pre + hdr + body + (b"\x00\x00" if pre and rng.chance(1, 2) else b"")))
    return out


MODE_DIAGS = DIAGS + [(re.compile(r'input source has less data than "-s (\d+)" switch wants to skip'), "SKIP:%s"),
                      (re.compile(r"No such file or directory"), "NOFILE"),
                      (re.compile(r"TAG: Fatal error decoding tag|TAG: More data expected|LEN: Fatal error decoding length|LEN: More data expected|Unexpected symbols in data string"), "TSTRING")]
POPEN_RE = re.compile(rb'^( *)<([PCI]) O="(\d+)" T="\[(UNIVERSAL |APPLICATION |PRIVATE |)(\d+)\]" TL="(\d+)" V="(\d+|Indefinite)"')
SAN_WORDS = ("AddressSanitizer", "LeakSanitizer", "runtime error", "UndefinedBehaviorSanitizer", "Sanitizer: ")


def mode_exit(rc, err, allowed=(0, 65)):
    """exit class of a run in one of the modes: OK, DIAG:<known diagnostic>, or what is wrong"""
    if rc == "timeout":
        return "TIMEOUT"
    if rc in (77, 78) or any(w in err for w in SAN_WORDS):
        return "SANITIZER:%s" % rc
    if not isinstance(rc, int) or rc < 0 or rc >= 128:
        return "SIGNAL:%s" % rc
    if rc == 0:
        return "OK"
    if rc not in allowed:
        return "EXIT:%s" % rc
    if rc == 65:
        for rx, fmt in MODE_DIAGS:
            m = rx.search(err)
            if m:
                return "DIAG:" + (fmt % m.groups() if m.groups() else fmt).split(":")[0]
        return "EXIT:65-without-known-diagnostic"
    return "DIAG:exit%d" % rc if err.strip() else "EXIT:%d-silent" % rc


def plain_nodes(out):
    """(offset, cls, num, constructed, TL, V or -1) of every opening line of plain / -i output (contents never
    hold a raw line feed or '<': print_V escapes both in every branch)"""
    res = []
    for ln in out.split(b"\n"):
        s = ln.lstrip(b" ")
        if not s.startswith(b"<") or s.startswith(b"</"):
            continue
        m = POPEN_RE.match(ln)
        if not m:
            res.append(("unparsed", ln[:80]))
            continue
        v = -1 if m.group(7) == b"Indefinite" else int(m.group(7))
        res.append((int(m.group(3)), CLASS_WORD.index(m.group(4).decode()), int(m.group(5)), m.group(2) != b"P", int(m.group(6)), v))
    return res


def clip(err, head=1800, tail=700):
    """the head of a sanitizer report names the error and the site, the tail holds the summary"""
    return err if len(err) <= head + tail else err[:head] + "\n...\n" + err[-tail:]


def _run2(cmd, inp=None, env=None, timeout=30):
    try:
        p = subprocess.run(cmd, input=inp, stdout=subprocess.PIPE, stderr=subprocess.PIPE, timeout=timeout, env=env)
        return p.returncode, p.stdout, clip(p.stderr.decode("latin1"), 4000, 3000)     # (the head names the error, deep inputs make long traces)
    except subprocess.TimeoutExpired:
        return "timeout", b"", ""


BATCH = 8            # well-formed inputs handed to one sanitizer process (`unber f1 ... f8`: status 0 expected from every file)


def _work_modes(batch):
    """jobs:
    ("S", jid, x or None, args with 'F' standing for the input file, stdin?, run the plain build too?)
    ("B", [jid], [x], option arguments, run the plain build too?)   well-formed inputs, one sanitizer process for
        all files (an ASan/LSan process costs ~5 times the plain one); any deviation from `status 0, silent, same
        stdout as the plain build file by file` and every file is run again on its own
    result per jid: (jid, plain rc, plain stderr, asan rc, asan stdout or None, asan stderr, same stdout?)"""
    res = []
    pid = os.getpid()
    path = os.path.join(_W["tmp"], "m.%d.ber" % pid)
    made = {path}

    def one(jid, x, args, use_stdin, both, rr=None):
        argv = [path if a == "F" else a for a in args]
        if x is not None:
            open(path, "wb").write(x)
        inp = x if use_stdin else None
        rrc, rout, rerr = rr if rr else (None, b"", "")
        if both and not rr:
            rrc, rout, rerr = _run2([_W["unber"]] + argv, inp=inp)
        arc, aout, aerr = _run2([_W["asan"]] + argv, inp=inp, env=SAN_ENV)
        return (jid, rrc, rerr.replace(path, "F"), arc, aout if len(aout) <= 200000 else aout[:200000], aerr.replace(path, "F"), (not both) or rout == aout)
    for job in batch:
        if job[0] == "S":
            res.append(one(*job[1:]))
            continue
        _, jids, xs, opts, both = job
        paths = [os.path.join(_W["tmp"], "b.%d.%d.ber" % (pid, k)) for k in range(len(xs))]
        made.update(paths)
        rrs = []
        for pth, x in zip(paths, xs):
            open(pth, "wb").write(x)
            if both:
                rrc, rout, rerr = _run2([_W["unber"]] + opts + [pth])
                rrs.append((rrc, rout, rerr.replace(pth, "F")))
        arc, aout, aerr = _run2([_W["asan"]] + opts + paths, env=SAN_ENV)
        if arc == 0 and not aerr.strip() and (not both or (all(r[0] == 0 and not r[2].strip() for r in rrs) and aout == b"".join(r[1] for r in rrs))):
            for k, jid in enumerate(jids):
                res.append((jid, rrs[k][0] if both else None, "", 0, rrs[k][1] if both else None, "", True))
            continue
        singles = [one(jid, x, opts + ["F"], False, both, rrs[k] if both else None) for k, (jid, x) in enumerate(zip(jids, xs))]
        res += singles
        if all(r[3] == 0 and not r[5].strip() and r[6] and r[1] in (0, None) for r in singles):
            res.append(("batch", jids, arc, aerr[-3000:]))      # every file is fine alone, the run over all of them is not
    for pth in made:
        try:
            os.unlink(pth)
        except OSError:
            pass
    return res


T_STRINGS = ["", "0", "00", "0000", "1f", "1f80", "1f8001", "bf20", "BF20", "3080", "30 80", "30\t80\n", " 3 0 8 0 ", "308", "0481", "0481ff", "04ff", "0480", "3080000",
             "1f" + "ff" * 40, "1f" + "80" * 40 + "01", "1f848080800000", "df8fffffff7f00", "0488" + "ff" * 8, "0489" + "00" * 9, "04" + "fe" + "01" * 126, "30" + "fe" + "01" * 126,
             "3g", "g", "30,80", "0x30", "30 80 zz", "-1", "3\x7f", "30é", "a" * 5000, "1f" + "8" * 4999, "30 " * 3000, "f" * 20001]


def modes_stage(run, rng, cases, typed_docs, unber, asan, model, tmpdir, quick):
    """runs the other modes; returns counters for the evidence"""
    tier = "quick" if quick else "thorough"
    inputs = []                      # (kind, bytes)
    for kind, t in typed_docs:
        inputs.append((kind, encode(t)))
    ndirected = len(inputs)
    nold = 0
    for kind, x, _ in cases:
        if kind == "deep":
            continue
        if kind.startswith("mal-"):
            nold += 1
            if nold % 3:
                continue             # (the untyped malformed stream went through -p and the sanitizer build already: every third)
        inputs.append((kind, x))
    # malformed stream around small typed documents: one of each universal tag number first, then random ones
    small = []
    seen = set()
    for kind, x in inputs[:ndirected]:
        if kind == "typed-directed" and 4 <= len(x) <= 14 and x[0] not in seen and x[0] < 0x1f:
            seen.add(x[0]); small.append(x)
    small += [bytes.fromhex(h) for h in ("06062a0304050607", "0d052a03040506", "06092a864886f70d01010b", "02080123456789abcdef", "0101ff", "0209ff0123456789abcdef",
                                          "0c06e282acf09f98", "170d3233303130313132303030305a", "300a06032a03040c03e282ac", "308006035504030101000000")]
    small += [encode(g_ttree(rng, 1 + rng.below(3))) for _ in range(10 if quick else 150)]
    small = [d for d in small if len(d) <= 24]
    if quick and len(small) > 36:
        small = small[::2]
    for k, x in mutate_typed(rng, small, tier):
        inputs.append(("mal-typed-" + k, x))

    def skip_of(x, j):
        return str([0, 1, 2, 3, max(0, len(x) - 1), len(x), len(x) + 1, 5, 2 ** 31, 7][j % 10] if j % 3 else rng.below(len(x) + 2))
    jobs, meta, groups = [], {}, {}

    def add(x, args, kind, mode, use_stdin=False, both=False, allowed=(0, 65), wf=False):
        jid = len(meta)
        meta[jid] = (x, args, kind, mode, allowed)
        if wf and len(x) <= 4096 and args[-1] == "F" and not use_stdin and "-s" not in args:
            groups.setdefault((tuple(args[:-1]), both), []).append((jid, x))
        else:
            jobs.append(("S", jid, x, args, use_stdin, both))
    for j, (kind, x) in enumerate(inputs):
        nodes, wf, info = walk(x)
        wf = wf and info["maxtag"] < TAG_LIMIT and info["maxhdr"] <= TL_BUF
        add(x, ["F"], kind, "plain", both=True, wf=wf)
        # a second mode: for every third directed document, every other malformed input, every other input
        # (the options do not look at the contents; -s turns the rest of a document into arbitrary octets)
        per = 3 if kind in ("typed-directed", "typed-nested") else 2 if kind.startswith("mal-") else 1
        if j % per:
            continue
        r = (j // per) % 12
        if r == 0:
            add(x, ["-m", "F"], kind, "-m", wf=wf)
        elif r == 1:
            add(x, ["-1", "F"], kind, "-1", wf=wf)
        elif r == 2:
            add(x, ["-i", str((j // per // 12) % 16), "F"], kind, "-i", wf=wf and (j // per) % 24 != 2)
        elif r == 3:
            add(x, ["-s", skip_of(x, j // per // 12), "F"], kind, "-s")
        elif r == 4:
            add(x, ["-m", "-1", "-i", str((j // per // 12) % 3), "F"], kind, "-m-1-i", wf=wf)
        elif r == 5:
            add(x, ["-"], kind, "stdin", use_stdin=True)
        elif r == 6:
            add(x, ["-m", "-p", "F"], kind, "-m-p", wf=wf)
        elif r == 7:
            add(x, ["F", "F"], kind, "two-files")
        elif r == 8:
            add(x, ["-i", "15", "-s", skip_of(x, j // per // 12), "F"], kind, "-s")
        elif r == 9:
            add(x, ["-1", "-s", skip_of(x, j // per // 12), "-"], kind, "-s", use_stdin=True)
        elif r == 10:
            add(x, ["-m", "F"], kind, "-m", wf=wf)
        else:
            add(x, ["-i", "0", "F"], kind, "-i", wf=wf)
    # -t <hex-string>: the TL headers of the inputs, and strings that are not hex
    tstr = list(T_STRINGS)
    for j in range(0, len(inputs), max(1, len(inputs) // (60 if quick else 600))):
        x = inputs[j][1][:34]
        h = x.hex()
        tstr.append(h if j % 3 else (" ".join(h[k:k + 2] for k in range(0, len(h), 2)) if j % 2 else h[:len(h) - 1]))
    for _ in range(20 if quick else 300):
        tstr.append("".join(rng.choice("0123456789abcdefABCDEF \t" if rng.chance(9, 10) else "gxz-") for _ in range(rng.below(30))))
    for s in tstr:
        add(None, ["-t", s], "t-string", "-t", both=True)
    # command lines that are refused
    for args, code in ((["-i", "16", "F"], 64), (["-i", "-1", "F"], 64), (["-s", "-1", "F"], 64), (["-x", "F"], 64), ([], 1), (["-m"], 1), (["-h"], 64),
                       (["-v"], 0), (["/nonexistent/c20"], 65), (["-i", "abc", "F"], 0), (["-i"], 64), (["-t"], 64)):
        add(b"\x30\x03\x02\x01\x05", args, "usage", "usage", both=True, allowed=(0, code))
    nbatch = 0
    for (opts, both), members in groups.items():
        for k in range(0, len(members), BATCH):
            part = members[k:k + BATCH]
            jobs.append(("B", [m[0] for m in part], [m[1] for m in part], list(opts), both))
            nbatch += 1

    def weight(job):
        if job[0] == "B":
            return sum(len(x) for x in job[2]) + 4000 * len(job[2])
        return (len(job[2]) if job[2] else 0) + 4000
    order = sorted(jobs, key=lambda j: -weight(j))
    nb = NCPU * 8
    batches = [order[i::nb] for i in range(nb)]
    results, batchfails = {}, []
    with multiprocessing.Pool(NCPU, initializer=_init, initargs=(unber, None, asan, tmpdir)) as pool:
        for rs in pool.imap_unordered(_work_modes, [b for b in batches if b]):
            for r in rs:
                if r[0] == "batch":
                    batchfails.append(r)
                else:
                    results[r[0]] = r
    log("[c20] modes: %d runs (%d sanitizer processes, %d of them over up to %d well-formed files) on %d inputs done %.1fs"
        % (len(meta), len(jobs), nbatch, BATCH, len(inputs), time.time() - T0))

    # OID arc count: model (Leaf/Oid.v get_arcs, the subject of C20_oid_arc_count) vs what plain unber prints
    oid_jobs, by_x = [], {}
    for jid in sorted(meta):
        x, args, kind, mode, _ = meta[jid]
        if mode == "plain" and kind == "typed-directed" and x[0] in (6, 13) and len(x) < 2000 and x not in by_x:
            nodes, wf, _ = walk(x)
            if wf and len(nodes) == 1:
                by_x[x] = jid
                oid_jobs.append(jid)
    olines = []
    for jid in oid_jobs:
        x = meta[jid][0]
        n = walk(x)[0][0]
        olines.append("c20_oid_arcs %d %s" % (x[0], hexs(x[n[4]:])))
    rc_o, oo, oe = run_lines(model, olines, timeout=600) if olines else (0, [], "")
    if rc_o != 0 or len(oo) != len(olines):
        raise RuntimeError("model driver failed on c20_oid_arcs: rc=%s %s" % (rc_o, oe))
    oid_model = dict(zip(oid_jobs, oo))

    stats = {"runs": len(meta), "inputs": len(inputs), "sanitizer_processes": len(jobs), "batches": nbatch, "t_strings": len(tstr)}
    for _, jids, arc, aerr in batchfails:
        hx = " | ".join(meta[j][0].hex() for j in jids)
        run.violation("oracle:memory-safety", {"what": "sanitizer build of unber fails on several well-formed files in one process although every file passes alone",
                                               "command_line": "unber " + " ".join(meta[jids[0]][1][:-1]) + " F1 ... F%d" % len(jids), "input_hex": hx[:8000], "input": hx[:600],
                                               "asan_exit": str(arc), "stderr": clip(aerr)})
    for jid in sorted(meta):
        x, args, kind, mode, allowed = meta[jid]
        _, rrc, rerr, arc, aout, aerr, same = results[jid]
        cmdline = "unber " + " ".join(("'%s'" % a if (" " in a or not a) else a) for a in args)
        if len(cmdline) > 300:
            cmdline = cmdline[:300] + "...(%d characters)" % len(cmdline)
        run.case(cmdline + " " + ("" if x is None else x.hex() if len(x) <= 600 else "%d:%d" % (len(x), zlib.crc32(x))), nontrivial=True)
        run.count("mode:" + mode)
        if mode == "plain":
            run.count("mode-kind:" + kind)
        aex = mode_exit(arc, aerr, allowed)
        rex = mode_exit(rrc, rerr, allowed) if rrc is not None else None
        run.count("mode-exit:%s:%s" % (mode, aex.split(":")[0] + (":" + aex.split(":")[1] if aex.startswith("DIAG") else "")))
        h = x.hex() if x is not None else ""
        note = "   (input_hex on stdin)" if "-" in args else ("   (F = file holding input_hex)" if "F" in args else "")
        rp = {"mode": mode, "command_line": cmdline + note,
              "input_hex": h if len(h) <= 4000 else h[:4000] + "...(%d octets)" % len(x),
              "input": (cmdline + "  F=" + h)[:600],
              "replay_cmd": "xxd -r -p <<< $input_hex > F; ASAN_OPTIONS=detect_leaks=1 <ASan/UBSan build of unber> %s" % " ".join(args)[:300]}
        # ---- the process ends by itself, no sanitizer report, no signal, in time
        bad = None
        if not (aex == "OK" or aex.startswith("DIAG")):
            bad = ("sanitizer build: " + aex, aerr)
        elif rex is not None and not (rex == "OK" or rex.startswith("DIAG")):
            bad = ("plain build: " + rex, rerr)
        elif rex is not None and (rex != aex or not same):
            bad = ("plain and sanitizer builds of unber behave differently (%s / %s, same stdout: %s)" % (rex, aex, same), aerr or rerr)
        if bad:
            run.violation("oracle:memory-safety", dict(rp, what="unber %s: %s" % ("(%s mode)" % mode, bad[0]), exit=rex, asan_exit=aex, stderr=clip(bad[1])))
            continue
        if mode == "usage":
            want = allowed[1]
            if arc != want or rrc != want:
                run.violation("oracle:memory-safety", dict(rp, what="unber %s: expected exit status %d" % (cmdline, want), exit=rex, asan_exit=aex, stderr=aerr[-600:]))
            continue
        if x is None:
            continue
        # ---- well-formed input: every mode that reads the whole file ends with status 0
        nodes, wf, info = walk(x)
        if not wf or info["maxtag"] >= TAG_LIMIT or info["maxhdr"] > TL_BUF:
            continue
        if mode == "-s":
            continue
        run.count("mode-wf:" + mode)
        if aex != "OK":
            run.violation("oracle:modes", dict(rp, what="unber (%s mode) does not end with status 0 on a well-formed input" % mode, asan_exit=aex, stderr=aerr[-600:]))
            continue
        if mode in ("plain", "-i", "stdin") and aout is not None and len(aout) < 200000:
            run.count("mode-fields:" + mode)
            pn = plain_nodes(aout)
            if pn != nodes:
                d = next((k for k in range(min(len(pn), len(nodes))) if pn[k] != nodes[k]), min(len(pn), len(nodes)))
                run.violation("oracle:fields", dict(rp, what="unber (%s mode) does not print the TLV structure of a well-formed input (offset, class, number, constructed, TL, V)" % mode,
                                                    first_diff_index=d, printed=str(pn[d:d + 2]), expected=str(nodes[d:d + 2])))
                continue
        if jid in oid_model and aout is not None:
            # arcs printed ("F>a.b.c</P>") or the octets ("...>&#x..;") when get_arcs fails
            m = re.search(rb' F>([0-9.]+)</P>\n$', aout)
            got = str(m.group(1).count(b".") + 1) if m else "fail"
            vlen = nodes[0][5]
            run.count("oid-arcs:" + ("fail" if got == "fail" else ("len+1" if int(got) == vlen + 1 else "<=len")))
            if got != oid_model[jid] and not (vlen == 0 and got == "fail"):
                run.count("model_vs_code_diff")
                run.violation("correspondence:oid-arcs", dict(rp, what="number of arcs unber prints differs from the model's get_arcs (Leaf/Oid.v)", model=oid_model[jid], c=got,
                                                              c_text=aout[-300:].decode("latin1")), no_input=True)
            elif got != "fail" and int(got) > vlen + (1 if x[0] == 6 else 0):
                run.violation("oracle:memory-safety", dict(rp, what="more arcs than slots in print_V's arc buffer", arcs=got, contents_octets=vlen))
    return stats


def main(tier):
    run = Run("C20", tier)
    # entries of the fragment that bin/mkmanifest has not assembled into known_findings.json yet
    fp = os.path.join(VERIF, "findings.d", "C20.json")
    if os.path.exists(fp):
        have_ids = {f["id"] for f in run.findings}
        run.findings += [f for f in json.load(open(fp)) if f.get("status") == "open" and f["id"] not in have_ids]
    rng = Rng(run.seed)
    quick = tier == "quick"

    # 1. proofs
    ok, out = coq_build()
    have = os.path.exists(os.path.join(COQ, "Props", "Properties_C20.v"))
    nthm, ndis, axioms, names, plog = obligations("C20") if ok and have else (0, 0, set(), [], out)
    gate = grep_gate()
    if not ok or ndis != nthm or nthm == 0 or gate:
        run.violation("proof:Properties_C20", {"what": "Coq development does not build or an obligation is open",
                                               "log_tail": (out if not ok else plog)[-2000:], "grep_gate": gate}, no_input=True)
    chk = None
    if not quick and ok:
        rc_k, ko = sh("timeout 900 coqchk -silent -o -Q %s A1 A1.Props.Properties_C20" % COQ, timeout=1000)
        m = re.search(r"\* Axioms:\s*(.*?)\n\s*\n", ko, flags=re.S)
        chk = {"rc": rc_k, "axioms": (m.group(1).strip() if m else "?")}
        if rc_k != 0 or chk["axioms"] != "<none>":
            run.violation("proof:coqchk", {"what": "coqchk rejects the compiled property file or reports axioms", "log_tail": ko[-1500:]}, no_input=True)
    log("[c20] proofs %.1fs" % (time.time() - T0))
    # 2. builds
    model = model_build()
    try:
        unber, enber = build_tools()
        asan = build_asan_unber(run)
    except BuildError as e:
        run.violation("build:tools", {"what": str(e)[-2000:]}, no_input=True)
        return run.finish("proof", (nthm, ndis))

    log("[c20] builds %.1fs" % (time.time() - T0))
    # 3. cases: (kind, bytes, forest or None)
    cases = []
    for t in boundary_trees():
        cases.append(("wf-boundary", encode(t), [t]))
    maxd = 12 if quick else 200
    ntrees = 500 if quick else 6000
    for i in range(ntrees):
        d = 1 + (i % maxd) if i < 4 * maxd else 1 + rng.below(min(maxd, 10))
        fan = 3 if d <= 16 else 2
        t = g_tree(rng, d, False, fan)
        cases.append(("wf-random", encode(t), [t]))
    for d in ([12] if quick else [12, 50, 100, 200]):
        for f in (lambda k: True, lambda k: False, lambda k: k % 2 == 0, lambda k: k % 3 != 0):
            t = chain(d, f, ('P', 2, 5, b"x"))
            cases.append(("wf-chain", encode(t), [t]))
    # several top-level TLVs in one file
    for _ in range(40 if quick else 400):
        ts = [g_tree(rng, 1 + rng.below(4)) for _ in range(1 + rng.below(4))]
        cases.append(("wf-multi", b"".join(encode(t) for t in ts), ts))
    # large primitive inside nested definite/indefinite parents
    for n in (65535, 65536):
        body = rng.bytes(n)
        t = ('C', 0, 16, False, [('C', 2, 2**14, True, [('P', 1, 128, body)]), ('P', 0, 5, b"")])
        cases.append(("wf-large", encode(t), [t]))
    # typed trees: primitives of every universal tag number 1..30 with type-directed contents (the -p
    # pipeline does not look at the contents; the same documents feed the other modes below)
    for i in range(150 if quick else 1500):
        t = g_ttree(rng, 1 + (i % 6))
        cases.append(("wf-typed", encode(t), [t]))
    nwf = len(cases)
    # non-minimal variants (known finding): same trees, padded tag / length octets
    for i in range(250 if quick else 3000):
        t = g_tree(rng, 1 + rng.below(6))
        cases.append(("nonminimal", encode(t, padder(rng)), None))
    cases.append(("nonminimal", bytes.fromhex("04810100"), None))
    cases.append(("nonminimal", bytes.fromhex("1f0500"), None))
    cases.append(("nonminimal", bytes.fromhex("1f800500"), None))
    cases.append(("nonminimal", bytes.fromhex("3081020500"), None))
    # malformed stream
    small_docs = [encode(t) for t in boundary_trees() if len(encode(t)) <= 24][:: (6 if quick else 1)]
    small_docs += [encode(g_tree(rng, 1 + rng.below(5))) for _ in range(12 if quick else 150)]
    small_docs = [d for d in small_docs if len(d) <= 48]
    for k, x in mutate_stream(rng, small_docs, tier):
        cases.append(("mal-" + k, x, None))
    # unbounded recursion of process_deeper: one deep, perfectly well-formed document
    deep_n = 20000
    cases.append(("deep", b"\x30\x80" * deep_n + b"\x00\x00" * deep_n, None))
    cases.append(("deep", b"\x30\x80" * 1000 + b"\x00\x00" * 1000, None))      # same shape, shallow: must be fine

    log("[c20] %d cases generated %.1fs" % (len(cases), time.time() - T0))
    # 4. run the binaries
    tmpdir = os.path.join(scratch(), "c20io")
    os.makedirs(tmpdir, exist_ok=True)
    jobs = []
    for i, (kind, x, t) in enumerate(cases):
        want_asan = kind.startswith("mal-") or (i % (7 if quick else 3) == 0 and kind != "deep")
        jobs.append((i, x, want_asan, kind != "deep"))
    order = sorted(jobs, key=lambda j: -len(j[1]))
    nb = NCPU * 8
    batches = [order[i::nb] for i in range(nb)]
    with multiprocessing.Pool(NCPU, initializer=_init, initargs=(unber, enber, asan, tmpdir)) as pool:
        results = {}
        for rs in pool.imap_unordered(_work, [b for b in batches if b]):
            for r in rs:
                results[r[0]] = r

    log("[c20] binaries done %.1fs" % (time.time() - T0))
    # 5. the model on the same inputs (split over several driver processes)
    midx = [i for i, c in enumerate(cases) if c[0] != "deep"]
    mlines = []
    for i in midx:
        h = hexs(cases[i][1])
        mlines += ["unber " + h, "xxber " + h]
    nproc = min(NCPU, 8)
    per = (len(midx) + nproc - 1) // nproc * 2
    chunks = [mlines[k:k + per] for k in range(0, len(mlines), per)]
    with multiprocessing.pool.ThreadPool(nproc) as tp:
        outs = tp.map(lambda ch: run_lines(model, ch, timeout=900), chunks)
    mo = []
    for (rc_m, o, e), ch in zip(outs, chunks):
        if rc_m != 0 or len(o) != len(ch):
            raise RuntimeError("model driver failed: rc=%s lines=%d/%d %s" % (rc_m, len(o), len(ch), e))
        mo += o
    mres = {i: (mo[2 * k], mo[2 * k + 1]) for k, i in enumerate(midx)}
    # Spec side (coq/Tools/BerTree.v): ser and nodes of the generated trees, to be
    # compared with the reference encoder and the walker below
    sidx = [i for i, c in enumerate(cases) if c[2] is not None]
    slines = []
    for i in sidx:
        tk = " ".join(" ".join(tree_tokens(t)) for t in cases[i][2])
        # (the spec's nodes recomputes subtree sizes at every level: cubic in the depth, so only for documents <= 800 octets)
        slines += ["spec_ser " + tk, ("spec_nodes " + tk) if len(cases[i][1]) <= 800 else "spec_ser"]
    rc_s, so, se = run_lines(model, slines, timeout=900)
    if rc_s != 0 or len(so) != len(slines):
        raise RuntimeError("model driver failed on spec queries: rc=%s %s" % (rc_s, se))
    sres = {i: (so[2 * k], so[2 * k + 1]) for k, i in enumerate(sidx)}

    # 5b. enber alone on edited line records: model's enber on the records vs the binary on their rendering
    rec_cases = []
    src = [c[2][0] for c in cases if c[0] in ("wf-random", "wf-boundary") and c[2] and len(c[1]) <= 400]
    for j in range(600 if quick else 8000):
        t = src[rng.below(len(src))]
        rs, what = mutate_records(rng, records(t, 0, 0)[0])
        rec_cases.append((what, rs))
    rl = []
    for what, rs in rec_cases:
        tk = rec_tokens(rs)
        rl += ["render_recs " + tk, "enber_recs " + tk]
    rc_r, ro, re_ = run_lines(model, rl, timeout=900)
    if rc_r != 0 or len(ro) != len(rl):
        raise RuntimeError("model driver failed on record queries: rc=%s %s" % (rc_r, re_))
    texts = [(b"" if ro[2 * k] == "-" else ro[2 * k].replace("|", "\n").encode()) for k in range(len(rec_cases))]

    def _enber_batch(idxs):
        return [(k,) + _run([enber, "-"], inp=texts[k]) for k in idxs]
    with multiprocessing.pool.ThreadPool(NCPU) as tp:
        eres = {}
        for part in tp.map(_enber_batch, [list(range(k, len(texts), NCPU)) for k in range(NCPU)]):
            for k, erc, eout, eerr in part:
                eres[k] = (erc, eout, eerr)
    for k, (what, rs) in enumerate(rec_cases):
        erc, eout, eerr = eres[k]
        eex = enber_exit(erc, eerr)
        m_eex, m_ehex = ro[2 * k + 1].split(" ", 1)
        m_ebytes = b"" if m_ehex == "-" else bytes.fromhex(m_ehex)
        run.case("recs:" + rec_tokens(rs), nontrivial=True)
        run.count("enber-records:" + what)
        run.count("enber-records-exit:" + eex)
        if m_eex != eex or m_ebytes != eout:
            run.count("model_vs_code_diff")
            run.violation("correspondence:enber-records", {"what": "model of enber and the binary disagree on edited line records", "edit": what,
                                                            "records": rec_tokens(rs)[:1500], "text": texts[k].decode("latin1")[:1500],
                                                            "model": m_eex, "c": eex, "model_out": m_ebytes.hex()[:400], "c_out": eout.hex()[:400],
                                                            "c_stderr": eerr[-300:], "replay_cmd": "printf '%s' \"$text\" | enber -", "_pending": True})
    log("[c20] model done %.1fs" % (time.time() - T0))
    # 6. compare
    def replay(x):
        h = x.hex()
        return {"input_hex": h if len(h) <= 4000 else h[:4000] + "...(%d octets)" % len(x),
                "replay_cmd": "xxd -r -p <<< $input_hex > t.ber; unber -p t.ber | enber - | cmp - t.ber"}

    nasan = 0
    for i, (kind, x, t) in enumerate(cases):
        _, urc, uout, uerr, erc, eout, eerr, arc, asan_same, aerr = results[i]
        run.case(x, nontrivial=True)
        run.count("kind:" + kind)
        uex = unber_exit(urc, uerr)
        run.count("unber:" + uex.split(":")[0] + (":" + uex.split(":")[1] if uex.startswith("FAIL") else ""))
        rp = replay(x)

        # -------- memory safety / termination (oracle, all inputs)
        bad_exit = uex.startswith("CRASH") or uex in ("ABORT", "FAIL:?", "OK+stderr") or urc == "timeout"
        if kind == "deep":
            dn = len(x) // 4
            run.count("deep:%d:%s" % (dn, uex))
            if bad_exit:
                if urc in (-11, 139) and dn >= 4000:
                    run.known_finding("C20-deep-recursion", "depth %d" % dn)
                else:
                    run.violation("oracle:memory-safety", dict(rp, what="unber died on a nested document (stack limit %d)" % DEEP_STACK, exit=uex,
                                                               input_hex="3080 x %d, 0000 x %d" % (dn, dn)))
            continue
        if bad_exit:
            run.violation("oracle:memory-safety", dict(rp, what="unber did not end with exit 0 or a diagnostic and exit 65", exit=uex, stderr=uerr[-600:]))
        if arc is not None:
            nasan += 1
            aex = unber_exit(arc, aerr)
            if aex != uex or not asan_same:
                run.violation("oracle:memory-safety", dict(rp, what="sanitizer build of unber reports an error or behaves differently",
                                                           exit=uex, asan_exit=aex, asan_stderr=aerr[-1200:]))
        # -------- faithfulness: model vs binaries
        m_un, m_xx = mres[i]
        m_exit, m_text = m_un.split(" ", 1)
        m_text = b"" if m_text == "-" else m_text.replace("|", "\n").encode()
        pend = False
        if m_exit != uex or m_text != uout:
            run.count("model_vs_code_diff")
            k = 0
            while k < min(len(m_text), len(uout)) and m_text[k] == uout[k]:
                k += 1
            run.violation("correspondence:unber", dict(rp, what="model of unber -p and the binary disagree", model_exit=m_exit, c_exit=uex,
                                                       first_diff_at=k, model_text=m_text[max(0, k - 80):k + 120].decode("latin1"),
                                                       c_text=uout[max(0, k - 80):k + 120].decode("latin1"), _pending=True))
            pend = True
        eex = enber_exit(erc, eerr)
        m_eex, m_ehex = m_xx.split(" ", 1)
        m_ebytes = b"" if m_ehex == "-" else bytes.fromhex(m_ehex)
        if not pend and (m_eex != eex or m_ebytes != eout):
            run.count("model_vs_code_diff")
            run.violation("correspondence:enber", dict(rp, what="model of enber and the binary disagree on unber's output", model=m_eex, c=eex,
                                                       model_out=m_ebytes.hex()[:400], c_out=eout.hex()[:400], c_stderr=eerr[-300:], _pending=True))
        # -------- property oracle (independent of the model)
        nodes, wf, info = walk(x)
        if i in sres:
            run.count("spec:checked")
            want_nodes = ",".join("%d:%d:%d:%d" % (o, (num << 2) | cls, hl, ln) for (o, cls, num, c, hl, ln) in nodes) or "-"
            if len(x) > 800:
                want_nodes = "-"
            if sres[i][0] != hexs(x) or sres[i][1] != want_nodes or not wf:
                run.violation("spec:BerTree", dict(rp, what="Coq spec (ser / nodes) disagrees with the reference encoder / BER walker of the check",
                                                   spec_ser=sres[i][0][:400], spec_nodes=sres[i][1][:400], walker_nodes=want_nodes[:400]), no_input=True)
        if not wf:
            run.count("oracle:not-wf")
            continue
        run.count("oracle:wf" + ("-nonminimal" if info["nonminimal"] else "") + ("" if kind.startswith("wf") or kind == "nonminimal" else "-by-mutation"))
        run.count("depth:%s" % (info["depth"] if info["depth"] < 12 else ("12-49" if info["depth"] < 50 else "50+")))
        if kind.startswith("wf") and info["nonminimal"]:
            run.violation("harness:generator", dict(rp, what="generator produced a non-minimal encoding in the minimal stream"), no_input=True)
        # documented limits of the tools (recorded findings): tag numbers >= 2^30, TL header > 32 octets
        if info["maxtag"] >= TAG_LIMIT:
            if uex.startswith("FAIL:TAGERR"):
                run.known_finding("C20-tag-limit", x.hex())
                continue
        if info["maxhdr"] > TL_BUF:
            if uex.startswith("FAIL:TOOLONG_BUF") or uex.startswith("FAIL:TOOLONG_LIMIT"):
                run.known_finding("C20-tl-buffer", x.hex())
                continue
        # fields
        pn = printed_nodes(uout)
        if uex != "OK" or pn != nodes:
            d = next((k for k in range(min(len(pn), len(nodes))) if pn[k] != nodes[k]), min(len(pn), len(nodes)))
            run.violation("oracle:fields", dict(rp, what="unber -p does not print the TLV structure of a well-formed input (offset, class, number, constructed, TL, V)",
                                                exit=uex, stderr=uerr[-300:], first_diff_index=d,
                                                printed=str(pn[d:d + 2]), expected=str(nodes[d:d + 2])))
            continue
        # round trip
        if eex == "OK" and eout == x:
            run.count("roundtrip:ok")
            continue
        if info["nonminimal"] and eex == "ERR:CANNOT_ENCODE_TL":
            run.count("roundtrip:known-nonminimal")
            run.known_finding("C20-nonminimal-length", x.hex())
            continue
        run.violation("oracle:roundtrip", dict(rp, what="enber(unber -p(x)) != x for a well-formed x", enber_exit=eex, enber_stderr=eerr[-300:],
                                               got_hex=eout.hex()[:400]))

    # 7. the other modes of unber (plain, -1, -i, -m, -s, stdin, several files, -t): memory safety / termination
    typed_docs = typed_directed(quick)
    for i in range(300 if quick else 3000):
        typed_docs.append(("typed-random", g_ttree(rng, 1 + (i % 5))))
    mstats = modes_stage(run, rng, cases, typed_docs, unber, asan, model, tmpdir, quick)

    for k in (0, nwf // 2, nwf + 3, len(cases) - 40):
        kind, x, _ = cases[k]
        if len(x) <= 64:
            run.sample({"kind": kind, "input": x.hex(), "unber_exit": unber_exit(results[k][1], results[k][3]),
                        "unber_stdout": results[k][2].decode("latin1")[:300], "enber": results[k][5].hex()})
    oracle_inputs = {v.get("input_hex") for v in run.violations if v["kind"].startswith("oracle:")}
    for v in run.violations:
        if v.pop("_pending", False):
            v["no_failing_input_found"] = not oracle_inputs
    tb = ["Coq 8.16.1 kernel + vm_compute (refuted witnesses and Examples only)",
          "axioms under Print Assumptions: " + (", ".join(sorted(axioms)) or "none (Closed under the global context)"),
          "extraction: ExtrOcamlBasic only; OCaml 4.13.1",
          "ocaml/drv_c20.ml: rendering of line records to the text of unber -p (print_TL/print_V formats, A= names) is glue, checked only by the byte-for-byte comparison with the binary's stdout",
          "checks/c20.py: generators, reference encoder, BER walker, stderr classification",
          "gcc; ASan/UBSan build of asn1-tools/unber; LP64"]
    return run.finish("proof", (nthm, ndis), trusted_base=tb,
                      checker_cmd="make -C /verif all && coqc -Q coq A1 coq/Props/Properties_C20.v",
                      extra_cov={"theorems": names, "asan_runs": nasan + mstats["sanitizer_processes"], "coqchk": chk, "modes": mstats,
                                 "rule": "directed: 4 classes x tag numbers {0..2,4,16,17,29..32,127..129,2^14-1,2^14,2^21-1,2^21,2^28-1,2^28,2^30-1} as primitive/definite/indefinite; content lengths {0,1,2,126..129,255..257,65535,65536} primitive and constructed; random trees with a spine of every depth 1..%d, fan-out <= 3, definite/indefinite chosen per node; chains; multi-TLV files; non-minimal variants (padded tag/length octets); malformed: truncation at every offset, every bit of every header octet flipped, byte edits, random and structured-random strings, TL-buffer/tag/length limits; one 60000-deep document; other modes of unber (plain, -m, -1, -i 0..15, -s, stdin, two files, -t, refused command lines): primitives of every universal tag number 0..32 (+127, 2^30-1, other classes) with per-type contents (OID: all-single-octet arcs of every length 1..20, first-subidentifier splits, multi-octet subidentifiers up to 2^70, 0x80 lead octets, unterminated; INTEGER 0..10/16/17/128 octets; BOOLEAN; times; REAL; strings at lengths around 8/16/32/64/256 with printable/XML-special/control/0x1b/12.5%%-threshold/UTF-8/invalid UTF-8 contents; 128 KiB cut-off), nested, random typed trees, all documents of the -p stream; malformed: truncation at every offset and every bit of every octet of small typed documents, byte edits, universal headers with wrong lengths" % maxd,
                                 "traces_validated_against_impl": len(cases)},
                      assumptions=["models of libasn1_unber_tool.c (-p mode) and enber.c are hand-written at the line-record level; text layer (printf formats, attribute scanning, &#xNN; escapes, fgets line assembly) is tied by differential run only",
                                   "stack depth is not modelled (process_deeper recursion is unbounded: finding C20-deep-recursion)",
                                   "options other than -p (unber) and none (enber) are not modelled; unber's other modes are run for memory safety, termination, exit status and TLV fields only, their pretty-printed values are not checked (except the number of OID arcs against Leaf/Oid.v)",
                                   "C20_oid_arc_count*: the model of OBJECT_IDENTIFIER_get_arcs / RELATIVE_OID_get_arcs is Leaf/Oid.v (tie: C17 check, and c20_oid_arcs here); malloc is not modelled"])


if __name__ == "__main__":
    sys.exit(main(sys.argv[1] if len(sys.argv) > 1 else "quick"))
