"""C17 — OBJECT IDENTIFIER arcs and GeneralizedTime/UTCTime helpers (leaf).
Theorems: coq/Props/Properties_C17.v.  Tie: harness/leafdrv (C, built from
VERIF_REPO/skeletons with ASan+UBSan) vs ocaml/modeldrv (extracted model) on the
same command lines; the property oracle (Python big integers / datetime-free
arithmetic) is evaluated on the C outputs, independently of the model."""
import sys, os, re
sys.path.insert(0, os.path.join(os.path.dirname(os.path.abspath(__file__)), "..", "lib"))
from vlib import *

U32 = 2**32
ARC_EDGE = [0, 1, 39, 40, 79, 80, 127, 128, 2**14 - 1, 2**14, 2**21 - 1, 2**21, 2**21 + 1,
            2**28 - 1, 2**28, 2**28 + 1, U32 - 81, U32 - 80, U32 - 1]
ZONES = ["UTC", "America/New_York", "Asia/Kolkata", "Australia/Lord_Howe", "Pacific/Chatham",
         "Europe/London", "Asia/Kathmandu", "America/St_Johns"]


# ---------------------------------------------------------------- OID side
def b128(v):
    """X.690 8.19.2 subidentifier of v (reference encoder of the oracle)"""
    out = [v & 0x7f]
    v >>= 7
    while v:
        out.append(0x80 | (v & 0x7f))
        v >>= 7
    return bytes(reversed(out))


def valid_first_pair(a):
    return len(a) >= 2 and ((a[0] <= 1 and a[1] < 40) or (a[0] == 2 and a[1] <= U32 - 1 - 80))


def oid_ref(a):
    return b128(40 * a[0] + a[1]) + b"".join(b128(x) for x in a[2:])


def rnd_arc(rng):
    k = rng.below(4)
    if k == 0:
        return rng.choice(ARC_EDGE)
    if k == 1:
        return rng.below(2 ** rng.range(1, 32))
    if k == 2:
        return min(U32 - 1, max(0, 2 ** (7 * rng.range(1, 4)) + rng.range(-2, 2)))
    return rng.below(U32)


def gen_arc_vectors(rng, tier):
    out = []
    firsts = [(a0, a1) for a0 in (0, 1, 2) for a1 in (0, 1, 38, 39)] + \
             [(2, v) for v in (40, 47, 48, 127, 128, 2**14, U32 - 82, U32 - 81)]
    bad_firsts = [(0, 40), (1, 40), (1, U32 - 1), (2, U32 - 80), (2, U32 - 1), (3, 0), (3, 39), (U32 - 1, 0), (40, 1)]
    for f in firsts + bad_firsts:
        out.append(list(f))
        for e in ARC_EDGE:
            out.append(list(f) + [e])
    reps = 40 if tier == "quick" else 1500
    for n in range(2, 13):
        for _ in range(reps):
            f = rng.choice(firsts) if not rng.chance(1, 8) else rng.choice(bad_firsts)
            out.append(list(f) + [rnd_arc(rng) for _ in range(n - 2)])
        out.append(list(rng.choice(firsts)) + [U32 - 1] * (n - 2))
        out.append(list(rng.choice(firsts)) + [0] * (n - 2))
    out += [[], [0], [1], [2], [U32 - 1]]
    return out


def gen_oid_octets(rng, tier):
    """arbitrary contents octets: non-minimal (0x80 lead), 5/6-octet and longer
    subidentifiers (overflowing 32 bits), truncated subidentifiers, empty"""
    out = [b"", b"\x80", b"\x00", b"\x7f", b"\x27", b"\x28", b"\x4f", b"\x50", b"\x80\x00", b"\x80\x80\x00",
           b"\x8f\xff\xff\xff\x7f", b"\x90\x80\x80\x80\x00", b"\x90\x80\x80\x80\x4f", b"\x90\x80\x80\x80\x50",
           b"\xff\xff\xff\xff\x7f", b"\x81\x80\x80\x80\x80\x00", b"\x80\x8f\xff\xff\xff\x7f",
           b"\xff\xff\xff\xff\xff\x7f", b"\x2a\x80", b"\x2a\xff", b"\x2a\x86\x48\x86\xf7\x0d"]
    for a in range(256):
        out.append(bytes([a]))
        out.append(bytes([0x2a, a]))
    n = 600 if tier == "quick" else 30000
    for _ in range(n):
        parts = []
        for _ in range(rng.range(1, 6)):
            k = rng.range(1, 7)
            body = bytes((0x80 | rng.below(128)) if not rng.chance(1, 6) else 0x80 for _ in range(k - 1))
            parts.append(body + bytes([rng.below(128)]))
        b = b"".join(parts)
        if rng.chance(1, 8):
            b = b[:-1]   # may end inside a subidentifier
        if rng.chance(1, 10):
            b = b + bytes([0x80 | rng.below(128)])
        out.append(b)
    return out


def gen_texts(rng, tier, vectors):
    """dotted texts: well formed (with the white-space variants) + one text per
    state transition of the four-state machine + too-large numbers"""
    good = []
    ws = [" ", "\t", "\n", "\r", "  ", " \t\r\n"]
    for a in vectors:
        if not a:
            continue
        s = ".".join(str(x) for x in a)
        good.append((s, a))
        if rng.chance(1, 3):
            good.append((rng.choice(ws) + s, a))
            good.append((s + rng.choice(ws), a))
            good.append((rng.choice(ws) + s + rng.choice(ws), a))
        if rng.chance(1, 6):
            z = ".".join("0" * rng.range(1, 3) + str(x) for x in a)
            good.append((z, a))
    bad = ["", " ", "\t\n", ".", " .", "1.", "1..2", "1. 2", "1 .2", "1 2", "1.2.", "1.2. ", ".1.2", "1.2 .", "1.2 3",
           "a", "1a", "1.a", "1.2a", " a", "1 a", "1.-2", "-1.2", "+1.2", "1.+2", "1,2", "1.2\x00", "\x001.2", "1.2\xff",
           "4294967295", "4294967296", "1.4294967295", "1.4294967296", "1.2.4294967296.3", "18446744073709551615",
           "18446744073709551616", "1.18446744073709551616", "1.99999999999999999999999", "00000000000000000000000001.2",
           "1.2.3 \t\r\n", " \t\r\n1.2.3", "1.2\n.3", "1.2.\n3", "0", "00", "0.0", "2.4294967215", "2.4294967216", "3.1"]
    n = 300 if tier == "quick" else 20000
    alphabet = "0123456789. \t.1.2a-"
    for _ in range(n):
        bad.append("".join(rng.choice(alphabet) for _ in range(rng.range(1, 14))))
    return good, [b.encode("latin1") for b in bad]


def ws_strip(s):
    return s.strip(" \t\r\n")


# ---------------------------------------------------------------- main
def main(tier):
    run = Run("C17", tier)
    rng = Rng(run.seed)
    ok, out = coq_build()
    nthm, ndis, axioms, names, plog = obligations("C17") if ok else (0, 0, set(), [], out)
    gate = grep_gate()
    if not ok or ndis != nthm or gate:
        run.violation("proof:Properties_C17", {"what": "Coq development does not build or an obligation is open",
                                               "log_tail": (out if not ok else plog)[-2000:], "grep_gate": gate}, no_input=True)
    model = model_build()
    try:
        cdrv = build_leafdrv()
    except BuildError as e:
        run.violation("build:leafdrv", {"what": str(e)[-2000:]}, no_input=True)
        return run.finish("proof", (nthm, ndis))

    cases = []   # (line, kind, payload)
    vectors = gen_arc_vectors(rng, tier)
    for a in vectors:
        cases.append((" ".join(["oid_set"] + [str(x) for x in a]), "oid_set", a))
        cases.append((" ".join(["reloid_set"] + [str(x) for x in a]), "reloid_set", a))
    singles = sorted(set(ARC_EDGE + [2 ** k + d for k in range(0, 32) for d in (-1, 0, 1) if 0 <= 2 ** k + d < U32] +
                         [rng.below(U32) for _ in range(200 if tier == "quick" else 5000)]))
    for v in singles:
        for ln in (0, 1, 2, 4, 5, 6):
            cases.append(("oid_set1 %d %d" % (ln, v), "oid_set1", (ln, v)))
    for b in gen_oid_octets(rng, tier):
        cases.append(("oid_get " + hexs(b), "oid_get", b))
        cases.append(("reloid_get " + hexs(b), "reloid_get", b))
        cases.append(("oid_get1 " + hexs(b), "oid_get1", b))
    good_txt, bad_txt = gen_texts(rng, tier, vectors if tier == "thorough" else vectors[::3])
    for s, a in good_txt:
        cases.append(("oid_parse " + hexs(s.encode("latin1")), "oid_parse_good", (s, a)))
    for b in bad_txt:
        cases.append(("oid_parse " + hexs(b), "oid_parse_any", b))

    time_cases(run, rng, tier, cases, cdrv)

    lines = [c[0] for c in cases]
    mo, co = correspond(run, "leaf-C17", lines, model, cdrv)

    # ---- faithfulness: model vs code
    for (line, kind, pl), m, c in zip(cases, mo, co):
        run.case(line, nontrivial=True)
        run.count(kind)
        if m != c:
            run.count("model_vs_code_diff")
            run.violation("correspondence:%s(%s)" % ("Oid" if kind.startswith(("oid", "reloid")) else "GTime", line.split()[0]),
                          {"what": "model and C disagree", "command_line": line, "model": m, "c": c, "_pending": True})
    for i in (0, len(lines) // 3, 2 * len(lines) // 3, len(lines) - 1):
        run.sample({"cmd": lines[i], "model": mo[i], "c": co[i]})

    # ---- property oracle on the C outputs, OID
    q2 = []
    for (line, kind, a), c in zip(cases, co):
        if kind == "oid_set":
            if len(a) < 2:
                exp = "EINVAL"
            elif not valid_first_pair(a):
                exp = "ERANGE"
            else:
                exp = hexs(oid_ref(a))
            run.count("oid_set_" + (exp if exp in ("EINVAL", "ERANGE") else "ok"))
            if c != exp:
                run.violation("oracle:oid_set", {"what": "stored octets are not the X.690 8.19 base-128 form of the arc vector (or the first-pair test does not accept exactly the valid pairs)",
                                                 "command_line": line, "expected": exp, "c": c})
            elif exp not in ("EINVAL", "ERANGE"):
                q2.append(("oid_get " + c, "OK " + " ".join(str(x) for x in a), line))
        elif kind == "reloid_set":
            exp = hexs(b"".join(b128(x) for x in a))
            if c != exp:
                run.violation("oracle:reloid_set", {"what": "stored octets are not the concatenation of base-128 subidentifiers",
                                                    "command_line": line, "expected": exp, "c": c})
            else:
                q2.append(("reloid_get " + c, ("OK " + " ".join(str(x) for x in a)).strip(), line))
        elif kind == "oid_set1":
            ln, v = a
            ref = b128(v)
            exp = hexs(ref) if len(ref) <= ln else "FAIL"
            if c != exp:
                run.violation("oracle:oid_set1", {"what": "single arc not stored in minimal base-128 form", "command_line": line,
                                                  "expected": exp, "c": c})
            elif exp != "FAIL":
                q2.append(("oid_get1 " + c + "55", "OK %d %d" % (v, len(ref)), line))
        elif kind == "oid_parse_good":
            s, arcs = a
            exp = "OK %d %s @%d" % (len(arcs), " ".join(str(x) for x in arcs), len(s))
            if c != exp:
                run.violation("oracle:oid_parse", {"what": "parsing the dotted text of an arc vector does not return it",
                                                   "command_line": line, "text": s, "expected": exp, "c": c})
    c_lines = [q[0] for q in q2]
    _, bo, _ = run_lines(cdrv, c_lines, env=SAN_ENV)
    bo += ["CRASH"] * (len(c_lines) - len(bo))
    for (cl, exp, line), back in zip(q2, bo):
        run.count("oid_back")
        if back != exp:
            run.violation("oracle:oid_roundtrip", {"what": "reading back the stored arcs does not return the vector that was set",
                                                   "command_line": line, "then": cl, "expected": exp, "c": back})

    time_oracle(run, cases, co, cdrv)

    oracle_lines = {v.get("command_line") for v in run.violations if v["kind"].startswith("oracle:")}
    for v in run.violations:
        if v.pop("_pending", False):
            v["no_failing_input_found"] = v["command_line"] not in oracle_lines
    tb = ["Coq 8.16.1 kernel + vm_compute (Examples, refuted witnesses, one finite sweep of the 400-year cycle if stated)",
          "axioms under Print Assumptions: " + (", ".join(sorted(axioms)) or "none (Closed under the global context)"),
          "extraction: ExtrOcamlBasic only; OCaml 4.13.1; zarith for decimal I/O in the driver glue",
          "harness/leafdrv.c + leafdrv_c17.inc, ocaml/drv_c17.ml, checks/c17.py (generators; oracle in Python big integers)",
          "gcc + ASan/UBSan build of skeletons/*.c; glibc localtime_r/timegm/mktime and /usr/share/zoneinfo (modelled: offset handed to the model)",
          "LP64 data model, 64-bit time_t"]
    return run.finish("proof", (nthm, ndis), trusted_base=tb,
                      checker_cmd="make -C /verif all && coqc -Q coq A1 coq/Props/Properties_C17.v",
                      extra_cov={"theorems": names, "zones": run.notes,
                                 "rule": "arc vectors of length 0..12 over the boundary set x random, every valid/invalid first-pair class; octet strings with 0x80 leads, 5..7-octet subidentifiers, truncations; dotted texts per state transition; times at year boundaries, leap days, -1, +-2^31, random, under each zone; a case is one command line",
                                 "traces_validated_against_impl": len(lines)},
                      assumptions=["models of OBJECT_IDENTIFIER.c / RELATIVE-OID.c / GeneralizedTime.c / UTCTime.c are hand-written; tied by differential run only on the generated cases",
                                   "NULL arguments, allocation failure, arc_slots smaller than the arc count are not modelled",
                                   "libc time functions and the TZ database are modelled by proleptic Gregorian arithmetic plus the offset the libc reports"])


def time_cases(run, rng, tier, cases, cdrv):
    pass


def time_oracle(run, cases, co, cdrv):
    pass


if __name__ == "__main__":
    sys.exit(main(sys.argv[1] if len(sys.argv) > 1 else "quick"))
