"""C17 — OBJECT IDENTIFIER arcs and GeneralizedTime/UTCTime helpers (leaf).
Theorems: coq/Props/Properties_C17.v.  Tie: harness/leafdrv (C, built from
VERIF_REPO/skeletons with ASan+UBSan) vs ocaml/modeldrv (extracted model) on the
same command lines; the property oracle (Python big integers / datetime-free
arithmetic) is evaluated on the C outputs, independently of the model."""
import sys, os, re
sys.path.insert(0, os.path.join(os.path.dirname(os.path.abspath(__file__)), "..", "lib"))
from vlib import *

U32 = 2**32
ARC_EDGE = [0, 1, 39, 40, 79, 80, 127, 128, 2**14 - 1, 2**14, 2**21 - 1, 2**21, 2**21 + 1,
            2**28 - 1, 2**28, 2**28 + 1, U32 - 81, U32 - 80, U32 - 1]
ZONES = ["UTC", "America/New_York", "Asia/Kolkata", "Australia/Lord_Howe", "Pacific/Chatham",
         "Europe/London", "Asia/Kathmandu", "America/St_Johns"]


# ---------------------------------------------------------------- OID side
def b128(v):
    """X.690 8.19.2 subidentifier of v (reference encoder of the oracle)"""
    out = [v & 0x7f]
    v >>= 7
    while v:
        out.append(0x80 | (v & 0x7f))
        v >>= 7
    return bytes(reversed(out))


def valid_first_pair(a):
    return len(a) >= 2 and ((a[0] <= 1 and a[1] < 40) or (a[0] == 2 and a[1] <= U32 - 1 - 80))


def oid_ref(a):
    return b128(40 * a[0] + a[1]) + b"".join(b128(x) for x in a[2:])


def rnd_arc(rng):
    k = rng.below(4)
    if k == 0:
        return rng.choice(ARC_EDGE)
    if k == 1:
        return rng.below(2 ** rng.range(1, 32))
    if k == 2:
        return min(U32 - 1, max(0, 2 ** (7 * rng.range(1, 4)) + rng.range(-2, 2)))
    return rng.below(U32)


def gen_arc_vectors(rng, tier):
    out = []
    firsts = [(a0, a1) for a0 in (0, 1, 2) for a1 in (0, 1, 38, 39)] + \
             [(2, v) for v in (40, 47, 48, 127, 128, 2**14, U32 - 82, U32 - 81)]
    bad_firsts = [(0, 40), (1, 40), (1, U32 - 1), (2, U32 - 80), (2, U32 - 1), (3, 0), (3, 39), (U32 - 1, 0), (40, 1)]
    for f in firsts + bad_firsts:
        out.append(list(f))
        for e in ARC_EDGE:
            out.append(list(f) + [e])
    reps = 40 if tier == "quick" else 1500
    for n in range(2, 13):
        for _ in range(reps):
            f = rng.choice(firsts) if not rng.chance(1, 8) else rng.choice(bad_firsts)
            out.append(list(f) + [rnd_arc(rng) for _ in range(n - 2)])
        out.append(list(rng.choice(firsts)) + [U32 - 1] * (n - 2))
        out.append(list(rng.choice(firsts)) + [0] * (n - 2))
    out += [[], [0], [1], [2], [U32 - 1]]
    return out


def gen_oid_octets(rng, tier):
    """arbitrary contents octets: non-minimal (0x80 lead), 5/6-octet and longer
    subidentifiers (overflowing 32 bits), truncated subidentifiers, empty"""
    out = [b"", b"\x80", b"\x00", b"\x7f", b"\x27", b"\x28", b"\x4f", b"\x50", b"\x80\x00", b"\x80\x80\x00",
           b"\x8f\xff\xff\xff\x7f", b"\x90\x80\x80\x80\x00", b"\x90\x80\x80\x80\x4f", b"\x90\x80\x80\x80\x50",
           b"\xff\xff\xff\xff\x7f", b"\x81\x80\x80\x80\x80\x00", b"\x80\x8f\xff\xff\xff\x7f",
           b"\xff\xff\xff\xff\xff\x7f", b"\x2a\x80", b"\x2a\xff", b"\x2a\x86\x48\x86\xf7\x0d"]
    for a in range(256):
        out.append(bytes([a]))
        out.append(bytes([0x2a, a]))
    n = 600 if tier == "quick" else 30000
    for _ in range(n):
        parts = []
        for _ in range(rng.range(1, 6)):
            k = rng.range(1, 7)
            body = bytes((0x80 | rng.below(128)) if not rng.chance(1, 6) else 0x80 for _ in range(k - 1))
            parts.append(body + bytes([rng.below(128)]))
        b = b"".join(parts)
        if rng.chance(1, 8):
            b = b[:-1]   # may end inside a subidentifier
        if rng.chance(1, 10):
            b = b + bytes([0x80 | rng.below(128)])
        out.append(b)
    return out


def gen_texts(rng, tier, vectors):
    """dotted texts: well formed (with the white-space variants) + one text per
    state transition of the four-state machine + too-large numbers"""
    good = []
    ws = [" ", "\t", "\n", "\r", "  ", " \t\r\n"]
    for a in vectors:
        if not a:
            continue
        s = ".".join(str(x) for x in a)
        good.append((s, a))
        if rng.chance(1, 3):
            good.append((rng.choice(ws) + s, a))
            good.append((s + rng.choice(ws), a))
            good.append((rng.choice(ws) + s + rng.choice(ws), a))
        if rng.chance(1, 6):
            z = ".".join("0" * rng.range(1, 3) + str(x) for x in a)
            good.append((z, a))
    bad = ["", " ", "\t\n", ".", " .", "1.", "1..2", "1. 2", "1 .2", "1 2", "1.2.", "1.2. ", ".1.2", "1.2 .", "1.2 3",
           "a", "1a", "1.a", "1.2a", " a", "1 a", "1.-2", "-1.2", "+1.2", "1.+2", "1,2", "1.2\x00", "\x001.2", "1.2\xff",
           "4294967295", "4294967296", "1.4294967295", "1.4294967296", "1.2.4294967296.3", "18446744073709551615",
           "18446744073709551616", "1.18446744073709551616", "1.99999999999999999999999", "00000000000000000000000001.2",
           "1.2.3 \t\r\n", " \t\r\n1.2.3", "1.2\n.3", "1.2.\n3", "0", "00", "0.0", "2.4294967215", "2.4294967216", "3.1"]
    n = 300 if tier == "quick" else 20000
    alphabet = "0123456789. \t.1.2a-"
    for _ in range(n):
        bad.append("".join(rng.choice(alphabet) for _ in range(rng.range(1, 14))))
    return good, [b.encode("latin1") for b in bad]


def ws_strip(s):
    return s.strip(" \t\r\n")


# ---------------------------------------------------------------- caller-supplied capacity
# Region closed in round 2: every helper that takes a caller array / buffer and a
# capacity was only ever called with "large enough".  Here each value is swept over
# every capacity 0..n+2 (and NULL with 0 slots); oracle on the C output:
#   return value = needed size, whatever the capacity;
#   stored prefix = first min(capacity, n) items; every other cell untouched;
#   nothing written beyond the capacity (exact-size heap arrays under ASan).
def slot_sweep(n):
    return ["N"] + list(range(0, n + 3))


def cells_line(a, slots, end=None):
    k = 0 if slots == "N" else slots
    cells = [str(x) for x in a[:k]] + ["_"] * max(0, k - len(a))
    return "OK %d" % len(a) + "".join(" " + c for c in cells) + ("" if end is None else " @%d" % end)


def long_vectors(rng):
    """vectors around the fixed arrays of the XER body decoders (10 resp. 6 slots)
    and well beyond"""
    out = []
    for n in (5, 6, 7, 8, 9, 10, 11, 12, 13, 20, 33):
        out.append([1, 2] + list(range(3, n + 1)))
        out.append([2, U32 - 81] + [rng.choice(ARC_EDGE) for _ in range(n - 2)])
        out.append([rng.below(2), rng.below(40)] + [rnd_arc(rng) for _ in range(n - 2)])
    return out


def capacity_cases(rng, tier, vectors, octs, good_txt, bad_txt):
    quick = tier == "quick"
    cases = []
    vecs = vectors + long_vectors(rng)
    seen = set()
    for a in vecs:
        if tuple(a) in seen:
            continue
        seen.add(tuple(a))
        n = len(a)
        if valid_first_pair(a):
            h = hexs(oid_ref(a))
            for sl in slot_sweep(n):
                cases.append(("oid_get_n %s %s" % (sl, h), "cap_oid_get", (a, sl)))
            cases.append(("oid_idiom " + h, "idiom", a))
        if not quick or rng.chance(1, 2) or n > 8:
            h = hexs(b"".join(b128(x) for x in a))
            for sl in slot_sweep(n):
                cases.append(("reloid_get_n %s %s" % (sl, h), "cap_reloid_get", (a, sl)))
            cases.append(("reloid_idiom " + h, "idiom", a))
    # arbitrary contents octets: metamorphic against the large-capacity answer of the C itself
    for i, b in enumerate(octs):
        if len(b) > 2 and quick and i % 4:
            continue
        for sl in slot_sweep(min(len(b), 7)) if len(b) > 1 else ["N", 0, 1, 2, 3]:
            cases.append(("oid_get_n %s %s" % (sl, hexs(b)), "cap_oid_any", (b, sl)))
            cases.append(("reloid_get_n %s %s" % (sl, hexs(b)), "cap_reloid_any", (b, sl)))
    # texts
    for i, (txt, a) in enumerate(good_txt):
        if quick and i % 2 and len(a) < 9:
            continue
        h = hexs(txt.encode("latin1"))
        for sl in slot_sweep(len(a)):
            cases.append(("oid_parse_n %s %s" % (sl, h), "cap_parse", (txt, a, sl)))
        cases.append(("parse_idiom " + h, "idiom_parse", (txt, a)))
        if i % 3 == 0 and "\x00" not in txt:
            for sl in slot_sweep(len(a)):      # the same, NUL terminated with oid_txt_length = -1
                cases.append(("oid_parse_z %s %s" % (sl, h), "cap_parse", (txt, a, sl)))
    for a in long_vectors(rng):
        txt = ".".join(str(x) for x in a)
        for sl in slot_sweep(len(a)):
            cases.append(("oid_parse_n %s %s" % (sl, hexs(txt.encode())), "cap_parse", (txt, a, sl)))
            cases.append(("oid_parse_z %s %s" % (sl, hexs(txt.encode())), "cap_parse", (txt, a, sl)))
    for b in bad_txt:
        for sl in slot_sweep(min(b.count(b"."), 4)):
            cases.append(("oid_parse_n %s %s" % (sl, hexs(b)), "cap_parse_any", (b, sl)))
        if b"\x00" in b:                        # strlen() stops at the NUL: reference = the text up to it
            z = b[:b.index(b"\x00")]
            for sl in ("N", 0, 1, 2):
                cases.append(("oid_parse_z %s %s" % (sl, hexs(b)), "cap_parse_any", (z, sl)))
    # one subidentifier followed by two octets, handed over with every buffer length
    vals = sorted(set(ARC_EDGE + [2 ** (7 * k) + d for k in range(1, 5) for d in (-1, 0, 1)] + [rng.below(U32) for _ in range(40 if quick else 2000)]))
    for v in vals:
        e = b128(v)
        for rest in (b"\x05\x06", b"\x85\x86", bytes([rng.below(256), rng.below(256)])):
            for k in range(0, len(e) + 3):
                cases.append(("oid_get1 " + hexs((e + rest)[:k]), "buf_get1", (v, len(e), k)))
    firsts = [(a0, a1) for a0 in (0, 1) for a1 in (0, 1, 38, 39)] + \
             [(2, x) for x in (0, 1, 39, 40, 47, 48, 127, 128, 2**14 - 81, 2**14 - 80, 2**21 - 80, 2**28 - 81, 2**28 - 80, U32 - 82, U32 - 81)] + \
             [(2, rng.below(U32 - 80)) for _ in range(10 if quick else 500)]
    for (a0, a1) in firsts:
        e = b128(40 * a0 + a1)
        for rest in (b"\x05\x06", b"\x85\x86"):
            for k in range(0, len(e) + 3):
                cases.append(("oid_first " + hexs((e + rest)[:k]), "buf_first", (a0, a1, len(e), k)))
    for i, b in enumerate(octs):
        if not quick or i % 3 == 0:
            cases.append(("oid_first " + hexs(b), "buf_first_any", b))
    # the XER body decoders: parse_arcs into 10 / 6 fixed slots, then into the count it returned
    xv = long_vectors(rng) + [a for a in vectors if a][::(7 if quick else 1)]
    ws = ["", " ", "\r\n", "\t"]
    for a in xv:
        txt = rng.choice(ws) + ".".join(str(x) for x in a) + rng.choice(ws)
        cases.append(("oid_xer " + hexs(txt.encode()), "xer_oid", a))
        cases.append(("reloid_xer " + hexs(txt.encode()), "xer_reloid", a))
    # the XER body writers return the number of octets handed to the callback (scratch[32] per arc)
    for a in xv:
        if valid_first_pair(a):
            cases.append(("oid_dump " + hexs(oid_ref(a)), "dump", a))
        cases.append(("reloid_dump " + hexs(b"".join(b128(x) for x in a)), "dump", a))
    for i, b in enumerate(octs):
        if not quick or i % 5 == 0:
            cases.append(("oid_dump " + hexs(b), "dump_any", b))
            cases.append(("reloid_dump " + hexs(b), "dump_any", b))
    # set_arcs on an object that already owns a buffer (smaller, equal, larger than the result; none)
    for a in xv + [[0, 40], [3, 1], [2, U32 - 80], [1], []]:
        n = len(oid_ref(a)) if valid_first_pair(a) else 3
        for pv in ["N", 0, 1, max(0, n - 1), n, n + 1, 5 * len(a) + 1]:
            cases.append((" ".join(["oid_set_re", str(pv)] + [str(x) for x in a]), "set_re", (a, False)))
        cases.append((" ".join(["reloid_set_re", str(rng.choice(["N", 0, 1, n, 64]))] + [str(x) for x in a]), "set_re", (a, True)))
    return cases


def split_ref(v):
    return (2, v - 80) if v >= 80 else (1, v - 40) if v >= 40 else (0, v)


def capacity_oracle(run, cases, co, cdrv):
    # the C's own answers with a capacity larger than any count (reference of the metamorphic kinds)
    refq = {}
    for (line, kind, pl) in cases:
        if kind == "cap_oid_any":
            refq["oid_get " + hexs(pl[0])] = None
        elif kind == "cap_reloid_any":
            refq["reloid_get " + hexs(pl[0])] = None
        elif kind == "cap_parse_any":
            refq["oid_parse " + hexs(pl[0])] = None
        elif kind == "buf_first_any":
            refq["oid_get1 " + hexs(pl)] = None
    rl = list(refq)
    _, ro, _ = run_lines(cdrv, rl, env=SAN_ENV)
    ro += ["CRASH"] * (len(rl) - len(ro))
    refq = dict(zip(rl, ro))
    what_cap = "the helper's return value / stored cells depend on the capacity of the caller's array: expected return value = number of arcs, first min(capacity, n) cells = the first arcs, every other cell untouched"
    for (line, kind, pl), c in zip(cases, co):
        exp = None
        if c == "SKIPPED":
            continue
        if kind in ("cap_oid_get", "cap_reloid_get"):
            a, sl = pl
            exp = cells_line(a, sl)
            run.count("cap_slots_" + ("NULL" if sl == "N" else "lt_n" if sl < len(a) else "eq_n" if sl == len(a) else "gt_n"))
        elif kind in ("cap_oid_any", "cap_reloid_any"):
            b, sl = pl
            full = refq[("oid_get " if kind == "cap_oid_any" else "reloid_get ") + hexs(b)]
            if full == "FAIL":
                exp = "FAIL"
            elif full.startswith("OK"):
                exp = cells_line([int(x) for x in full.split()[1:]], sl)
            else:
                continue
            run.count("cap_any_" + ("fail" if exp == "FAIL" else "ok"))
        elif kind == "cap_parse":
            txt, a, sl = pl
            exp = cells_line(a, sl, len(txt))
        elif kind == "cap_parse_any":
            b, sl = pl
            full = refq["oid_parse " + hexs(b)]
            m = re.match(r"^OK (\d+)((?: \d+)*) @(-?\d+)$", full)
            if m:
                exp = cells_line([int(x) for x in m.group(2).split()], sl, int(m.group(3)))
            elif re.match(r"^E(INVAL|RANGE) @-?\d+$", full):
                exp = full
            else:
                continue
            run.count("cap_parse_any_" + ("ok" if m else "err"))
        elif kind == "idiom":
            exp = ("OK %d %d " % (len(pl), len(pl)) + " ".join(str(x) for x in pl)).strip()
        elif kind == "idiom_parse":
            txt, a = pl
            exp = ("OK %d %d " % (len(a), len(a)) + " ".join(str(x) for x in a)).strip()
        elif kind == "buf_get1":
            v, n, k = pl
            exp = "NONE" if k == 0 else "EINVAL" if k < n else "OK %d %d" % (v, n)
        elif kind == "buf_first":
            a0, a1, n, k = pl
            exp = "NONE" if k == 0 else "EINVAL" if k < n else "OK %d %d %d" % (a0, a1, n)
        elif kind == "buf_first_any":
            g1 = refq["oid_get1 " + hexs(pl)]
            m = re.match(r"^OK (\d+) (\d+)$", g1)
            exp = "OK %d %d %s" % (split_ref(int(m.group(1))) + (m.group(2),)) if m else g1
        elif kind == "dump":
            t = ".".join(str(x) for x in pl)
            exp = "OK %d %s" % (len(t), hexs(t.encode()))
        elif kind == "dump_any":
            m = re.match(r"^OK (\d+) (\S+)$", c)
            if m is None or 2 * int(m.group(1)) == (0 if m.group(2) == "-" else len(m.group(2))):
                continue                      # failure, or returned size = octets delivered
            exp = "OK <number of octets delivered> <text>"
        elif kind == "set_re":
            a, rel = pl
            if rel:
                exp = hexs(b"".join(b128(x) for x in a))
            else:
                exp = "EINVAL" if len(a) < 2 else hexs(oid_ref(a)) if valid_first_pair(a) else "ERANGE"
        elif kind == "xer_oid":
            exp = ("OK " + " ".join(str(x) for x in pl)) if valid_first_pair(pl) else "FAIL"
            run.count("xer_oid_arcs_" + ("le10" if len(pl) <= 10 else "gt10"))
        elif kind == "xer_reloid":
            exp = ("OK " + " ".join(str(x) for x in pl)) if pl else "FAIL"
            run.count("xer_reloid_arcs_" + ("le6" if len(pl) <= 6 else "gt6"))
        else:
            continue
        if c == exp:
            continue
        if kind.startswith("cap_") or kind.startswith("idiom"):
            run.violation("oracle:capacity(%s)" % line.split()[0], {"what": what_cap, "command_line": line, "expected": exp, "c": c})
        elif kind.startswith("dump"):
            run.violation("oracle:size_returned(%s)" % line.split()[0],
                          {"what": "the XER body writer must deliver the dotted decimal text of the arcs and return the number of octets it delivered",
                           "command_line": line, "expected": exp, "c": c})
        elif kind == "set_re":
            run.violation("oracle:set_arcs_reuse", {"what": "set_arcs on an object that already owns a buffer: same octets as on a fresh object, NUL after them; on failure the object is left as it was",
                                                    "command_line": line, "expected": exp, "c": c})
        elif kind.startswith("buf_"):
            run.violation("oracle:buffer_length(%s)" % line.split()[0],
                          {"what": "a subidentifier handed over with a buffer length k must be: nothing (k = 0), EINVAL (k inside it), its value and length (k >= its length)",
                           "command_line": line, "expected": exp, "c": c})
        else:
            run.violation("oracle:oid_xer", {"what": "XER body of an arc vector (more arcs than the decoder's fixed array included) does not decode to that vector",
                                             "command_line": line, "expected": exp, "c": c})


def correspond_resume(run, name, lines, model, cdrv, max_restarts=6):
    """like vlib.correspond, but a sanitizer report does not hide the other lines: the
    driver's stdout is block buffered and a sanitizer exit loses it, so the offending
    line is found by bisection, recorded, and the run resumes behind it.  A
    LeakSanitizer report (it comes at exit and also loses the output) is recorded with
    the first leaking line, then the lines are run again with leak detection off."""
    rc_m, mo, me = run_lines(model, lines, timeout=900)
    if rc_m != 0 or len(mo) != len(lines):
        raise RuntimeError("model driver failed on %s: rc=%s lines=%d/%d %s" % (name, rc_m, len(mo), len(lines), me))
    env = SAN_ENV
    co, start, restarts = [], 0, 0
    while start < len(lines):
        rc, o, e = run_lines(cdrv, lines[start:], timeout=900, env=env)
        if rc == 0 and len(o) == len(lines) - start:
            co += o
            break
        lo, hi = start, len(lines) - 1          # smallest index lo such that lines[start:lo+1] dies
        ok_out = []
        while lo < hi:
            mid = (lo + hi) // 2
            r2, o2, e2 = run_lines(cdrv, lines[start:mid + 1], timeout=900, env=env)
            if r2 == 0 and len(o2) == mid + 1 - start:
                lo, ok_out = mid + 1, o2
            else:
                hi, e = mid, e2
        leak = "LeakSanitizer" in e and "AddressSanitizer:" not in e.replace("SUMMARY: AddressSanitizer", "")
        run.violation(("leak:" if leak else "crash:") + name,
                      {"what": "memory leaked by the call (LeakSanitizer)" if leak else "C driver died — sanitizer report or signal",
                       "command_line": lines[lo], "stderr_tail": e[-1500:],
                       "replay_cmd": "echo '%s' | <leafdrv built from the repository>" % lines[lo]})
        if leak:
            env = dict(SAN_ENV, ASAN_OPTIONS=SAN_ENV["ASAN_OPTIONS"].replace("detect_leaks=1", "detect_leaks=0"))
            continue
        co += ok_out
        co.append("CRASH")
        start = lo + 1
        restarts += 1
        if restarts >= max_restarts:
            co += ["SKIPPED"] * (len(lines) - len(co))      # enough crash reports; the rest is not evaluated
            break
    return mo, co


def model_file(kind):
    if kind.startswith(("cap_", "buf_", "xer_", "dump", "set_re")):
        return "OidSlots"
    if kind.startswith(("oid", "reloid")):
        return "Oid"
    return "CivilTime" if kind.startswith("libc") else "GTime"


# ---------------------------------------------------------------- main
def main(tier):
    run = Run("C17", tier)
    rng = Rng(run.seed)
    ok, out = coq_build()
    nthm, ndis, axioms, names, plog = obligations("C17") if ok else (0, 0, set(), [], out)
    gate = grep_gate()
    if not ok or ndis != nthm or gate:
        run.violation("proof:Properties_C17", {"what": "Coq development does not build or an obligation is open",
                                               "log_tail": (out if not ok else plog)[-2000:], "grep_gate": gate}, no_input=True)
    model = model_build()
    try:
        cdrv = build_leafdrv()
    except BuildError as e:
        run.violation("build:leafdrv", {"what": str(e)[-2000:]}, no_input=True)
        return run.finish("proof", (nthm, ndis))

    cases = []   # (line, kind, payload)
    vectors = gen_arc_vectors(rng, tier)
    for a in vectors:
        cases.append((" ".join(["oid_set"] + [str(x) for x in a]), "oid_set", a))
        cases.append((" ".join(["reloid_set"] + [str(x) for x in a]), "reloid_set", a))
    singles = sorted(set(ARC_EDGE + [2 ** k + d for k in range(0, 32) for d in (-1, 0, 1) if 0 <= 2 ** k + d < U32] +
                         [rng.below(U32) for _ in range(200 if tier == "quick" else 5000)]))
    for v in singles:
        for ln in (0, 1, 2, 3, 4, 5, 6, 7):
            cases.append(("oid_set1 %d %d" % (ln, v), "oid_set1", (ln, v)))
    octs = gen_oid_octets(rng, tier)
    for b in octs:
        cases.append(("oid_get " + hexs(b), "oid_get", b))
        cases.append(("reloid_get " + hexs(b), "reloid_get", b))
        cases.append(("oid_get1 " + hexs(b), "oid_get1", b))
    good_txt, bad_txt = gen_texts(rng, tier, vectors if tier == "thorough" else vectors[::3])
    for s, a in good_txt:
        cases.append(("oid_parse " + hexs(s.encode("latin1")), "oid_parse_good", (s, a)))
    for b in bad_txt:
        cases.append(("oid_parse " + hexs(b), "oid_parse_any", b))

    time_cases(run, rng, tier, cases, cdrv)

    lines = [c[0] for c in cases]
    mo, co = correspond_resume(run, "leaf-C17", lines, model, cdrv)

    # ---- faithfulness: model vs code
    for (line, kind, pl), m, c in zip(cases, mo, co):
        run.case(line, nontrivial=True)
        run.count(kind if c != "SKIPPED" else "skipped_after_crashes")
        if m != c and c != "SKIPPED":
            run.count("model_vs_code_diff")
            run.violation("correspondence:%s(%s)" % (model_file(kind), line.split()[0]),
                          {"what": "model and C disagree", "command_line": line, "model": m, "c": c, "_pending": True})
    for i in (0, len(lines) // 3, 2 * len(lines) // 3, len(lines) - 1):
        run.sample({"cmd": lines[i], "model": mo[i], "c": co[i]})

    # ---- property oracle on the C outputs, OID
    q2 = []
    for (line, kind, a), c in zip(cases, co):
        if c == "SKIPPED":
            continue
        if kind == "oid_set":
            if len(a) < 2:
                exp = "EINVAL"
            elif not valid_first_pair(a):
                exp = "ERANGE"
            else:
                exp = hexs(oid_ref(a))
            run.count("oid_set_" + (exp if exp in ("EINVAL", "ERANGE") else "ok"))
            if c != exp:
                run.violation("oracle:oid_set", {"what": "stored octets are not the X.690 8.19 base-128 form of the arc vector (or the first-pair test does not accept exactly the valid pairs)",
                                                 "command_line": line, "expected": exp, "c": c})
            elif exp not in ("EINVAL", "ERANGE"):
                q2.append(("oid_get " + c, "OK " + " ".join(str(x) for x in a), line))
        elif kind == "reloid_set":
            exp = hexs(b"".join(b128(x) for x in a))
            if c != exp:
                run.violation("oracle:reloid_set", {"what": "stored octets are not the concatenation of base-128 subidentifiers",
                                                    "command_line": line, "expected": exp, "c": c})
            else:
                q2.append(("reloid_get " + c, ("OK " + " ".join(str(x) for x in a)).strip(), line))
        elif kind == "oid_set1":
            ln, v = a
            ref = b128(v)
            exp = hexs(ref) if len(ref) <= ln else "FAIL"
            if c != exp:
                run.violation("oracle:oid_set1", {"what": "single arc not stored in minimal base-128 form", "command_line": line,
                                                  "expected": exp, "c": c})
            elif exp != "FAIL":
                q2.append(("oid_get1 " + c + "55", "OK %d %d" % (v, len(ref)), line))
        elif kind == "oid_parse_good":
            s, arcs = a
            exp = "OK %d %s @%d" % (len(arcs), " ".join(str(x) for x in arcs), len(s))
            if c != exp:
                run.violation("oracle:oid_parse", {"what": "parsing the dotted text of an arc vector does not return it",
                                                   "command_line": line, "text": s, "expected": exp, "c": c})
    c_lines = [q[0] for q in q2]
    _, bo, _ = run_lines(cdrv, c_lines, env=SAN_ENV)
    bo += ["CRASH"] * (len(c_lines) - len(bo))
    for (cl, exp, line), back in zip(q2, bo):
        run.count("oid_back")
        if back != exp:
            run.violation("oracle:oid_roundtrip", {"what": "reading back the stored arcs does not return the vector that was set",
                                                   "command_line": line, "then": cl, "expected": exp, "c": back})

    time_oracle(run, cases, co, cdrv)

    # ---- caller-supplied capacities (own driver process: a heap overflow there must not hide the rest)
    cap = capacity_cases(rng, tier, vectors, octs, good_txt, bad_txt)
    cap_m = [c for c in cap if not c[1].startswith("idiom")]
    cap_c = [c for c in cap if c[1].startswith("idiom")]         # C only: the sizing idiom end to end
    mo2, co2 = correspond_resume(run, "leaf-C17-capacity", [c[0] for c in cap_m], model, cdrv)
    for (line, kind, pl), m, c in zip(cap_m, mo2, co2):
        run.case(line, nontrivial=True)
        run.count(kind if c != "SKIPPED" else "skipped_after_crashes")
        if m != c and c != "SKIPPED":
            run.count("model_vs_code_diff")
            run.violation("correspondence:%s(%s)" % (model_file(kind), line.split()[0]),
                          {"what": "model and C disagree", "command_line": line, "model": m, "c": c, "_pending": True})
    for i in (0, len(cap_m) // 2, len(cap_m) - 1):
        run.sample({"cmd": cap_m[i][0], "model": mo2[i], "c": co2[i]})
    _, io, _ = run_lines(cdrv, [c[0] for c in cap_c], env=SAN_ENV)
    io += ["CRASH"] * (len(cap_c) - len(io))
    for (line, kind, pl) in cap_c:
        run.case(line, nontrivial=True)
        run.count(kind)
    capacity_oracle(run, cap_m + cap_c, co2 + io, cdrv)
    lines = lines + [c[0] for c in cap_m]

    oracle_lines = {v.get("command_line") for v in run.violations if v["kind"].startswith("oracle:")}
    for v in run.violations:
        if v.pop("_pending", False):
            v["no_failing_input_found"] = v["command_line"] not in oracle_lines
    # replays are written for the first 20 violations: failing inputs first
    run.violations.sort(key=lambda v: (0 if v["kind"].startswith("oracle:") else 1 if not v.get("no_failing_input_found") else 2))
    vk = {}
    for v in run.violations:
        vk[v["kind"]] = vk.get(v["kind"], 0) + 1
    tb = ["Coq 8.16.1 kernel + vm_compute (Examples, refuted witnesses, one finite sweep of the 400-year cycle if stated)",
          "axioms under Print Assumptions: " + (", ".join(sorted(axioms)) or "none (Closed under the global context)"),
          "extraction: ExtrOcamlBasic only; OCaml 4.13.1; zarith for decimal I/O in the driver glue",
          "harness/leafdrv.c + leafdrv_c17.inc, ocaml/drv_c17.ml, checks/c17.py (generators; oracle in Python big integers)",
          "gcc + ASan/UBSan build of skeletons/*.c; glibc localtime_r/timegm/mktime and /usr/share/zoneinfo (modelled: offset handed to the model)",
          "LP64 data model, 64-bit time_t"]
    return run.finish("proof", (nthm, ndis), trusted_base=tb,
                      checker_cmd="make -C /verif all && coqc -Q coq A1 coq/Props/Properties_C17.v",
                      extra_cov={"theorems": names, "zones": run.notes, "violation_kinds": vk,
                                 "rule": "arc vectors of length 0..12 over the boundary set x random, every valid/invalid first-pair class; octet strings with 0x80 leads, 5..7-octet subidentifiers, truncations; dotted texts per state transition; times at year boundaries, leap days, -1, +-2^31, random, under each zone; round 2: every valid vector / text x every capacity N,0..n+2 of the caller's array (get_arcs, RELATIVE_OID_get_arcs, parse_arcs with explicit length and with strlen), arbitrary octets / texts x capacities against the C's own large-capacity answer, every buffer length 0..n+2 for get_single_arc / first arcs, XER body decode around 10 / 6 arcs, XER body writer size, set_arcs and asn_time2GT/UT on caller-owned objects of every buffer size; a case is one command line",
                                 "traces_validated_against_impl": len(lines)},
                      assumptions=["models of OBJECT_IDENTIFIER.c / RELATIVE-OID.c / GeneralizedTime.c / UTCTime.c are hand-written; tied by differential run only on the generated cases",
                                   "NULL arguments (other than a NULL array with 0 slots) and allocation failure are not modelled; memory ownership of the time writers / set_arcs (old buffer freed, object untouched on failure) is checked on the C only (ASan/LSan), not modelled",
                                   "libc time functions and the TZ database are modelled by proleptic Gregorian arithmetic plus the offset the libc reports"])


# ---------------------------------------------------------------- time side
T_MIN = -62167219200          # 0000-01-01T00:00:00Z
T_MAX = 253402300800          # 10000-01-01T00:00:00Z
UT_MIN = -315619200           # 1960-01-01T00:00:00Z
UT_MAX = 2840140800           # 2060-01-01T00:00:00Z


def days_from_civil(y, m, d):
    """reference day number (oracle side; Python floor division)"""
    y -= m <= 2
    era = y // 400
    yoe = y - era * 400
    doy = (153 * (m - 3 if m > 2 else m + 9) + 2) // 5 + d - 1
    doe = yoe * 365 + yoe // 4 - yoe // 100 + doy
    return era * 146097 + doe - 719468


def utc_text(t):
    """YYYYMMDDHHMMSS of t by Python's own calendar (datetime: years 1..9999)"""
    import datetime
    dt = datetime.datetime(1970, 1, 1) + datetime.timedelta(seconds=t)
    return "%04d%02d%02d%02d%02d%02d" % (dt.year, dt.month, dt.day, dt.hour, dt.minute, dt.second)


def gen_times(rng, tier):
    ts = set()
    if tier == "thorough":
        years = list(range(0, 10001))
    else:
        years = sorted(set(list(range(0, 10001, 89)) + [0, 1, 2, 99, 100, 400, 1582, 1583, 1752, 1847, 1848, 1883, 1884, 1899, 1900, 1901,
                                                       1959, 1960, 1961, 1969, 1970, 1971, 1999, 2000, 2001, 2037, 2038, 2039, 2059, 2060,
                                                       2061, 2100, 2400, 9998, 9999, 10000]))
    for y in years:
        b = days_from_civil(y, 1, 1) * 86400
        ts.update((b - 1, b))
    for y in (0, 4, 100, 400, 1600, 1900, 1904, 1960, 1972, 2000, 2024, 2056, 2100, 2400, 9996):
        for (m, d) in ((2, 28), (2, 29), (3, 1)):
            b = days_from_civil(y, m, d) * 86400      # Feb 29 of a common year = Mar 1
            ts.update((b, b + 86399))
    ts.update((-1, 0, 1, -2, 59, 60, 86399, 86400, -86400, -86401))
    for k in (31, 32, 33, 35):
        for s in (1, -1):
            ts.update((s * 2**k - 1, s * 2**k, s * 2**k + 1))
    # daylight-saving edges (America/New_York, Europe/London, Australia/Lord_Howe, Pacific/Chatham, America/St_Johns)
    for e in (1678604400, 1699164000, 1679792400, 1698541200, 1696087800, 1680361200, 1695477600, 1680356700, 1678599000, 1699158600):
        ts.update((e - 1, e, e + 1, e - 1800, e + 1800, e - 3600, e + 3600))
    n = 150 if tier == "quick" else 6000
    for _ in range(n):
        ts.add(rng.range(T_MIN, T_MAX - 1))
        ts.add(rng.range(UT_MIN, UT_MAX - 1))
        ts.add(rng.range(0, 2**31))
    ts.update((T_MIN - 1, T_MIN, T_MAX - 1, T_MAX, UT_MIN - 1, UT_MIN, UT_MAX - 1, UT_MAX))
    return sorted(ts)


FRACS = [(1, 1), (9, 1), (10, 1), (5, 3), (123, 3), (120, 3), (100, 3), (1230, 4), (999999999, 9), (1, 9), (100000000, 9),
         (123456789, 12), (1234567891, 10), (2147483647, 10), (2147483647, 1), (7, 0), (0, 3), (-5, 2), (5, -2), (99, 2), (100, 2)]


def gen_gt_texts(rng, tier):
    """texts for asn_GT2time_frac / asn_UT2time: every optional part present or
    absent, each validation edge, and broken variants; returns (text, fields or
    None); fields = (tm_year, tm_mon, mday, hour, min, sec) for local-time forms"""
    out = []
    dates = [(1970, 1, 1), (2000, 2, 29), (1999, 12, 31), (2023, 11, 14), (1, 1, 1), (9999, 12, 31), (0, 1, 1), (1900, 2, 29),
             (2023, 2, 31), (2023, 0, 10), (2023, 13, 10), (2023, 12, 0), (2023, 12, 32), (1969, 12, 31), (1960, 1, 1), (2059, 12, 31)]
    hms = [(0, 0, 0), (23, 59, 59), (23, 59, 60), (23, 59, 61), (24, 0, 0), (12, 60, 0), (12, 99, 0), (1, 2, 3), (22, 13, 20)]
    fracs = ["", ".0", ".5", ",5", ".123", ".000", ".120", ".999999999", ".2147483647", ".21474836470", ".214748364", ".2147483639999",
             ".", ",", ".1x", ".12345678901234567890"]
    sufs = ["", "Z", "+00", "-00", "+0000", "-0000", "+0530", "-0330", "+0545", "+1245", "-1200", "+9999", "+05", "-11", "+5", "+053", "+05300",
            "+05:30", "z", "+", "-", "Z ", "ZZ", "+0a", "+05a0", " "]
    reps = 400 if tier == "quick" else 20000
    for _ in range(reps):
        y, mo, d = rng.choice(dates) if rng.chance(2, 3) else (rng.range(0, 9999), rng.range(1, 12), rng.range(1, 28))
        h, mi, s = rng.choice(hms) if rng.chance(2, 3) else (rng.range(0, 23), rng.range(0, 59), rng.range(0, 59))
        level = rng.choice(["h", "m", "s", "s", "f", "f"])
        txt = "%04d%02d%02d%02d" % (y, mo, d, h)
        fields = [y - 1900, mo - 1, d, h, 0, 0]
        if level in ("m", "s", "f"):
            txt += "%02d" % mi; fields[4] = mi
        if level in ("s", "f"):
            txt += "%02d" % s; fields[5] = s
        if level == "f":
            txt += rng.choice(fracs)
        suf = rng.choice(sufs) if rng.chance(3, 4) else ""
        txt += suf
        k = rng.below(12)
        if k == 0 and txt:
            p = rng.below(len(txt)); txt = txt[:p] + rng.choice("x:/ -+Z.,") + txt[p + 1:]; fields = None
        elif k == 1:
            txt = txt[:rng.below(len(txt) + 1)]; fields = None
        elif k == 2:
            p = rng.below(len(txt) + 1); txt = txt[:p] + rng.choice("0x:Z+-.,") + txt[p:]; fields = None
        local = fields is not None and suf == "" and re.match(r"^\d{10}(\d\d(\d\d([.,]\d*)?)?)?$", txt) is not None
        out.append((txt, tuple(fields) if local else None))
    for t in ("", "2", "197001010", "1970010100", "19700101000", "197001010000", "1970010100000", "19700101000000", "19700101000000Z",
              "19700101000000-0000", "19700101000000+0000", "19700101000000.3Z", "19821106210623.3", "19821106210629.3Z",
              "19691106210827.3-0500", "19821106210629.456", "19691231235959Z", "19691231235958Z", "19700101000000Z\x00",
              "1969123123595Z", "19700101000059+0001", "19691231235959.5Z", "197001010000-0001", "1970010100Z", "1970010100+0100"):
        out.append((t, None))
    return out


def time_cases(run, rng, tier, cases, cdrv):
    zones = [z for z in ZONES if os.path.exists(os.path.join("/usr/share/zoneinfo", z))]
    missing = [z for z in ZONES if z not in zones]
    run.notes.append("zones used: " + ", ".join(zones) + ("; missing on this host (dropped): " + ", ".join(missing) if missing else ""))
    if not zones:
        zones = ["UTC"]
    ts = gen_times(rng, tier)
    # the modelled libc directly
    for t in ts:
        cases.append(("gmtime %d" % t, "libc_gmtime", t))
    for _ in range(300 if tier == "quick" else 10000):
        f = (rng.range(-1900, 8099), rng.range(-30, 40), rng.range(-40, 70), rng.range(-50, 50), rng.range(-100, 160), rng.range(-100000, 100000))
        cases.append(("timegm %d %d %d %d %d %d" % f, "libc_timegm", f))
    # offsets the libc reports (C only)
    pairs = []
    for t in ts:
        zs = zones if (tier == "thorough" or T_MIN <= t < T_MAX and (t % 7 == 0 or abs(t) < 2**33)) else [zones[0], rng.choice(zones)]
        for z in zs:
            pairs.append((t, z))
    _, offs, _ = run_lines(cdrv, ["tzoff %d %s" % p for p in pairs], env=SAN_ENV)
    offs += ["CRASH"] * (len(pairs) - len(offs))
    for (t, z), off in zip(pairs, offs):
        if not re.match(r"^-?\d+$", off):
            run.count("tzoff_" + off)
            continue
        off = int(off)
        run.count("zone_" + z)
        run.count("gmtoff_nonzero" if off else "gmtoff_zero")
        if off % 3600:
            run.count("gmtoff_not_whole_hour")
        cases.append(("gt_of_time %d 0 0 1 %s %d" % (t, z, off), "gt_of_time", (t, 0, 0, 1, z)))
        cases.append(("gt_of_time %d 0 0 0 %s %d" % (t, z, off), "gt_of_time_local", (t, 0, 0, 0, z)))
        cases.append(("ut_of_time %d 1 %s %d" % (t, z, off), "ut_of_time", (t, z)))
        if rng.chance(1, 4):
            cases.append(("ut_of_time %d 0 %s %d" % (t, z, off), "ut_of_time_local", (t, z)))
        for _ in range(2):
            fv, fd = rng.choice(FRACS) if rng.chance(2, 3) else (rng.below(10 ** rng.range(1, 9)), rng.range(1, 11))
            force = 0 if rng.chance(1, 5) else 1
            cases.append(("gt_of_time %d %d %d %d %s %d" % (t, fv, fd, force, z, off),
                          "gt_of_time" if force else "gt_of_time_local", (t, fv, fd, force, z)))
    # the caller's own object handed in (opt_gt / opt_ut): empty, or owning a buffer of every size class
    # around the sizes the function produces (15 = YYYYMMDDHHMMSSZ, 30 = its internal buffer)
    PREV = ["N", 0, 1, 12, 13, 14, 15, 16, 24, 25, 29, 30, 31, 64]
    good = [(t, z, off) for (t, z), off in zip(pairs, offs) if re.match(r"^-?\d+$", off)]
    step = max(1, len(good) // (60 if tier == "quick" else 1500))
    for i, (t, z, off) in enumerate(good):
        if i % step and not (T_MAX - 2 <= t <= T_MAX + 1):
            continue
        fv, fd = rng.choice(FRACS)
        force = 0 if rng.chance(1, 4) else 1
        plain = "gt_of_time %d %d %d %d %s %s" % (t, fv, fd, force, z, off)
        cases.append((plain, "gt_of_time" if force else "gt_of_time_local", (t, fv, fd, force, z)))
        for pv in PREV:
            cases.append(("gt_of_time_opt %d %d %d %d %s %s %s" % (t, fv, fd, force, z, off, pv), "gt_opt", plain))
        plain = "ut_of_time %d %d %s %s" % (t, force, z, off)
        cases.append((plain, "ut_of_time" if force else "ut_of_time_local", (t, z)))
        for pv in PREV[::3] + [rng.choice(PREV)]:
            cases.append(("ut_of_time_opt %d %d %s %s %s" % (t, force, z, off, pv), "ut_opt", plain))
    # parser side: arbitrary texts
    texts = gen_gt_texts(rng, tier)
    loc = [(txt, f, rng.choice(zones)) for (txt, f) in texts if f is not None]
    _, lo, _ = run_lines(cdrv, ["mkoff %d %d %d %d %d %d %s" % (f + (z,)) for (txt, f, z) in loc], env=SAN_ENV)
    lo += ["0"] * (len(loc) - len(lo))
    lmap = {}
    for (txt, f, z), o in zip(loc, lo):
        if re.match(r"^-?\d+$", o):
            lmap[txt] = (z, int(o))
    for txt, f in texts:
        b = txt.encode("latin1")
        is_local = f is not None and txt in lmap
        z, lg = lmap[txt] if is_local else ("UTC", 0)
        if not is_local and rng.chance(1, 2) and not re.match(r"^\d{10}(\d\d(\d\d([.,]\d*)?)?)?$", txt):
            z = rng.choice(zones)       # the zone must not matter when the text carries Z or an offset
        ag = rng.below(2)
        cases.append(("time_of_gt %s %d %s %d" % (hexs(b), ag, z, lg), "time_of_gt", txt))
        if rng.chance(1, 3):
            cases.append(("time_of_gt0 %s %d %s %d" % (hexs(b), ag, z, lg), "time_of_gt0", txt))
            cases.append(("time_of_gt_prec %s %d %s %d" % (hexs(b), rng.choice([0, 1, 2, 3, 6, 9, 10, 12, 30, -1]), z, lg), "time_of_gt_prec", txt))
        if len(txt) >= 2 and rng.chance(1, 2):
            u = txt[2:].encode("latin1")
            # a local-time UTCTime text is read in another century: only UTC keeps lgmtoff = 0 meaningful
            # a text without Z/offset is local time: its offset is known to the model only under UTC
            zu = "UTC" if (is_local or re.match(r"^\d+([.,]\d*)?$", txt[2:])) else z
            cases.append(("time_of_ut %s %d %s %d" % (hexs(u), ag, zu, 0), "time_of_ut", txt))


def frac_expected(fv, fd):
    """(numerator, digits) of the fraction the text must carry, or None if the
    arguments denote no fraction (property text is silent on fv >= 10^fd)"""
    if fv <= 0 or fd <= 0:
        return (0, 0)
    if fv >= 10 ** fd:
        return None
    if fd > 9:
        fv //= 10 ** (fd - 9); fd = 9
    return (fv, fd)


def time_oracle(run, cases, co, cdrv):
    q = []
    c_of = {line: c for (line, kind, pl), c in zip(cases, co)}
    for (line, kind, pl), c in zip(cases, co):
        if c == "SKIPPED":
            continue
        if kind in ("gt_opt", "ut_opt"):
            run.count("time_opt_prev_" + line.split()[-1])
            if c != c_of.get(pl):
                run.violation("oracle:time_opt_object", {"what": "with the caller's own object handed in (any previous buffer size) the function must return that object holding the same text as with a fresh one (size = strlen, NUL terminated), and leave it alone on failure",
                                                         "command_line": line, "fresh_object": pl, "expected": c_of.get(pl), "c": c})
            continue
        if kind == "gt_of_time":
            t, fv, fd, force, z = pl
            if not (T_MIN <= t < T_MAX):
                continue                       # outside the four-digit years: no claim
            fe = frac_expected(fv, fd)
            if c in ("FAIL", "CRASH", "NOLOCALTIME") or c.startswith("TZMISMATCH"):
                run.violation("oracle:gt_text", {"what": "no GeneralizedTime produced for a time inside years 0..9999", "command_line": line, "c": c})
                continue
            txt = bytes.fromhex(c).decode("latin1")
            m = re.match(r"^(\d{14})(?:\.(\d*[1-9]))?Z$", txt)
            okform = m is not None
            if okform and t >= -62135596800:
                okform = m.group(1) == utc_text(t)
            if okform and fe is not None:
                got = m.group(2) or ""
                num, dig = fe
                okform = (int(got or "0") * 10 ** dig == num * 10 ** len(got))
            run.count("gt_text_checked")
            if not okform:
                run.violation("oracle:gt_text", {"what": "forced-GMT GeneralizedTime is not the canonical YYYYMMDDHHMMSS[.f]Z text of t",
                                                 "command_line": line, "text": txt})
                continue
            q.append(("time_of_gt %s 1 %s 0" % (c, z), t, fe, line, "gt"))
        elif kind == "ut_of_time":
            t, z = pl
            if not (UT_MIN <= t < UT_MAX):
                continue                       # outside UTCTime's two-digit-year window
            if c in ("FAIL", "CRASH", "NOLOCALTIME") or c.startswith("TZMISMATCH"):
                run.violation("oracle:ut_text", {"what": "no UTCTime produced for a time inside 1960..2059", "command_line": line, "c": c})
                continue
            txt = bytes.fromhex(c).decode("latin1")
            if not (re.match(r"^\d{12}Z$", txt) and txt[:12] == utc_text(t)[2:]):
                run.violation("oracle:ut_text", {"what": "forced-GMT UTCTime is not the canonical YYMMDDHHMMSSZ text of t", "command_line": line, "text": txt})
                continue
            q.append(("time_of_ut %s 1 %s 0" % (c, z), t, (0, 0), line, "ut"))
    _, bo, _ = run_lines(cdrv, [x[0] for x in q], env=SAN_ENV)
    bo += ["CRASH"] * (len(q) - len(bo))
    for (cl, t, fe, line, which), back in zip(q, bo):
        run.count(which + "_back")
        m = re.match(r"^OK (-?\d+) (\d+) (\d+)$", back)
        good = m is not None and int(m.group(1)) == t
        if good and fe is not None:
            num, dig = fe
            good = int(m.group(2)) * 10 ** dig == num * 10 ** int(m.group(3))
        if good:
            continue
        if t == -1 and back == "FAIL":
            run.known_finding("C17-time-minus-one", line)
            continue
        run.violation("oracle:%s_roundtrip" % which, {"what": "converting t to %s in forced-GMT form and back does not return t (and its fraction)" % ("GeneralizedTime" if which == "gt" else "UTCTime"),
                                                       "command_line": line, "then": cl, "expected_t": t, "expected_fraction": fe, "c": back})


if __name__ == "__main__":
    sys.exit(main(sys.argv[1] if len(sys.argv) > 1 else "quick"))
