"""C14 — structure lifecycle is leak-free and double-free-free (partial).
Theorems: coq/Props/Properties_C14.v over the ownership model coq/Rt/Heap.v
(free_exact, reset_is_fresh, decode_balanced on the instrumented reference BER decoder).
Tie: the generated C of corpus modules is linked with harness/allocwrap.c through
  -Wl,--wrap=malloc,--wrap=calloc,--wrap=realloc,--wrap=free
(ASan/UBSan stay on: the wrapping is done at symbol resolution, __real_malloc is the
sanitizer's interceptor) and HISTORIES over one structure pointer are run by the
`hist` command (harness/moddrv_c14.inc):
  decode valid / a starved proper prefix then the rest / garbage, reset, re-decode,
  encode in every syntax, print, check, free;
for every decode/encode op of every history the allocations n of the op are counted
first and the history is replayed with the k-th allocation failing for every k < n.
Oracle (the property evaluated on the C alone): no crash, no ledger violation
(double free, foreign free), after `free` no live block, after `reset` the whole top
block is zero and it is the only live block, a decode after `reset` equals the decode
into a fresh structure (rc, consumed, DER, one allocation fewer).
Faithfulness (model vs C): the number of blocks a decoded value owns (Heap.owned, at the
C's granularity given by the generated member table) equals the C's live-block count,
and free_model's event count equals it as well."""
import sys, os, re, json, subprocess, time
from concurrent.futures import ThreadPoolExecutor
sys.path.insert(0, os.path.join(os.path.dirname(os.path.abspath(__file__)), "..", "lib"))
from vlib import *
from modcorpus import *

WRAP = ["-Wl,--wrap=malloc,--wrap=calloc,--wrap=realloc,--wrap=free"]
INC = os.path.join(HARNESS, "moddrv_c14.inc")
RESTARTABLE = ("ber", "oer", "xer")
# a crash costs a process restart: the UBSan stack trace (0.14 s of symbolizer per report) is left out of the
# bulk runs; the first line of the report carries file:line
FAST_ENV = dict(SAN_ENV, UBSAN_OPTIONS="print_stacktrace=0:halt_on_error=1:exitcode=78")
ENC_SYNS = ["der", "uper", "cper", "oer", "coer", "xer", "cxer"]


# ------------------------------------------------------------------ running histories

def run_resume(exe, lines, timeout=45, env=None):
    """feed lines; when the driver dies on a line, record the crash and go on with the next one.
    returns list of (output line | None, stderr tail | None)"""
    res, exits = [], []
    i = 0
    while i < len(lines):
        data = "\n".join(lines[i:]) + "\n"
        try:
            p = subprocess.run([exe], input=data, stdout=subprocess.PIPE, stderr=subprocess.PIPE, text=True,
                               errors="replace", timeout=timeout, env=env or FAST_ENV)
            rc, so, se = p.returncode, p.stdout, p.stderr
        except subprocess.TimeoutExpired as e:
            rc, so, se = -9, (e.stdout or b"").decode(errors="replace") if isinstance(e.stdout, bytes) else (e.stdout or ""), "TIMEOUT"
        out = so.split("\n")
        partial = out.pop()          # text after the last newline ('' normally)
        out = out[:len(lines) - i]
        res += [(o, None) for o in out]
        i += len(out)
        if i < len(lines):
            res.append((None, "rc=%s partial=%s\n%s" % (rc, partial[-300:], se[-3000:])))
            i += 1
        elif rc != 0:
            # all lines answered but the exit status is bad (a report at exit): blame the batch
            exits.append("rc=%s\n%s" % (rc, se[-3000:]))
    return res, exits


OPRE = re.compile(r"^(\w+)((?: \S+=\S+)*)( OVERCONSUME)?$")


def parse_hist(out):
    """result line -> list of dicts (one per op) + end dict; None if unparsable"""
    parts = out.split(" | ")
    ops = []
    for p in parts:
        f = p.split(" ")
        d = {"op": f[0]}
        for x in f[1:]:
            if "=" in x:
                a, b = x.split("=", 1)
                d[a] = b
            else:
                d[x] = True
        ops.append(d)
    if not ops or ops[-1]["op"] != "end":
        return None
    return ops


# ------------------------------------------------------------------ history generation

def mutate(rng, b):
    """garbage derived from a valid encoding"""
    b = bytearray(b)
    kind = rng.below(6)
    if len(b) == 0:
        return bytes(rng.bytes(rng.range(1, 6)))
    if kind == 0:
        i = rng.below(len(b)); b[i] ^= 1 << rng.below(8)
    elif kind == 1:
        i = rng.below(len(b)); b[i] = rng.below(256)
    elif kind == 2:
        i = rng.below(len(b)); b = b[:i] + bytearray(rng.bytes(rng.range(1, 4))) + b[i:]
    elif kind == 3:
        i = rng.below(len(b)); del b[i]
        if not b:
            b = bytearray(b"\xff")
    elif kind == 4:
        i = rng.below(len(b)); b[i:] = rng.bytes(len(b) - i)
    else:
        b = bytearray(rng.bytes(rng.range(1, max(2, len(b)))))
    return bytes(b)


# ------------------------------------------------------------------ alternative BER forms of a value
# (constructed / segmented OCTET STRING, indefinite and long-form lengths): they reach the decoder paths
# that keep state between calls (the OCTET STRING decode stack in ctx->ptr, left behind by a starved decode)

def parse_val(s, pos=0):
    ch = s[pos]
    if ch == "T":
        return True, pos + 1
    if ch == "F":
        return False, pos + 1
    if ch == "N":
        return None, pos + 1
    if ch == "I":
        j = s.index(";", pos)
        return int(s[pos + 1:j]), j + 1
    if ch == "O":
        j = s.index(";", pos)
        return bytes.fromhex(s[pos + 1:j]), j + 1
    if ch in "SL":
        pos += 2
        xs = []
        while s[pos] != "}":
            v, pos = parse_val(s, pos)
            xs.append(v)
        return (ch, xs), pos + 1
    if ch == "C":
        j = s.index(":", pos)
        v, p2 = parse_val(s, j + 1)
        return ("C", int(s[pos + 1:j]), v), p2
    if ch == "_":
        return ("_",), pos + 1
    if ch == "!":
        v, p2 = parse_val(s, pos + 1)
        return ("!", v), p2
    raise ValueError(s[pos:])


def ber_tag(tg, constructed):
    cls, num = tg % 4, tg // 4
    b0 = (cls << 6) | (0x20 if constructed else 0)
    if num <= 30:
        return bytes([b0 | num])
    ds = []
    while True:
        ds.insert(0, num % 128)
        num //= 128
        if num == 0:
            break
    return bytes([b0 | 31] + [d | 0x80 for d in ds[:-1]] + [ds[-1]])


def ber_len(n, rng, allow_long=True):
    if n <= 127 and not (allow_long and rng.chance(1, 3)):
        return bytes([n])
    b = n.to_bytes(max(1, (n.bit_length() + 7) // 8), "big")
    if allow_long and rng.chance(1, 3):
        b = b"\x00" + b                      # non-minimal long form
    return bytes([0x80 | len(b)]) + b


def ber_cons(tg, content, rng):
    if rng.chance(1, 2):
        return ber_tag(tg, True) + b"\x80" + content + b"\x00\x00"
    return ber_tag(tg, True) + ber_len(len(content), rng) + content


def ber_alt(tree, v, rng):
    k = tree[0]
    if k == "b":
        return ber_tag(tree[1], False) + b"\x01" + (bytes([rng.range(1, 255)]) if v else b"\x00")
    if k == "n":
        return ber_tag(tree[1], False) + b"\x00"
    if k == "i":
        n = max(1, (v.bit_length() + 8) // 8)
        return ber_tag(tree[1], False) + ber_len(n, rng) + v.to_bytes(n, "big", signed=True)
    if k == "o":
        if rng.chance(2, 3):
            # constructed: segments are universal OCTET STRINGs, possibly nested one level
            segs, i = b"", 0
            while i < len(v) or (i == 0 and rng.chance(1, 2)):
                j = min(len(v), i + rng.range(0, 3))
                piece = b"\x04" + ber_len(j - i, rng) + v[i:j]
                if rng.chance(1, 4):
                    piece = b"\x24\x80" + piece + b"\x00\x00"
                segs += piece
                if j == i and i >= len(v):
                    break
                i = j
            return ber_cons(tree[1], segs, rng)
        return ber_tag(tree[1], False) + ber_len(len(v), rng) + v
    if k == "s":
        out = b""
        for m, x in zip(tree[2], v[1]):
            if m[0] == "?":
                if x[0] == "!":
                    out += ber_alt(m[1], x[1], rng)
            else:
                out += ber_alt(m, x, rng)
        return ber_cons(tree[1], out, rng)
    if k in ("q", "t"):
        return ber_cons(tree[1], b"".join(ber_alt(tree[3], x, rng) for x in v[1]), rng)
    if k == "c":
        return ber_alt(tree[1][v[1]], v[2], rng)
    if k == "x":
        return ber_cons(tree[1], ber_alt(tree[2], v, rng), rng)
    if k == "?":
        return ber_alt(tree[1], v[1], rng) if v[0] == "!" else b""
    raise ValueError(k)


def hx(b):
    return b.hex() if len(b) else "-"


def histories(rng, case, enc, tier):
    """enc: {syn: bytes} valid encodings of the case's value.  Returns list of (kind, syn, [ops])"""
    hs = []
    syns = [s for s in ("ber", "uper", "oer", "xer") if enc.get(s) is not None]
    ber = enc["ber"]
    hs.append(("encode-a", "ber", ["dec:ber:" + hx(ber), "enc:der", "enc:uper", "enc:oer", "enc:xer", "free"]))
    hs.append(("encode-b", "ber", ["dec:ber:" + hx(ber), "enc:cper", "enc:coer", "enc:cxer", "chk", "free"]))
    if enc.get("alt") is not None:
        A = enc["alt"]
        cut = rng.range(0, len(A) - 1)
        hs.append(("alt-ber", "ber", ["dec:ber:" + hx(A), "enc:der", "free"]))
        hs.append(("alt-ber-starve-rest", "ber", ["dec:ber:%s:%d" % (hx(A), cut), "print", "decr:ber", "enc:der", "free"]))
        hs.append(("alt-ber-starve-free", "ber", ["dec:ber:%s:%d" % (hx(A), cut), "free"]))
        hs.append(("alt-ber-starve-reset-redecode", "ber", ["dec:ber:%s:%d" % (hx(A), cut), "reset", "dec:ber:" + hx(ber), "enc:der", "free"]))
        if tier != "quick":
            hs.append(("alt-ber-starve-garbage", "ber", ["dec:ber:%s:%d" % (hx(A), cut), "dec:ber:" + hx(mutate(rng, A[cut:])), "free"]))
    for s in syns:
        B = enc[s]
        hs.append(("fresh", s, ["dec:%s:%s" % (s, hx(B)), "enc:der", "print", "free"]))
        cands = []
        cut = rng.range(0, len(B) - 1) if len(B) >= 1 else 0
        G = mutate(rng, B)
        if s in RESTARTABLE:
            cands.append(("starve-rest", ["dec:%s:%s:%d" % (s, hx(B), cut), "decr:" + s, "enc:der", "free"]))
            cands.append(("starve-garbage", ["dec:%s:%s:%d" % (s, hx(B), cut), "dec:%s:%s" % (s, hx(mutate(rng, B[cut:]))), "print", "free"]))
        cands.append(("starve-reset-redecode", ["dec:%s:%s:%d" % (s, hx(B), cut), "print", "reset", "dec:%s:%s" % (s, hx(B)), "enc:der", "free"]))
        cands.append(("garbage-reset-redecode", ["dec:%s:%s" % (s, hx(G)), "print", "reset", "dec:%s:%s" % (s, hx(B)), "enc:der", "free"]))
        cands.append(("garbage-free", ["dec:%s:%s" % (s, hx(G)), "chk", "free"]))
        cands.append(("starve-free", ["dec:%s:%s:%d" % (s, hx(B), cut), "free", "free"]))
        s2 = rng.choice(syns)
        cands.append(("valid-reset-redecode", ["dec:%s:%s" % (s, hx(B)), "reset", "dec:%s:%s" % (s2, hx(enc[s2])), "enc:der", "free"]))
        cands.append(("reset-reset-encode", ["dec:%s:%s" % (s, hx(B)), "reset", "reset", "enc:der", "free"]))
        cands.append(("free-redecode", ["dec:%s:%s" % (s, hx(B)), "free", "dec:%s:%s" % (s, hx(B)), "reset", "free"]))
        if tier == "quick":
            cands = [cands[i] for i in sorted(set(rng.below(len(cands)) for _ in range(2)))]
        for kind, ops in cands:
            hs.append((kind, s, ops))
    return hs


def with_fail(ops, i, k):
    o = ops[i]
    name, rest = o.split(":", 1) if ":" in o else (o, "")
    return ops[:i] + ["%s@%d%s" % (name, k, (":" + rest) if rest else "")] + ops[i + 1:]


def ks_for(rng, n, tier):
    cap = 20 if tier == "quick" else 120
    if n <= cap:
        return list(range(n))
    head = list(range(cap * 3 // 4))
    rest = sorted(set(rng.range(len(head), n - 1) for _ in range(cap // 4)))
    return head + rest


# ------------------------------------------------------------------ main

def own_findings(run):
    """the lead assembles known_findings.json; until then read this property's fragment directly"""
    if run.findings:
        return
    p = os.path.join(VERIF, "findings.d", "C14.json")
    if os.path.exists(p):
        run.findings = [f for f in json.load(open(p)) if f.get("status") == "open"]


def tlog(msg):
    if os.environ.get("VERIF_VERBOSE"):
        log("[%.1fs] %s" % (time.time() - T0, msg))


def main(tier):
    run = Run("C14", tier)
    own_findings(run)
    rng = Rng(run.seed)
    ok, out = coq_build()
    have_props = os.path.exists(os.path.join(COQ, "Props", "Properties_C14.v"))
    nthm, ndis, axioms, names, plog = obligations("C14") if (ok and have_props) else (0, 0, set(), [], out)
    gate = grep_gate()
    tlog("proofs done")
    if not ok or ndis != nthm or gate or not have_props:
        run.violation("proof:Properties_C14", {"what": "Coq development does not build or an obligation is open",
                                               "log_tail": (out if not ok else plog)[-2000:], "grep_gate": gate}, no_input=True)
    try:
        nm, nt, nv = (8, 5, 4) if tier == "quick" else (30, 6, 8)
        mods, cases = build_corpus(run, rng, nm, nt, nv, tier, tag="c14", extra_ldflags=WRAP, moddrv_extra=INC)
    except BuildError as e:
        run.violation("build", {"what": str(e)[-2500:]}, no_input=True)
        return run.finish("proof", (nthm, ndis))
    tlog("corpus built: %d cases" % len(cases))
    maxder = 120 if tier == "quick" else 400          # hex digits: keep values small (every k for every op is quadratic)
    cases = [c for c in cases if len(c["der"]) <= maxder]
    bm = by_module(cases)
    mods = [m for m in mods if m.get("exe")]
    # XER inputs: the C's own BASIC-XER output for the value
    for m in mods:
        cs = bm.get(m["name"], [])
        o = run_mod(run, m, ["xcode %s der %s xer" % (c["tn"], c["der"]) for c in cs], "C14-xer")
        for c, l in zip(cs, o):
            c["xer"] = l.split()[1] if l.startswith("OK ") else None

    # the model's account of every case: blocks owned by the decoded structure, ledger after free / reset
    model = model_build()
    ml = []
    for c in cases:
        ml += ["c14own 0 %s %s" % (c["ts"], c["vs"]), "c14own 1 %s %s" % (c["ts"], c["vs"])]
    rcm, mo, me = run_lines(model, ml, timeout=900)
    if rcm != 0 or len(mo) != len(ml):
        run.violation("model:Heap", {"what": "model driver failed", "stderr": me[-1500:]}, no_input=True)
        mo = [""] * len(ml)
    for i, c in enumerate(cases):
        for key, o in (("own", mo[2 * i]), ("own_oer", mo[2 * i + 1])):
            c[key] = dict(x.split("=", 1) for x in o.split() if "=" in x)
            d = c[key]
            if d and (d.get("free") != "OK:0" or d.get("reset") != "OK:1" or d.get("zero") != "1" or d.get("shape") != "1" or d.get("fe") != d.get("n")
                      or int(d.get("fr", -1)) != int(d.get("n", 0)) - 1):
                run.violation("model:Heap", {"what": "the extracted model contradicts its own theorems (free/reset ledger, shape)", "model_type": c["ts"],
                                             "value": c["vs"], "model": o}, no_input=True)
    tlog("model done")

    def chunked(exe, lines, n=60):
        """run lines in parallel chunks (a crash costs a process restart: keep the chunks short)"""
        chunks = [lines[i:i + n] for i in range(0, len(lines), n)]
        outs = list(pool.map(lambda ch: run_resume(exe, ch), chunks))
        res, exits = [], []
        for r, e in outs:
            res += r
            exits += e
        return res, exits

    def work(m):
        """all histories of one module: base runs, then the failing replays.  Returns records"""
        r = Rng(run.seed * 1000003 + sum(map(ord, m["name"])))
        cs = bm.get(m["name"], [])
        hs = []
        for c in cs:
            enc = {"ber": bytes.fromhex(c["der"]),
                   "uper": bytes.fromhex(c["uper"]) if c["uper"] not in ("NONE", "-") else (b"" if c["uper"] == "-" else None),
                   "oer": bytes.fromhex(c["oer"]) if c["oer"] not in ("NONE", "-") else (b"" if c["oer"] == "-" else None),
                   "xer": bytes.fromhex(c["xer"]) if c.get("xer") else None}
            try:
                enc["alt"] = ber_alt(m["trees"][c["tn"]], parse_val(c["vs"])[0], r)
            except (ValueError, IndexError, TypeError, OverflowError):
                enc["alt"] = None
            for kind, s, ops in histories(r, c, enc, tier):
                hs.append({"case": c, "kind": kind, "syn": s, "ops": ops, "enc": enc})
        base, exits = chunked(m["exe"], ["hist %s %s" % (h["case"]["tn"], ";".join(h["ops"])) for h in hs])
        reps = []
        for h, (o, err) in zip(hs, base):
            h["out"], h["err"] = o, err
            h["parsed"] = parse_hist(o) if o else None
            if not h["parsed"]:
                continue
            for i, d in enumerate(h["parsed"][:-1]):
                if d["op"] in ("dec", "decr", "enc") and int(d.get("a", "0")) > 0:
                    for k in ks_for(r, int(d["a"]), tier):
                        reps.append({"h": h, "i": i, "k": k, "ops": with_fail(h["ops"], i, k)})
        ro, exits2 = chunked(m["exe"], ["hist %s %s" % (x["h"]["case"]["tn"], ";".join(x["ops"])) for x in reps])
        exits = exits + exits2
        for x, (o, err) in zip(reps, ro):
            x["out"], x["err"] = o, err
        return m, hs, reps, exits

    pool = ThreadPoolExecutor(max_workers=NCPU)
    with ThreadPoolExecutor(max_workers=len(mods) or 1) as ex:
        results = list(ex.map(work, mods))
    pool.shutdown()

    tlog("histories run")
    nrep = 0
    for m, hs, reps, exits in results:
        for err in exits:
            run.violation("crash:exit-status", {"what": "moddrv exited with a bad status after answering every line (report at exit)",
                                                "module": m["text"], "stderr_tail": err[-2500:]})
        fresh = {}
        for h in hs:
            if h["kind"] == "fresh" and h["parsed"]:
                fresh[(h["case"]["tn"], h["case"]["vs"], h["syn"])] = h["parsed"]
        for h in hs:
            c = h["case"]
            line = "hist %s %s" % (c["tn"], ";".join(h["ops"]))
            run.case(line)
            run.count("hist_" + h["kind"])
            run.count("syn_" + h["syn"])
            rep = {"module": m["text"], "type": c["tn"], "model_type": c["ts"], "value": c["vs"], "history": h["kind"], "command_line": line,
                   "replay_cmd": "echo '%s' | <moddrv of the module built with %s and MODDRV_EXTRA=harness/moddrv_c14.inc>" % (line, WRAP[0])}
            if not h["parsed"]:
                run.violation("crash:history", dict(rep, what="moddrv died or printed an unparsable line on a history without allocation failure",
                                                    c=h["out"], stderr_tail=(h["err"] or "")[-2500:]))
                continue
            check_history(run, rep, h, h["parsed"], None, fresh)
        for x in reps:
            nrep += 1
            h = x["h"]
            c = h["case"]
            line = "hist %s %s" % (c["tn"], ";".join(x["ops"]))
            run.case(line)
            run.count("allocfail_%s_%s" % (h["parsed"][x["i"]]["op"], h["ops"][x["i"]].split(":")[1]))
            rep = {"module": m["text"], "type": c["tn"], "model_type": c["ts"], "value": c["vs"], "history": h["kind"], "command_line": line,
                   "failing_op_index": x["i"], "failing_allocation": x["k"], "allocations_of_op": int(h["parsed"][x["i"]]["a"]),
                   "replay_cmd": "echo '%s' | <moddrv of the module built with %s and MODDRV_EXTRA=harness/moddrv_c14.inc>" % (line, WRAP[0])}
            p = parse_hist(x["out"]) if x.get("out") else None
            if not p:
                run.violation("crash:alloc-failure", dict(rep, what="moddrv died when allocation %d of op %d (%s) returned NULL" % (x["k"], x["i"], x["ops"][x["i"]].split(":")[0]),
                                                          c=x.get("out"), stderr_tail=(x.get("err") or "")[-2500:]))
                continue
            check_history(run, rep, h, p, x, fresh)
        if hs:
            run.sample({"type": hs[0]["case"]["ts"], "history": ";".join(hs[0]["ops"])[:200], "c": (hs[0]["out"] or "")[:300]})
    tlog("oracle done")
    if os.environ.get("C14_DUMP"):
        json.dump(run.violations, open(os.environ["C14_DUMP"], "w"), indent=1)
    tb = ["Coq 8.16.1 kernel", "axioms under Print Assumptions: " + (", ".join(sorted(axioms)) or "none (Closed under the global context)"),
          "harness/allocwrap.c (ledger, quarantine, failure trigger), harness/moddrv_c14.inc, harness/moddrv.c, GNU ld --wrap, gcc + ASan/UBSan",
          "lib/modgen.py, lib/modcorpus.py (corpus), the extracted codec model (encodings of the values)",
          "the real allocator and the detection of double frees are runtime facts: the theorems speak about the ownership discipline of the model"]
    return run.finish("proof", (nthm, ndis), trusted_base=tb,
                      checker_cmd="make -C /verif all && coqc -Q coq A1 coq/Props/Properties_C14.v",
                      extra_cov={"theorems": names, "modules": len(mods), "alloc_failure_replays": nrep,
                                 "rule": "one case = one history (<= 6 ops on one structure pointer) or one replay of it with one allocation failing; distinct command lines",
                                 "traces_validated_against_impl": run.cov["evaluations"]},
                      assumptions=["partial: the proof carries the ownership discipline of the model (what a structure owns, what free/reset release); the C's allocator behaviour is observed by the ledger on the explored histories only",
                                   "types outside the modelled algebra are not exercised; values are small (DER <= %d octets)" % (maxder // 2)])


def check_history(run, rep, h, p, x, fresh):
    """the C14 oracle on one parsed result line; x = failing replay descriptor or None"""
    c = h["case"]
    ops = x["ops"] if x else h["ops"]
    kindtag = "alloc-failure" if x else "history"
    end = p[-1]
    bad = []
    # blocks already attributed to a leaking op (reported once, at the op where live grew)
    ex_n = ex_b = 0

    def live_of(d):
        a, b = d.get("live", "0/0").split("/")
        return int(a) - ex_n, int(b) - ex_b

    prev = (0, 0)
    for i, d in enumerate(p[:-1]):
        name = ops[i].split(":")[0]
        if d.get("v", "-") != "-":
            bad.append(("ledger", i, "op %d (%s): %s" % (i, name, d["v"])))
        if d.get("OVERCONSUME"):
            bad.append(("overconsume", i, "op %d consumed more than presented" % i))
        if "BADOP" in d:
            bad.append(("harness", i, "bad op %d" % i))
            continue
        cur = live_of(d)
        if d["op"] in ("enc", "print", "chk") and cur != prev:
            # an operation that only reads the structure must leave the heap as it found it
            bad.append(("leak-in-%s" % d["op"], i, "op %d (%s): live went from %d/%d to %d/%d across a call that only reads the structure"
                        % (i, name, prev[0], prev[1], cur[0], cur[1])))
            ex_n += cur[0] - prev[0]
            ex_b += cur[1] - prev[1]
            cur = prev
        if d["op"] == "free" and cur != (0, 0):
            bad.append(("leak", i, "op %d: after ASN_STRUCT_FREE %d/%d blocks/bytes are still live" % (i, cur[0], cur[1])))
            ex_n += cur[0]
            ex_b += cur[1]
            cur = (0, 0)
        if d["op"] == "reset":
            if d.get("zero") != "1":
                bad.append(("reset-not-zero", i, "op %d: after ASN_STRUCT_RESET the top block is not all zero" % i))
            top = int(d.get("top", "0"))
            want = (1, top) if top else (0, 0)
            if cur != want:
                bad.append(("reset-leak", i, "op %d: after ASN_STRUCT_RESET live is %d/%d, the top block alone would be %d/%d" % (i, cur[0], cur[1], want[0], want[1])))
                ex_n += cur[0] - want[0]
                ex_b += cur[1] - want[1]
                cur = want
        prev = cur
    if live_of(end) != (0, 0) or end.get("st") != "0":
        bad.append(("leak", len(p) - 1, "at the end of the history live=%s st=%s" % (end.get("live"), end.get("st"))))
    if x:
        d = p[x["i"]]
        if d.get("f") != "1":
            bad.append(("replay-nondeterministic", x["i"], "allocation %d of op %d was not reached in the replay (a=%s)" % (x["k"], x["i"], d.get("a"))))
        b = h["parsed"][x["i"]]
        if d["op"] in ("dec", "decr") and d.get("rc") == "OK" and b.get("rc") == "OK":
            # a decode that reports success although an allocation failed must deliver the same value
            nxt = [j for j in range(x["i"] + 1, len(p) - 1) if p[j]["op"] == "enc" and ops[j] == "enc:der"]
            if nxt and p[nxt[0]].get("hex") != h["parsed"][nxt[0]].get("hex"):
                bad.append(("unclean-success", x["i"], "decode reports RC_OK with a failed allocation and the value differs from the undisturbed decode"))
        if d["op"] == "enc" and int(d.get("ret", "-1")) >= 0 and d.get("hex") != b.get("hex"):
            bad.append(("unclean-success", x["i"], "encode reports success with a failed allocation and different bytes"))
    else:
        # sanity of the undisturbed history + "re-decode after reset equals decode into a fresh structure"
        for i, d in enumerate(p[:-1]):
            o = ops[i].split(":")
            if d["op"] == "dec" and len(o) == 3 and i > 0 and p[i - 1]["op"] == "reset":
                key = (c["tn"], c["vs"], o[1])
                fr = fresh.get(key)
                if fr and ops[i] == "dec:%s:%s" % (o[1], hx(h["enc"][o[1]])):
                    f0 = fr[0]
                    reused = p[i - 1].get("top", "0") != "0"
                    if (d.get("rc"), d.get("c")) != (f0.get("rc"), f0.get("c")):
                        bad.append(("reset-not-fresh", i, "decode after reset: rc/consumed %s/%s, into a fresh structure %s/%s" % (d.get("rc"), d.get("c"), f0.get("rc"), f0.get("c"))))
                    elif int(d.get("a", 0)) != int(f0.get("a", 0)) - (1 if reused else 0):
                        bad.append(("reset-not-fresh", i, "decode after reset makes %s allocations, into a fresh structure %s (top block reused: %s)" % (d.get("a"), f0.get("a"), reused)))
                    if i + 1 < len(p) - 1 and ops[i + 1] == "enc:der" and p[i + 1].get("hex") != fr[1].get("hex"):
                        bad.append(("reset-not-fresh", i, "value decoded after reset differs from the value decoded into a fresh structure"))
        if h["kind"] == "alt-ber":
            run.count("alt_ber_dec_%s" % p[0].get("rc"))
            if p[0].get("rc") == "OK" and p[1].get("hex") != c["der"]:
                bad.append(("value", 0, "an alternative BER form decodes to a different value"))
        if h["kind"] == "fresh":
            run.count("fresh_dec_%s_%s" % (h["syn"], p[0].get("rc")))
            own = c.get("own_oer") if h["syn"] == "oer" else c.get("own")
            if p[0].get("rc") == "OK" and own:
                # faithfulness: the C's ledger after a successful decode holds as many blocks as the model's structure owns
                nC = p[0].get("live", "0/0").split("/")[0]
                run.count("owned_blocks_%s" % (own["n"] if int(own["n"]) < 8 else "8+"))
                if nC != own["n"]:
                    run.violation("correspondence:Heap.owned", dict(rep, what="after a successful %s decode the C holds %s live blocks, the model's structure owns %s (%s)"
                                                                    % (h["syn"], nC, own["n"], " ".join("%s=%s" % kv for kv in own.items())),
                                                                    c=h["out"][:600]), no_input=True)
            if p[0].get("rc") == "OK" and p[1].get("hex") != c["der"]:
                bad.append(("value", 0, "valid %s encoding decodes to a different value" % h["syn"]))
    for kind, opi, what in bad:
        run.violation("oracle:%s(%s)" % (kind, kindtag), dict(rep, what=what, c=" | ".join("%s %s" % (d["op"], " ".join("%s=%s" % kv for kv in d.items() if kv[0] not in ("op", "hex"))) for d in p)))


if __name__ == "__main__":
    sys.exit(main(sys.argv[1] if len(sys.argv) > 1 else "quick"))
