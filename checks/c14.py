"""C14 — structure lifecycle is leak-free and double-free-free (partial).
Theorems: coq/Props/Properties_C14.v over the ownership model coq/Rt/Heap.v
(free_exact, reset_is_fresh, decode_balanced on the instrumented reference BER decoder).
Tie: the generated C of corpus modules is linked with harness/allocwrap.c through
  -Wl,--wrap=malloc,--wrap=calloc,--wrap=realloc,--wrap=free
(ASan/UBSan stay on: the wrapping is done at symbol resolution, __real_malloc is the
sanitizer's interceptor) and HISTORIES over one structure pointer are run by the
`hist` command (harness/moddrv_c14.inc):
  decode valid / a starved proper prefix then the rest / garbage, reset, re-decode,
  encode in every syntax, print, check, free;
for every decode/encode op of every history the allocations n of the op are counted
first and the history is replayed with the k-th allocation failing for every k < n.
Oracle (the property evaluated on the C alone): no crash, no ledger violation
(double free, foreign free), after `free` no live block, after `reset` the whole top
block is zero and it is the only live block, a decode after `reset` equals the decode
into a fresh structure (rc, consumed, DER, one allocation fewer).
Faithfulness (model vs C): the number of blocks a decoded value owns (Heap.owned, at the
C's granularity given by the generated member table) equals the C's live-block count,
and free_model's event count equals it as well.
Second layer (lib/c14x_layer.py, model coq/Rt/HeapX.v): every type kind x three flag sets under
RESET + re-decode (top level and member by member), extensible types and open type holders
under faults at every byte of every encoding; leaf structures compared with the model on the
byte level.  The oracle itself lives in lib/c14_util.py (check_history).
Third layer (lib/c14w_layer.py + lib/c14w_enc.py, model coq/Rt/HeapW.v): decoder-internal refusals of well-formed hostile
input (bomb guards, stack guard, unknown CHOICE index, announced counts / additions, repeated members, tag and length bombs)
produced by independent encoders that can lie, and the encoder side of the lifecycle (asn_encode_to_new_buffer,
uper_encode_to_new_buffer, xer_equivalent, xer_fprint on values no encoder accepts, every allocation failing in turn)."""
import sys, os, re, json, subprocess, time
from concurrent.futures import ThreadPoolExecutor
sys.path.insert(0, os.path.join(os.path.dirname(os.path.abspath(__file__)), "..", "lib"))
from vlib import *
from modcorpus import *
from c14_util import *
import c14x_layer
import c14w_layer


# ------------------------------------------------------------------ main

def own_findings(run):
    """the lead assembles known_findings.json; until then read this property's fragment directly"""
    if run.findings:
        return
    p = os.path.join(VERIF, "findings.d", "C14.json")
    if os.path.exists(p):
        run.findings = [f for f in json.load(open(p)) if f.get("status") == "open"]


def tlog(msg):
    if os.environ.get("VERIF_VERBOSE"):
        log("[%.1fs] %s" % (time.time() - T0, msg))


def main(tier):
    run = Run("C14", tier)
    own_findings(run)
    rng = Rng(run.seed)
    ok, out = coq_build()
    have_props = os.path.exists(os.path.join(COQ, "Props", "Properties_C14.v"))
    nthm, ndis, axioms, names, plog = obligations("C14") if (ok and have_props) else (0, 0, set(), [], out)
    gate = grep_gate()
    tlog("proofs done")
    if not ok or ndis != nthm or gate or not have_props:
        run.violation("proof:Properties_C14", {"what": "Coq development does not build or an obligation is open",
                                               "log_tail": (out if not ok else plog)[-2000:], "grep_gate": gate}, no_input=True)
    try:
        nm, nt, nv = (8, 5, 4) if tier == "quick" else (30, 6, 8)
        mods, cases = build_corpus(run, rng, nm, nt, nv, tier, tag="c14", extra_ldflags=WRAP, moddrv_extra=INC)
    except BuildError as e:
        run.violation("build", {"what": str(e)[-2500:]}, no_input=True)
        return run.finish("proof", (nthm, ndis))
    tlog("corpus built: %d cases" % len(cases))
    maxder = 120 if tier == "quick" else 400          # hex digits: keep values small (every k for every op is quadratic)
    cases = [c for c in cases if len(c["der"]) <= maxder]
    bm = by_module(cases)
    mods = [m for m in mods if m.get("exe")]
    # XER inputs: the C's own BASIC-XER output for the value
    for m in mods:
        cs = bm.get(m["name"], [])
        o = run_mod(run, m, ["xcode %s der %s xer" % (c["tn"], c["der"]) for c in cs], "C14-xer")
        for c, l in zip(cs, o):
            c["xer"] = l.split()[1] if l.startswith("OK ") else None

    # the model's account of every case: blocks owned by the decoded structure, ledger after free / reset
    model = model_build()
    ml = []
    for c in cases:
        ml += ["c14own 0 %s %s" % (c["ts"], c["vs"]), "c14own 1 %s %s" % (c["ts"], c["vs"])]
    rcm, mo, me = run_lines(model, ml, timeout=900)
    if rcm != 0 or len(mo) != len(ml):
        run.violation("model:Heap", {"what": "model driver failed", "stderr": me[-1500:]}, no_input=True)
        mo = [""] * len(ml)
    for i, c in enumerate(cases):
        for key, o in (("own", mo[2 * i]), ("own_oer", mo[2 * i + 1])):
            c[key] = dict(x.split("=", 1) for x in o.split() if "=" in x)
            d = c[key]
            if d and (d.get("free") != "OK:0" or d.get("reset") != "OK:1" or d.get("zero") != "1" or d.get("shape") != "1" or d.get("fe") != d.get("n")
                      or int(d.get("fr", -1)) != int(d.get("n", 0)) - 1):
                run.violation("model:Heap", {"what": "the extracted model contradicts its own theorems (free/reset ledger, shape)", "model_type": c["ts"],
                                             "value": c["vs"], "model": o}, no_input=True)
    tlog("model done")

    def chunked(exe, lines, n=60):
        """run lines in parallel chunks (a crash costs a process restart: keep the chunks short)"""
        chunks = [lines[i:i + n] for i in range(0, len(lines), n)]
        outs = list(pool.map(lambda ch: run_resume(exe, ch), chunks))
        res, exits = [], []
        for r, e in outs:
            res += r
            exits += e
        return res, exits

    def base_histories(m):
        """the histories of the base corpus for one module"""
        r = Rng(run.seed * 1000003 + sum(map(ord, m["name"])))
        cs = bm.get(m["name"], [])
        hs = []
        for c in cs:
            enc = {"ber": bytes.fromhex(c["der"]),
                   "uper": bytes.fromhex(c["uper"]) if c["uper"] not in ("NONE", "-") else (b"" if c["uper"] == "-" else None),
                   "oer": bytes.fromhex(c["oer"]) if c["oer"] not in ("NONE", "-") else (b"" if c["oer"] == "-" else None),
                   "xer": bytes.fromhex(c["xer"]) if c.get("xer") else None}
            try:
                enc["alt"] = ber_alt(m["trees"][c["tn"]], parse_val(c["vs"])[0], r)
            except (ValueError, IndexError, TypeError, OverflowError):
                enc["alt"] = None
            for kind, s, ops in histories(r, c, enc, tier):
                hs.append({"case": c, "kind": kind, "syn": s, "ops": ops, "enc": enc})
        return hs

    def work(unit):
        """all histories of one module: base runs, then the failing replays.  Returns records"""
        m, hs = unit
        r = Rng(run.seed * 1000003 + 17 + sum(map(ord, m["name"])))
        base, exits = chunked(m["exe"], ["hist %s %s" % (h["case"]["tn"], ";".join(h["ops"])) for h in hs])
        reps = []
        sigs = set()
        for h, (o, err) in zip(hs, base):
            h["out"], h["err"] = o, err
            h["parsed"] = parse_hist(o) if o else None
            if not h["parsed"] or h.get("nofail"):
                continue
            if h.get("sig"):
                # fault sweeps: one representative per outcome signature is replayed with failing allocations;
                # every failure INSIDE an OER open type container is (the clean-up under test sits there)
                d0 = h["parsed"][0]
                inside = h["kind"] == "x-container" or (h["syn"] == "oer" and d0.get("rc") == "FAIL" and h.get("val") and
                                                        any(off <= h.get("pos", -1) < off + ln for off, ln in h["val"].get("oer_containers", [])))
                sg = (h["case"]["tn"], h["syn"], h["kind"], tuple((d["op"], d.get("rc"), d.get("c") if tier != "quick" else None, d.get("a"), d.get("live")) for d in h["parsed"][:-1]))
                if sg in sigs and not inside:
                    continue
                sigs.add(sg)
            for i, d in enumerate(h["parsed"][:-1]):
                if h.get("fail_ops") is not None and i not in h["fail_ops"]:
                    continue
                if d["op"] in ("dec", "decr", "enc", "mrt", "nb", "unb", "xeq") and int(d.get("a", "0")) > 0 and "skip" not in d:
                    for k in ks_for(r, int(d["a"]), tier):
                        reps.append({"h": h, "i": i, "k": k, "ops": with_fail(h["ops"], i, k)})
        ro, exits2 = chunked(m["exe"], ["hist %s %s" % (x["h"]["case"]["tn"], ";".join(x["ops"])) for x in reps])
        exits = exits + exits2
        for x, (o, err) in zip(reps, ro):
            x["out"], x["err"] = o, err
        return m, hs, reps, exits

    units = [(m, base_histories(m)) for m in mods]
    try:
        xunits = c14x_layer.units(run, tier, model)
    except (BuildError, RuntimeError) as e:
        run.violation("build", {"what": "c14x layer: " + str(e)[-2500:]}, no_input=True)
        xunits = []
    tlog("c14x layer built: %d modules, %d histories" % (len(xunits), sum(len(hs) for _, hs in xunits)))
    units += xunits
    try:
        wunits = [] if os.environ.get("C14W_OFF") else c14w_layer.units(run, tier, model)
    except (BuildError, RuntimeError) as e:
        run.violation("build", {"what": "c14w layer: " + str(e)[-2500:]}, no_input=True)
        wunits = []
    tlog("c14w layer built: %d modules, %d histories" % (len(wunits), sum(len(hs) for _, hs in wunits)))
    units += wunits
    pool = ThreadPoolExecutor(max_workers=NCPU)
    with ThreadPoolExecutor(max_workers=len(units) or 1) as ex:
        results = list(ex.map(work, units))
    pool.shutdown()

    tlog("histories run")
    nrep = 0
    for m, hs, reps, exits in results:
        for err in exits:
            run.violation("crash:exit-status", {"what": "moddrv exited with a bad status after answering every line (report at exit)",
                                                "module": m["text"], "stderr_tail": err[-2500:]})
        # the decode of some bytes into a NULL pointer, keyed by (type, op text): the reference of every decode after a reset
        fresh = {}
        for h in hs:
            if h["kind"] in ("fresh", "fresh-x") and h["parsed"]:
                fresh[(h["case"]["tn"], h["ops"][0])] = {"p": h["parsed"], "ops": h["ops"]}
        for h in hs:
            c = h["case"]
            line = "hist %s %s" % (c["tn"], ";".join(h["ops"]))
            run.case(line)
            run.count("hist_" + h["kind"])
            run.count("syn_" + h["syn"] + ("_x" if h.get("layer") else ""))
            rep = {"module": m["text"], "asn1c_opts": " ".join(m.get("opts", ("-fcompound-names",))), "type": c["tn"], "model_type": c["ts"], "value": c["vs"], "history": h["kind"], "command_line": line,
                   "replay_cmd": "echo '%s' | <moddrv of the module built with %s and MODDRV_EXTRA=harness/moddrv_c14.inc>" % (line, WRAP[0])}
            if not h["parsed"]:
                run.violation("crash:history", dict(rep, what="moddrv died or printed an unparsable line on a history without allocation failure",
                                                    c=h["out"], stderr_tail=(h["err"] or "")[-2500:]))
                continue
            check_history(run, rep, h, h["parsed"], None, fresh)
        for x in reps:
            nrep += 1
            h = x["h"]
            c = h["case"]
            line = "hist %s %s" % (c["tn"], ";".join(x["ops"]))
            run.case(line)
            o0 = h["ops"][x["i"]].split(":")
            run.count("allocfail_%s_%s%s" % (h["parsed"][x["i"]]["op"], o0[-1 if h["parsed"][x["i"]]["op"] == "mrt" else 1] if len(o0) > 1 else "-", "_x" if h.get("layer") else ""))
            rep = {"module": m["text"], "asn1c_opts": " ".join(m.get("opts", ("-fcompound-names",))), "type": c["tn"], "model_type": c["ts"], "value": c["vs"], "history": h["kind"], "command_line": line,
                   "failing_op_index": x["i"], "failing_allocation": x["k"], "allocations_of_op": int(h["parsed"][x["i"]]["a"]),
                   "replay_cmd": "echo '%s' | <moddrv of the module built with %s and MODDRV_EXTRA=harness/moddrv_c14.inc>" % (line, WRAP[0])}
            p = parse_hist(x["out"]) if x.get("out") else None
            if not p:
                run.violation("crash:alloc-failure", dict(rep, what="moddrv died when allocation %d of op %d (%s) returned NULL" % (x["k"], x["i"], x["ops"][x["i"]].split(":")[0]),
                                                          c=x.get("out"), stderr_tail=(x.get("err") or "")[-2500:]))
                continue
            check_history(run, rep, h, p, x, fresh)
        if hs:
            run.sample({"type": hs[0]["case"]["ts"], "history": ";".join(hs[0]["ops"])[:200], "c": (hs[0]["out"] or "")[:300]})
    tlog("oracle done")
    if not os.environ.get("C14X_NOPOST"):        # (development switch: the C-side oracle alone)
        c14x_layer.post(run, results, model)
    if not os.environ.get("C14W_NOPOST"):
        c14w_layer.post(run, results, model)
    tlog("c14x faithfulness done")
    if os.environ.get("C14_DUMP"):
        json.dump(run.violations, open(os.environ["C14_DUMP"], "w"), indent=1)
    tb = ["Coq 8.16.1 kernel", "axioms under Print Assumptions: " + (", ".join(sorted(axioms)) or "none (Closed under the global context)"),
          "harness/allocwrap.c (ledger, quarantine, failure trigger), harness/moddrv_c14.inc, harness/moddrv.c, GNU ld --wrap, gcc + ASan/UBSan",
          "lib/modgen.py, lib/modcorpus.py (corpus), lib/extgen.py + lib/c14x_layer.py (second layer), the extracted codec model (encodings of the values)",
          "the real allocator and the detection of double frees are runtime facts: the theorems speak about the ownership discipline of the model"]
    return run.finish("proof", (nthm, ndis), trusted_base=tb,
                      checker_cmd="make -C /verif all && coqc -Q coq A1 coq/Props/Properties_C14.v",
                      extra_cov={"theorems": names, "modules": len(mods), "alloc_failure_replays": nrep,
                                 "rule": "one case = one history (<= 6 ops on one structure pointer) or one replay of it with one allocation failing; distinct command lines",
                                 "traces_validated_against_impl": run.cov["evaluations"]},
                      assumptions=["partial: the proof carries the ownership discipline of the model (what a structure owns, what free/reset release); the C's allocator behaviour is observed by the ledger on the explored histories only",
                                   "base corpus: types of the modelled algebra, values small (DER <= %d octets); the c14x layer exercises every other type kind on hand-written modules "
                                   "(oracle on the C alone; model tie for leaf structures on the byte level and for failures inside OER open type containers)" % (maxder // 2)])


if __name__ == "__main__":
    sys.exit(main(sys.argv[1] if len(sys.argv) > 1 else "quick"))
