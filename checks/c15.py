"""C15 — bounded stack and heap (partial: bounds proved on a model, tied at run time).
Theorems: coq/Props/Properties_C15.v over coq/Rt/Depth.v (decoder call graph with
stack guards; value size of the reference decoders).
Tie:
 (T) the guard table (which decoder evaluates ASN__STACK_OVERFLOW_CHECK) is
     re-extracted from the skeleton sources of the working tree and compared with
     the reviewed harness/c15_guards.json; the call graphs of the check's recursive
     modules are built from it and given to the extracted model, which decides
     "every cycle passes a guard" per transfer syntax and type;
 (D) adversarial inputs, ONE CHILD PROCESS per input under setrlimit(RLIMIT_STACK):
     nesting depth 10..10^5 for every recursive type in BER (definite/indefinite),
     UPER, OER, XER, nested constructed strings, nested skipped TLVs; default and
     caller-supplied max_stack_size; ASan/UBSan build and plain -O1 build.
     faithfulness: model GUARDED  <->  the C never dies and refuses deep input,
                   model UNGUARDED <-> the C dies of stack exhaustion at depth 10^5;
     oracle (the property on the C): no signal / sanitizer report, RC_FAIL (or
     RC_WMORE) once 16*depth exceeds the limit, measured stack extent <= limit + slack;
 (D) length bombs and zero-width elements with a peak-live-bytes meter
     (harness/moddrv_c15.inc): peak <= c*n + K with the constants of notes/design/C15.md;
 (S) the declared-size sweep (lib/c15_sweep.py): every type with a declared size / count /
     length x SIZE ranges at and beyond 64K x UPER, OER, BER, XER x {short valid, truncated,
     length field beyond the input, second fragment starved, random}; oracle: peak AND the
     largest single REQUEST (granted or not: refusing allocator) <= c*n + K where K never
     depends on a bound of a SIZE range; a short valid input must decode;
     faithfulness: the extracted allocation-metered decoders of coq/Rt/HeapBound.v
     (c15_str / c15_lst, policy PerFragment) predict peak, largest request and number of
     allocations of the C for every UPER string / list input;
 (N) the nested-collection sweep (lib/c15_nested.py): lists of lists (depth 1..4, through SEQUENCE members and
     CHOICE alternatives) of zero-width and near-zero-width elements x OER, UPER, BER, XER x inner counts as
     large as the rest of the input allows x n, 4n, 16n; oracle: peak / largest request / allocation count
     <= c*n + K, peak/n and allocs/n must not grow from n to 4n, conforming encodings decode;
     faithfulness: the extracted OER list-of-lists decoder of coq/Rt/HeapOer.v (c15_oll, guard PerElement)
     predicts outcome, consumed octets, peak, largest request and allocation count exactly."""
import sys, os, json
from concurrent.futures import ThreadPoolExecutor
sys.path.insert(0, os.path.join(os.path.dirname(os.path.abspath(__file__)), "..", "lib"))
from vlib import *
from modbuild import *
import c15_util as U

MOD_A = """C15A DEFINITIONS IMPLICIT TAGS ::= BEGIN
T ::= SEQUENCE { next T OPTIONAL }
L ::= SEQUENCE OF L
S ::= SET OF S
C ::= CHOICE { c [0] C, n [1] NULL }
X ::= SEQUENCE { x [0] EXPLICIT X OPTIONAL }
M ::= CHOICE { s [0] SEQUENCE { m M OPTIONAL }, n [1] NULL }
E ::= SEQUENCE { a BOOLEAN, ..., e E OPTIONAL }
END
"""
MOD_B = """C15B DEFINITIONS IMPLICIT TAGS ::= BEGIN
O ::= OCTET STRING
B ::= BIT STRING
A ::= SEQUENCE { a ANY }
Y ::= SEQUENCE { a BOOLEAN, ... }
O5 ::= OCTET STRING (SIZE(5))
O64k ::= OCTET STRING (SIZE(0..65535))
U ::= UTF8String
N ::= INTEGER
OI ::= OBJECT IDENTIFIER
END
"""
MOD_C = """C15C DEFINITIONS IMPLICIT TAGS ::= BEGIN
QN ::= SEQUENCE OF NULL
SN ::= SET OF NULL
QB ::= SEQUENCE OF BOOLEAN
QNs ::= SEQUENCE (SIZE(0..65535)) OF NULL
SNs ::= SET (SIZE(0..1000)) OF NULL
QBs ::= SEQUENCE (SIZE(0..65535)) OF BOOLEAN
QNf ::= SEQUENCE (SIZE(1000)) OF NULL
QE ::= SEQUENCE OF SEQUENCE {}
QI ::= SEQUENCE OF INTEGER (5..5)
QO ::= SEQUENCE OF OCTET STRING (SIZE(0))
END
"""
WRAP = ["-Wl,--wrap=malloc,--wrap=calloc,--wrap=realloc,--wrap=free"]
INC = os.path.join(HARNESS, "moddrv_c15.inc")
DEFAULT_MAX = 30000                 # ASN__DEFAULT_STACK_MAX
MIN_FRAME = 16                      # x86-64: return address + saved frame pointer
# stack extent allowed above the limit: the frames between two evaluations of the check
# (theorem guarded_stack_bound: (R+1) * biggest frame) plus the allocator wrapper; measured
# maxima on this image: 1.3 KiB (plain), 5.9 KiB (ASan)
STK_SLACK = 16384
HAVE_OLL = os.path.exists(os.path.join(COQ, "Rt", "HeapOer.v"))
H = 4096                            # fixed per-decode structures (top-level struct, contexts, small buffers)
P = 24                              # pointer-array bytes per list element at worst: slot x2 capacity slack + old array during realloc
ZW = 201 * (64 + P) + H             # zero-width elements: at most 201 of them (the `> 200` guards), element struct <= 64
NEST_C = {"ber": 64, "uper": 1024, "oer": 160, "xer": 64}     # bytes per input byte for nested recursive values (see notes)
ITERATIVE = {("O", "ber"), ("O", "beri"), ("B", "ber"), ("B", "beri"), ("A", "ber"), ("A", "beri"), ("Y", "ber")}


def mk(text):
    import re
    name = text.split()[0]
    return {"name": name, "text": text, "defs": [(n, None) for n in re.findall(r"^(\w+) ::=", text, flags=re.M)]}


def build(san):
    mods = [mk(MOD_A), mk(MOD_B), mk(MOD_C)]
    build_modules(mods, tag="c15san" if san else "c15plain", san=san, extra_ldflags=WRAP, moddrv_extra=INC)
    exe = {}
    for m in mods:
        for tn, _ in m["defs"]:
            exe[tn] = m
    return mods, exe


def elist(es):
    return ",".join("%d-%d" % e for e in es) or "-"


def nlist(ns):
    return ",".join(str(n) for n in ns) or "-"


def uper_count(n):
    """length determinant(s) for n zero-width elements"""
    out = b""
    while n >= 16384:
        m = min(4, n // 16384)
        out += bytes([0xC0 | m])
        n -= m * 16384
    return out + (bytes([n]) if n < 128 else bytes([0x80 | (n >> 8), n & 0xFF]))


def oer_quantity(n):
    b = n.to_bytes(max(1, (n.bit_length() + 7) // 8), "big")
    return bytes([len(b)]) + b


def ber_long_len(v, k):
    return bytes([0x80 | k]) + v.to_bytes(k, "big")


def heap_cases(rng, tier):
    """(type, syntax, label, bytes, c, K, why)"""
    Hx = bytes.fromhex
    cs = []
    prim = lambda tn, syn, lab, data: cs.append((tn, syn, lab, data, 2, H, "length prefix without data: nothing may be allocated for the announced length"))
    # ---- BER: maximal / huge length prefixes with nothing behind them
    for tn, tag in (("O", "04"), ("N", "02"), ("OI", "06"), ("U", "0c"), ("B", "03"), ("O5", "04"), ("QN", "30"), ("O", "24")):
        prim(tn, "ber", "len=2^31-1", Hx(tag + "847fffffff"))
        prim(tn, "ber", "len=2^63-1", Hx(tag + "887fffffffffffffff"))
        for _ in range(2 if tier == "quick" else 12):
            k = rng.range(2, 8)
            v = rng.range(2**16, 2**(8 * k) - 1) if k > 2 else rng.range(2**15, 2**16 - 1)
            prim(tn, "ber", "len=random", Hx(tag) + ber_long_len(v, k) + rng.bytes(rng.range(0, 48)))
    prim("O", "ber", "constructed,len=2^31-1 inside", Hx("248004847fffffff"))
    prim("A", "ber", "ANY len=2^31-1", Hx("308004847fffffff"))
    # ---- OER
    for tn in ("O", "U", "N", "OI", "B"):
        prim(tn, "oer", "len=2^31-1", Hx("847fffffff"))
        prim(tn, "oer", "len=2^63-1", Hx("887fffffffffffffff"))
        for _ in range(2 if tier == "quick" else 12):
            k = rng.range(2, 8)
            prim(tn, "oer", "len=random", bytes([0x80 | k]) + rng.range(2**15, 2**(8 * k) - 1).to_bytes(k, "big") + rng.bytes(rng.range(0, 48)))
    prim("E", "oer", "extension open type len=2^31-1", Hx("80ff020780847fffffff"))
    prim("Y", "oer", "unknown extension len=2^31-1", Hx("80ff020780847fffffff"))
    # ---- UPER strings: one fragment (<= 64K) may be allocated before its data is demanded
    ustr = lambda tn, lab, data: cs.append((tn, "uper", lab, data, 2, H + 2 * 65537, "UPER string: the current fragment (<= 64K octets) is allocated before it is read"))
    for tn in ("O", "U", "B"):
        ustr(tn, "fragment c4, no data", b"\xc4")
        ustr(tn, "len 16383, no data", Hx("bfff"))
        ustr(tn, "c4 x 1000", b"\xc4" * 1000)
        ustr(tn, "c%d + partial data" % rng.range(1, 4), bytes([0xC0 | rng.range(1, 4)]) + rng.bytes(rng.range(0, 3000)))
    ustr("O", "3 full fragments", (b"\xc4" + b"A" * 65536) * 3 + b"\x00")
    ustr("O64k", "16-bit length 65535, no data", Hx("ffff"))
    cs.append(("E", "uper", "extension open type, fragment c4, no data", Hx("c0") + b"\xc4", 5, H + 65536, "open type buffer: chunk + 4x growth"))
    # ---- zero-width elements with maximal counts
    zero = lambda tn, syn, lab, data: cs.append((tn, syn, lab, data, 2, ZW, "zero-width elements: at most 201 may be kept"))
    counts = [201, 256, 16383, 16384, 65535, 65536, 2**20, 2**31 - 1, 2**32 - 1, 2**32] + [rng.range(201, 2**32) for _ in range(3 if tier == "quick" else 20)]
    for tn in ("QN", "SN", "QE", "QO", "QI"):
        for n in counts:
            zero(tn, "oer", "quantity=%d" % n, oer_quantity(n) + (b"\x05" * 64 if tn == "QI" and n < 300 else b""))
            if n < 2**22:
                zero(tn, "uper", "count=%d" % n, uper_count(n))
        zero(tn, "uper", "c4 x 8", b"\xc4" * 8)
        zero(tn, "uper", "c4 x 1000", b"\xc4" * 1000)
        for n in (0, 1, 200, rng.range(2, 199)):
            zero(tn, "oer", "quantity=%d (kept)" % n, oer_quantity(n) + (b"\x05" * n if tn == "QI" else b""))
            zero(tn, "uper", "count=%d (kept)" % n, uper_count(n))
    zero("QNs", "uper", "16-bit count 65535", Hx("ffff"))
    zero("QNs", "oer", "quantity 65535", Hx("02ffff"))
    zero("SNs", "uper", "10-bit count 1000", Hx("fa00"))
    zero("QNf", "uper", "fixed SIZE(1000), empty input", b"")
    zero("QNf", "oer", "fixed SIZE(1000)", Hx("0203e8"))
    # ---- elements of small positive width: heap proportional to the input
    lst = lambda tn, syn, lab, data, wbits, esz: cs.append((tn, syn, lab, data, -(-8 * (esz + P) // wbits), H, "list: %d-byte element + %d bytes of pointer array per %d input bits" % (esz, P, wbits)))
    k = rng.range(5000, 20000)
    lst("QN", "ber", "%d NULLs" % k, b"\x30\x80" + b"\x05\x00" * k + b"\x00\x00", 16, 4)
    lst("QB", "ber", "%d BOOLEANs" % k, b"\x30\x80" + b"\x01\x01\xff" * k + b"\x00\x00", 24, 4)
    lst("QB", "uper", "65536 BOOLEANs", b"\xc4" + rng.bytes(8192) + b"\x00", 1, 4)
    lst("QB", "uper", "fragment c4, no data", b"\xc4", 1, 4)
    lst("QBs", "uper", "16-bit count 65535 + data", Hx("ffff") + rng.bytes(8192), 1, 4)
    lst("QBs", "uper", "16-bit count 65535, no data", Hx("ffff"), 1, 4)
    lst("QB", "oer", "quantity 2^32-1, 1000 octets", Hx("04ffffffff") + b"\xff" * 1000, 8, 4)
    lst("QB", "oer", "%d BOOLEANs" % k, oer_quantity(k) + b"\xff" * k, 8, 4)
    lst("QN", "xer", "%d NULLs" % k, b"<QN>" + b"<NULL/>" * k + b"</QN>", 56, 4)
    lst("QB", "xer", "%d BOOLEANs" % k, b"<QB>" + b"<true/>" * k + b"</QB>", 56, 4)
    cs.append(("O", "xer", "50000 octets", b"<O>" + b"41" * 50000 + b"</O>", 2, H, "XER OCTET STRING: buffer doubling"))
    return cs


# ---------------------------------------------------------------- (S) the declared-size sweep
STRUCT = {"str": 40, "BS": 48, "lst": 48}     # OCTET_STRING_t, BIT_STRING_t, A_SEQUENCE_OF(x) + ctx on LP64


def sweep_bound(t, syn, wrap):
    """(c, K, why) for a swept type; K never mentions lb / ub of the SIZE constraint"""
    if t is None:                                   # INTEGER / ENUMERATED / OID / REAL / time contents
        return 2, H + 3 * 65536 + 2, "length-prefixed primitive: one fragment (<= 64K octets) is allocated before it is read (UPER, as an unconstrained string); length compared with the input first (OER, BER)"
    if t.is_str:
        Ub = max(1, t.bpc)
        if syn == "uper":
            c, K, why = -(-16 * Ub // t.ubits), H + 3 * 65536 * Ub + 2, "theorem str_heap_frag_bound: w*peak <= 2*U*bits + w*(3*65536*U + 2), w=%d U=%d" % (t.ubits, Ub)
        elif syn == "xer":
            c, K, why = 8, H, "XER string: buffer doubling, old + new block during realloc, up to 4 bytes per character"
        else:
            c, K, why = 4, H, "length compared with the input before allocating; constructed BER: buffer doubling (old + new block)"
    else:
        per = t.esz + P + 8                         # element + pointer array share + a transient of the element decoder
        if syn == "uper":
            c, K, why = 8 * per, H + per * 201 + 64, "theorem lst_heap_bound: at most bits + 201 elements are held, (esz + 24) bytes each"
        elif syn == "oer":
            c, K, why = per, ZW, "one element per input octet, at most 201 zero-width elements"
        else:
            c, K, why = per, H, "one element per >= 2 input octets"
    if wrap == "X" and syn in ("uper", "oer"):
        c, K = c + 5, K + H + 65536
    elif wrap:
        K += H
    return c, K, why


def sweep(run, rng, tier, model, inp):
    import c15_sweep as SW
    ts = SW.make_types(rng)
    byname = {t.name: t for t in ts}
    text = SW.module_text(ts)
    mods = {}
    for b in ("san", "plain"):
        m = mk(text)
        build_modules([m], tag="c15d" + b, san=(b == "san"), extra_ldflags=WRAP, moddrv_extra=INC)
        if not m.get("exe"):
            run.violation("build:module", {"what": "asn1c rejected the sweep module or its code does not compile", "module": text[:3000],
                                           "asn1c_out": m.get("asn1c_out", "")[-1500:], "build_log": m.get("build_log", "")[-1500:]}, no_input=True)
            return {}
        mods[b] = m
    cases = []          # (type name, syn, label, data, expect, T | None, wrap)
    for t in ts:
        for syn, lab, data, exp in SW.cases_for(t, rng, tier):
            cases.append((t.name, syn, lab, data, exp, t, None))
    for tn, syn, lab, data, exp, t in SW.wrapped_cases(byname, rng):
        cases.append((tn, syn, lab, data, exp, t, tn[0]))
    for tn, syn, lab, data, exp in SW.leaf_cases(rng):
        cases.append((tn, syn, lab, data, exp, None, None))
    jobs = []
    for i, (tn, syn, lab, data, exp, t, wrap) in enumerate(cases):
        if len(data) > 2048:
            path = os.path.join(inp, "s_%d.bin" % i)
            open(path, "wb").write(data)
            arg = "@" + path
        else:
            arg = data.hex() or "-"
        # the plain build (glibc allocator) sees the UPER and OER cases: that is where sizes are declared, not delivered
        for b in ("san", "plain") if syn in ("uper", "oer") and lab.split()[0] not in ("random",) else ("san",):
            jobs.append({"i": i, "build": b, "line": "dmeterb %s %s %s -1" % (tn, syn, arg)})
    CH = 64
    chunks = []
    for b in ("san", "plain"):
        js = [j for j in jobs if j["build"] == b]
        chunks += [(b, js[k:k + CH]) for k in range(0, len(js), CH)]

    def go(ch):
        b, js = ch
        exe = mods[b]["exe"]
        rc, out, err = run_lines(exe, [j["line"] for j in js], timeout=300, env=SAN_ENV)
        if rc == 0 and len(out) == len(js):
            for j, o in zip(js, out):
                j["out"], j["crash"] = o, None
        else:       # something died: one process per line, to attribute it
            for j in js:
                r = U.run_child(exe, j["line"], 8192, timeout=60, env=SAN_ENV)
                j["out"], j["crash"], j["err"] = r["out"], (r["why"] if r["crash"] else None), r["err"]
        return ch
    with ThreadPoolExecutor(NCPU) as ex:
        list(ex.map(go, chunks))
    # ---- the model's prediction for every top-level UPER string / list case
    mlines, mjobs = [], {}
    for i, (tn, syn, lab, data, exp, t, wrap) in enumerate(cases):
        if syn != "uper" or t is None or wrap:
            continue
        if len(data) > 70000 and tier == "quick" and t.kind not in ("OS", "QB"):
            continue
        if t.is_str and t.kind in ("PR", "VS", "NS") and any(w in lab for w in ("random", "partial", "some data")):
            continue        # restricted alphabets: a code outside the alphabet ends the C decode early (not modelled)
        src = data.hex() or "-"
        if len(data) > 2048:
            src = "@" + os.path.join(inp, "s_%d.bin" % i)
        sc = "%d,%s,%d" % (t.p_lb, "-" if t.p_ub is None else str(t.p_ub), 1 if t.p_ext else 0) if t.p_sized else "0,-,0"
        if t.is_str:
            mlines.append("c15_str P %d %d %s %s" % (t.ubits, t.bpc, sc, src))
        else:
            mlines.append("c15_lst P %d %d %s %s" % (t.ubits, t.esz, sc, src))
        mjobs[i] = len(mlines) - 1
    mout = []
    if mlines:
        MCH = max(1, len(mlines) // NCPU + 1)
        parts = [mlines[k:k + MCH] for k in range(0, len(mlines), MCH)]
        with ThreadPoolExecutor(NCPU) as ex:
            res = list(ex.map(lambda ls: run_lines(model, ls, timeout=600), parts))
        for (rcm, o, e), ls in zip(res, parts):
            if rcm != 0 or len(o) != len(ls):
                raise RuntimeError("model driver failed on the sweep: " + e[-500:])
            mout += o
    # ---- oracle and faithfulness (violations are reported oracle first: they carry the failing input)
    viol = []
    emit = lambda kind, replay: viol.append((0 if kind.startswith("oracle:heap(") else 1 if kind.startswith("oracle") else 2, len(viol), kind, replay))
    stats = {"cases": len(cases), "jobs": len(jobs), "types": len(ts) + 3 * len(SW.WRAPPED) + 10, "model_compared": 0, "valid_ok": 0, "refused_requests": 0}
    tight = []
    for j in jobs:
        tn, syn, lab, data, exp, t, wrap = cases[j["i"]]
        n = len(data)
        desc = "sweep %s %s %s [%s]" % (tn, syn, lab, j["build"])
        run.case(desc)
        run.count("sweep_%s" % syn)
        w0 = lab.split()[0].rstrip(",")
        run.count("sweep_shape_" + ("long" if w0.isdigit() else w0))
        replay = {"module_line": next((l for l in text.split("\n") if l.startswith(tn + " ::=")), tn), "type": tn, "syntax": syn, "command_line": j["line"],
                  "input_bytes": n, "input_head": data[:48].hex(), "build": j["build"], "label": lab, "seed": run.seed,
                  "how_to_regenerate": "lib/c15_sweep.py: make_types(Rng(seed)) / cases_for; module C15D"}
        if j["crash"]:
            emit("oracle:heap(%s,%s)" % (tn, syn), dict(replay, what="decoder process died: %s" % j["crash"], stderr_tail=j.get("err", "")[-1500:], c=j["out"]))
            continue
        o = U.parse_dmeter(j["out"])
        if o is None:
            emit("oracle:driver", dict(replay, what="unexpected driver output", c=j["out"]))
            continue
        run.count("rc_" + o["rc"])
        stats["refused_requests"] += o.get("refused", 0)
        c, K, why = sweep_bound(t, syn, wrap)
        slack = 0 if j["build"] == "san" else 32 * o["allocs"]         # glibc: usable size >= request
        worst = max(o["peak"], o["maxreq"])
        if j["build"] == "san":
            tight.append((round(worst / float(c * n + K), 3), desc, "peak=%d maxreq=%d n=%d bound=%d*n+%d" % (o["peak"], o["maxreq"], n, c, K)))
        if o["peak"] > c * n + K + slack or o["maxreq"] > c * n + K:
            emit("oracle:heap(%s,%s)" % (tn, syn),
                          dict(replay, what="%s %d bytes for %d input bytes exceeds %d*n + %d (%s); the constant may not depend on a bound of a SIZE range"
                               % ("largest single request" if o["maxreq"] > c * n + K else "peak live heap", o["maxreq"] if o["maxreq"] > c * n + K else o["peak"], n, c, K, why),
                               c=j["out"], bound={"c": c, "K": K}, refused=o.get("refused", 0)))
            continue
        if o["left"] != 0:
            emit("oracle:heap-left(%s,%s)" % (tn, syn), dict(replay, what="%d bytes still live after ASN_STRUCT_FREE" % o["left"], c=j["out"]))
        if exp == "valid":
            if o["rc"] != "OK" or o["consumed"] != n:
                emit("oracle:valid-refused(%s,%s)" % (tn, syn), dict(replay, what="a short valid encoding is answered %s consumed=%d of %d" % (o["rc"], o["consumed"], n), c=j["out"]))
            else:
                stats["valid_ok"] += 1
        # faithfulness: the metered model decoder against the C's meter
        if j["i"] in mjobs and j["build"] == "san":
            ml = mout[mjobs[j["i"]]]
            f = ml.split()
            mok = f[0] == "OK"
            md = dict(kv.split("=") for kv in f[(3 if mok else 1):])
            mpeak, mreq, mall = int(md["peak"]), int(md["maxreq"]), int(md["allocs"])
            S_ = STRUCT["BS" if t.kind == "BS" else "str" if t.is_str else "lst"]
            tol = 0 if t.is_str else t.esz + 16
            extra_allocs = 0 if t.is_str else None
            bad = []
            zero_bits = mok and int(f[2]) == 8 * n            # uper_decode turns "RC_OK, no bit consumed" into RC_WMORE / RC_FAIL
            if mok != (o["rc"] == "OK") and not zero_bits:
                bad.append("outcome: model %s, C %s" % (f[0], o["rc"]))
            if not (mpeak + S_ <= o["peak"] <= mpeak + S_ + tol):
                bad.append("peak: model %d + struct %d, C %d" % (mpeak, S_, o["peak"]))
            if max(mreq, S_) != o["maxreq"] and not (not t.is_str and o["maxreq"] <= max(mreq, S_)):
                bad.append("largest request: model %d, C %d" % (max(mreq, S_), o["maxreq"]))
            if t.is_str and mall + 1 != o["allocs"]:
                bad.append("allocations: model %d + 1, C %d" % (mall, o["allocs"]))
            stats["model_compared"] += 1
            if bad:
                emit("correspondence:HeapBound.%s(%s)" % ("str_dec" if t.is_str else "lst_dec", tn),
                              dict(replay, what="the allocation-metered model decoder (policy PerFragment) and the C disagree: " + "; ".join(bad), model=ml, c=j["out"],
                                   model_command=mlines[mjobs[j["i"]]]))
        if len(run.cov["samples"]) < 14 and rng.chance(1, 400):
            run.sample({"type": tn, "syntax": syn, "input": lab, "n": n, "c_output": j["out"], "bound": "%d*n+%d" % (c, K)})
    nth = {}
    ranked = []
    for pr, idx, kind, replay in viol:            # one of every kind first (vlib keeps the first 20), oracle kinds before correspondence
        nth[kind] = nth.get(kind, 0) + 1
        ranked.append((nth[kind] - 1, pr, idx, kind, replay))
    for _, _, _, kind, replay in sorted(ranked, key=lambda v: v[:3]):
        run.violation(kind, replay)
    stats["tightest"] = sorted(tight, reverse=True)[:12]
    return stats


# ---------------------------------------------------------------- (N) the nested-collection sweep
def nested(run, rng, tier, model, inp):
    """lists of lists (depth 1..4, also through SEQUENCE members and CHOICE alternatives) of zero-width and
    near-zero-width elements, inner counts as large as the REST of the input allows; three oracles on the C
    alone: peak / largest request / allocation count against c*n + K, growth of peak/n and allocs/n from n to
    4n, a conforming encoding must decode; faithfulness: the extracted OER list-of-lists decoder of
    coq/Rt/HeapOer.v (guard PerElement) predicts outcome, peak, largest request and allocation count."""
    import c15_nested as NS
    ts, text = NS.make_types(tier)
    m = mk(text)
    build_modules([m], tag="c15n", san=True, extra_ldflags=WRAP, moddrv_extra=INC)
    if not m.get("exe"):
        run.violation("build:module", {"what": "asn1c rejected the nested-collection module or its code does not compile", "module": text[:3000],
                                       "asn1c_out": m.get("asn1c_out", "")[-1500:], "build_log": m.get("build_log", "")[-1500:]}, no_input=True)
        return {}
    cases = NS.cases(ts, rng, tier)
    jobs = []
    for i, (t, syn, fam, n0, data, exp) in enumerate(cases):
        c, K, ca, Ka = NS.bound(t, syn)
        if len(data) > 1024:
            path = os.path.join(inp, "nl_%d.bin" % i)
            open(path, "wb").write(data)
            arg = "@" + path
        else:
            arg = data.hex() or "-"
        # the refusing allocator stops a decode a little above twice the bound: a quadratic decoder costs a few MiB, not 256
        cap = 2 * (c * len(data) + K) + (1 << 20)
        jobs.append({"i": i, "arg": arg, "line": "dmeterc %s %s %s -1 %d" % (t.name, syn, arg, cap)})
    CH = 48
    chunks = [jobs[k:k + CH] for k in range(0, len(jobs), CH)]

    def go(js):
        rc, out, err = run_lines(m["exe"], [j["line"] for j in js], timeout=300, env=SAN_ENV)
        if rc == 0 and len(out) == len(js):
            for j, o in zip(js, out):
                j["out"], j["crash"] = o, None
        else:
            for j in js:
                r = U.run_child(m["exe"], j["line"], 8192, timeout=120, env=SAN_ENV)
                j["out"], j["crash"], j["err"] = r["out"], (r["why"] if r["crash"] else None), r["err"]
        return js
    with ThreadPoolExecutor(NCPU) as ex:
        list(ex.map(go, chunks))
    # ---- the model's prediction: plain chains of NULL / BOOLEAN in OER
    mlines, mjobs = [], {}
    for j in jobs:
        t, syn, fam, n0, data, exp = cases[j["i"]]
        ms = t.model_str()
        if HAVE_OLL and syn == "oer" and ms and len(data) <= 4000:
            mlines.append("c15_oll G %s %s" % (ms, j["arg"]))
            mjobs[j["i"]] = len(mlines) - 1
    mout = []
    if mlines:
        MCH = max(1, len(mlines) // NCPU + 1)
        parts = [mlines[k:k + MCH] for k in range(0, len(mlines), MCH)]
        with ThreadPoolExecutor(NCPU) as ex:
            res = list(ex.map(lambda ls: run_lines(model, ls, timeout=600), parts))
        for (rcm, o, e), ls in zip(res, parts):
            if rcm != 0 or len(o) != len(ls):
                raise RuntimeError("model driver failed on the nested sweep: " + e[-500:])
            mout += o
    viol = []
    emit = lambda kind, replay: viol.append((0 if kind.startswith("oracle:heap") else 1 if kind.startswith("oracle") else 2, len(viol), kind, replay))
    stats = {"types": len(ts), "cases": len(cases), "model_compared": 0, "valid_ok": 0, "refused_requests": 0, "growth_pairs": 0}
    tight, series = [], {}
    for j in jobs:
        t, syn, fam, n0, data, exp = cases[j["i"]]
        n = len(data)
        desc = "nested %s %s %s n=%d" % (t.name, syn, fam, n)
        run.case(desc)
        run.count("nested_%s" % syn)
        run.count("nested_fam_%s" % fam)
        run.count("nested_depth_%d" % t.depth)
        run.count("nested_kind_%s" % t.kind)
        replay = {"module_lines": [l for l in text.split("\n") if l.split(" ::=")[0] in (t.name, "L1" + t.kind)] + ["(module C15N, lib/c15_nested.make_types)"], "type": t.name, "syntax": syn,
                  "command_line": j["line"], "input_bytes": n, "input_head": data[:48].hex(), "family": fam, "depth": t.depth, "element": NS.KINDS[t.kind][0], "seed": run.seed,
                  "how_to_regenerate": "lib/c15_nested.py: cases(make_types(tier)[0], Rng(seed), tier); module C15N"}
        if j["crash"]:
            emit("oracle:heap(%s,%s)" % (t.name, syn), dict(replay, what="decoder process died: %s" % j["crash"], stderr_tail=j.get("err", "")[-1500:], c=j["out"]))
            continue
        o = U.parse_dmeter(j["out"])
        if o is None:
            emit("oracle:driver", dict(replay, what="unexpected driver output", c=j["out"]))
            continue
        run.count("rc_" + o["rc"])
        stats["refused_requests"] += o.get("refused", 0)
        c, K, ca, Ka = NS.bound(t, syn)
        worst = max(o["peak"], o["maxreq"])
        tight.append((round(worst / float(c * n + K), 3), desc, "peak=%d allocs=%d n=%d bound=%d*n+%d / %d*n+%d" % (o["peak"], o["allocs"], n, c, K, ca, Ka)))
        if fam in NS.GROWTH_FAMS:
            series.setdefault((t.name, syn, fam), []).append((n, o, j, replay))
        if worst > c * n + K or o["allocs"] > ca * n + Ka:
            what = ("peak live heap %d bytes" % o["peak"]) if o["peak"] > c * n + K else ("largest single request %d bytes" % o["maxreq"]) if worst > c * n + K else "%d allocations" % o["allocs"]
            emit("oracle:heap(%s,%s)" % (t.name, syn),
                 dict(replay, what="%s for %d input bytes exceeds %s (nested collection, depth %d, inner counts of family `%s`)"
                      % (what, n, ("%d*n + %d" % (c, K)) if worst > c * n + K else ("%d*n + %d allocations" % (ca, Ka)), t.depth, fam), c=j["out"], bound={"c": c, "K": K, "ca": ca, "Ka": Ka}, refused=o.get("refused", 0)))
            continue
        if o["left"] != 0:
            emit("oracle:heap-left(%s,%s)" % (t.name, syn), dict(replay, what="%d bytes still live after ASN_STRUCT_FREE" % o["left"], c=j["out"]))
        if exp == "valid":
            if o["rc"] != "OK" or o["consumed"] != n:
                emit("oracle:valid-refused(%s,%s)" % (t.name, syn), dict(replay, what="a conforming encoding (family `%s`) is answered %s consumed=%d of %d" % (fam, o["rc"], o["consumed"], n), c=j["out"]))
            else:
                stats["valid_ok"] += 1
        if j["i"] in mjobs:
            ml = mout[mjobs[j["i"]]]
            f = ml.split()
            md = dict(kv.split("=") for kv in f[2:])
            bad = []
            if f[0] != o["rc"]:
                bad.append("outcome: model %s, C %s" % (f[0], o["rc"]))
            elif f[0] == "OK" and int(f[1]) != o["consumed"]:
                bad.append("consumed: model %s, C %d" % (f[1], o["consumed"]))
            for key in ("peak", "maxreq", "allocs"):
                if int(md[key]) != o[key]:
                    bad.append("%s: model %s, C %d" % (key, md[key], o[key]))
            stats["model_compared"] += 1
            if bad:
                emit("correspondence:HeapOer.oll_dec(%s)" % t.name, dict(replay, what="the allocation-metered OER list-of-lists model (guard PerElement) and the C disagree: " + "; ".join(bad),
                                                                            model=ml, c=j["out"], model_command=mlines[mjobs[j["i"]]][:300]))
        if len(run.cov["samples"]) < 18 and rng.chance(1, 150):
            run.sample({"type": t.name, "syntax": syn, "family": fam, "n": n, "c_output": j["out"], "bound": "%d*n+%d" % (c, K)})
    # ---- growth: peak/n and allocs/n must not grow with n (n -> 4n); a linear decoder has a falling or flat ratio
    for (tn, syn, fam), pts in sorted(series.items()):
        pts.sort(key=lambda p: p[0])
        for (n1, o1, j1, _), (n2, o2, j2, rp2) in zip(pts, pts[1:]):
            if n2 < 2 * n1:
                continue
            stats["growth_pairs"] += 1
            run.case("nested growth %s %s %s %d->%d" % (tn, syn, fam, n1, n2))
            for key, floor, add in (("peak", 8192, 32.0), ("allocs", 512, 1.0)):
                r1, r2 = o1[key] / float(n1), o2[key] / float(n2)
                if o2[key] > floor and r2 > 1.5 * r1 + add:
                    emit("oracle:heap-growth(%s,%s)" % (tn, syn),
                         dict(rp2, what="%s per input octet grows with the input: %.1f at n=%d, %.1f at n=%d (family `%s`): super-linear heap" % (key, r1, n1, r2, n2, fam),
                              c=j2["out"], c_smaller=j1["out"], smaller_command_line=j1["line"]))
                    break
    nth, ranked = {}, []
    for pr, idx, kind, replay in viol:
        nth[kind] = nth.get(kind, 0) + 1
        ranked.append((nth[kind] - 1, pr, idx, kind, replay))
    for _, _, _, kind, replay in sorted(ranked, key=lambda v: v[:3]):
        run.violation(kind, replay)
    stats["tightest"] = sorted(tight, reverse=True)[:12]
    return stats


def main(tier):
    run = Run("C15", tier)
    rng = Rng(run.seed)
    ok, out = coq_build()
    nthm, ndis, axioms, names, plog = obligations("C15") if ok else (0, 0, set(), [], out)
    gate = grep_gate()
    if not ok or ndis != nthm or gate:
        run.violation("proof:Properties_C15", {"what": "Coq development does not build or an obligation is open",
                                               "log_tail": (out if not ok else plog)[-2000:], "grep_gate": gate}, no_input=True)
    coqchk = None
    if tier == "thorough" and ok:
        import re
        rck, ko = sh("timeout 900 coqchk -silent -o -Q %s A1 A1.Props.Properties_C15" % COQ, timeout=1000)
        mm = re.search(r"\* Axioms:\s*(.*?)\n\s*\n", ko, flags=re.S)
        coqchk = {"rc": rck, "axioms": (mm.group(1).strip() if mm else "?")}
        if rck != 0 or coqchk["axioms"] != "<none>":
            run.violation("proof:coqchk", {"what": "coqchk rejects the compiled property file or reports axioms", "log_tail": ko[-1500:]}, no_input=True)
    model = model_build()
    # ------------------------------------------------------------ (T) guard table from the sources
    table = json.load(open(os.path.join(HARNESS, "c15_guards.json")))
    skel = os.path.join(REPO, "skeletons")
    facts = U.scan_guards(skel, table)
    for fn, ent in sorted(table["functions"].items()):
        run.case("guard-table %s" % fn)
        run.count("guard_" + facts[fn].split(":")[0])
        if facts[fn] != ent["guard"]:
            run.violation("translator:guard-table(%s)" % fn,
                          {"what": "the skeleton source no longer matches the reviewed guard table: %s in %s is '%s', table says '%s'" % (fn, ent["file"], facts[fn], ent["guard"]),
                           "function": fn, "file": os.path.join(skel, ent["file"])}, no_input=True)
    # model verdicts per syntax and root type, from the EXTRACTED facts
    verdict, cycle = {}, {}
    mlines, mkeys = [], []
    for syn in ("ber", "uper", "oer", "xer"):
        edges = U.edges_for(syn)
        G = U.guarded_nodes(facts, table, syn)
        for tn, root in U.ROOT.items():
            rs = U.reach(edges, root)
            sub = [e for e in edges if e[0] in rs]
            mlines.append("c15_cg 9 %s %s" % (elist(sub), nlist([g for g in G if g in rs])))
            mkeys.append((syn, tn, sub, [g for g in G if g in rs]))
    rcm, mout, merr = run_lines(model, mlines)
    if rcm != 0 or len(mout) != len(mlines):
        raise RuntimeError("model driver failed: " + merr)
    cyc_lines, cyc_keys = [], []
    for (syn, tn, sub, G), o in zip(mkeys, mout):
        run.case("model " + syn + " " + tn)
        verdict[(syn, tn)] = o.startswith("GUARDED")
        run.count("model_" + o.split()[0])
        py = U.find_unguarded_cycle(sub, set(G), U.ROOT[tn])
        # an unguarded cycle may also start behind guarded nodes: search from every unguarded node
        if py is None:
            for v in sorted(U.reach(sub, U.ROOT[tn])):
                py = U.find_unguarded_cycle(sub, set(G), v)
                if py:
                    break
        if (py is None) != verdict[(syn, tn)]:
            run.violation("model:all_cycles_guarded", {"what": "the model's verdict and an independent cycle search disagree", "syntax": syn, "type": tn,
                                                       "model": o, "python": str(py)}, no_input=True)
        if py:
            cycle[(syn, tn)] = py
            cyc_lines.append("c15_cyc %s %s %s %s" % (elist(sub), nlist(G), nlist(py[0]), nlist(py[1])))
            cyc_keys.append((syn, tn))
            cyc_lines.append("c15_run %s %s 64 %d %s %s 100000" % (elist(sub), nlist(G), DEFAULT_MAX, nlist(py[0]), nlist(py[1])))
            cyc_keys.append((syn, tn))
        else:
            # guarded: the depth-indexed run on a 10^5-deep path must fire within max/f + R + 2
            cyc_lines.append("c15_run %s %s 64 %d - %s 100000" % (elist(sub), nlist(G), DEFAULT_MAX, nlist(U.some_cycle(sub, U.ROOT[tn]))))
            cyc_keys.append((syn, tn))
    rcm, cout, merr = run_lines(model, cyc_lines)
    for l, o, (syn, tn) in zip(cyc_lines, cout, cyc_keys):
        run.case(l)
        if l.startswith("c15_cyc"):
            good = o == "CYCLE"
        elif (syn, tn) in cycle:
            good = o == "COMPLETED %d" % (len(cycle[(syn, tn)][0]) + 100000 * len(cycle[(syn, tn)][1]))
        else:       # theorem deep_nesting_fails with f = 64, R <= 1
            good = o.startswith("FIRED") and int(o.split()[1]) <= DEFAULT_MAX // 64 + 4
        if not good:
            run.violation("model:run_path", {"what": "model run disagrees with its own verdict", "command_line": l, "model": o}, no_input=True)
    # ------------------------------------------------------------ build
    try:
        smods, sexe = build(True)
        pmods, pexe = build(False)
    except BuildError as e:
        run.violation("build", {"what": str(e)[-2500:]}, no_input=True)
        return run.finish("proof", (nthm, ndis))
    for m in smods + pmods:
        if not m.get("exe"):
            run.violation("build:module", {"what": "asn1c rejected a C15 module or its code does not compile", "module": m["text"],
                                           "asn1c_out": m.get("asn1c_out", "")[-1500:], "build_log": m.get("build_log", "")[-1500:]}, no_input=True)
            return run.finish("proof", (nthm, ndis))
    inp = os.path.join(scratch(), "c15_inputs")
    os.makedirs(inp, exist_ok=True)
    # ------------------------------------------------------------ (D) nesting
    G = U.gen_nest()
    depths = [10, 100, 1000, 10**4, 10**5] + sorted(int(10 ** (1 + 4 * rng.below(1000) / 1000.0)) for _ in range(2 if tier == "quick" else 8))
    caller = [2000, 10**6] + [rng.range(1000, 2 * 10**6) for _ in range(1 if tier == "quick" else 4)]
    configs = [("san", 8192, -1), ("san", 256, -1), ("plain", 8192, -1), ("plain", 128, -1)]
    configs += [("san", 8192, ms) for ms in caller] + [("plain", 8192, ms) for ms in caller] + [("plain", 8192, 4 * 10**6)]
    jobs = []
    for tn, gs in sorted(G.items()):
        for syn, fn in sorted(gs.items()):
            for d in depths:
                if tn == "E" and syn in ("uper", "oer") and d > 3000:
                    d = 3000 + d % 7          # quadratic generator: the guard fires near depth 100 anyway
                data = fn(d)
                path = os.path.join(inp, "n_%s_%s_%d.bin" % (tn, syn, d))
                if not os.path.exists(path):
                    open(path, "wb").write(data)
                for (b, stack, ms) in configs:
                    jobs.append({"kind": "nest", "tn": tn, "syn": syn, "d": d, "n": len(data), "path": path, "build": b, "stack": stack, "ms": ms})
    # ------------------------------------------------------------ (D) heap
    for i, (tn, syn, lab, data, c, K, why) in enumerate(heap_cases(rng, tier)):
        path = os.path.join(inp, "h_%d.bin" % i)
        open(path, "wb").write(data)
        jobs.append({"kind": "heap", "tn": tn, "syn": syn, "label": lab, "n": len(data), "path": path, "build": "san", "stack": 8192, "ms": -1,
                     "c": c, "K": K, "why": why, "head": data[:24].hex()})

    def go(j):
        exe = (sexe if j["build"] == "san" else pexe)[j["tn"]]["exe"]
        dsyn = "ber" if j["syn"] == "beri" else j["syn"]
        j["line"] = "dmeter %s %s @%s %d" % (j["tn"], dsyn, j["path"], j["ms"])
        j["r"] = U.run_child(exe, j["line"], j["stack"], timeout=60 if j["kind"] == "nest" else 30, env=SAN_ENV)
        return j
    with ThreadPoolExecutor(NCPU) as ex:
        jobs = list(ex.map(go, jobs))

    max_stk = {"san": 0, "plain": 0}
    tight = []
    deep_crash = {}          # (syn, tn) -> crashed at depth 10^5 under the small stack?
    for j in jobs:
        r = j["r"]
        tn, syn = j["tn"], j["syn"]
        msyn = "ber" if syn == "beri" else syn
        desc = "%s %s %s" % (j["kind"], tn, syn) + (" d=%d" % j["d"] if j["kind"] == "nest" else " " + j["label"]) + " [%s stack=%dK max_stack=%d]" % (j["build"], j["stack"], j["ms"])
        run.case(desc)
        run.count("%s_%s" % (j["kind"], syn))
        replay = {"module": (sexe if j["build"] == "san" else pexe)[tn]["text"], "type": tn, "syntax": syn, "command_line": j["line"], "input_bytes": j["n"],
                  "input_head": open(j["path"], "rb").read(48).hex(), "build": j["build"], "rlimit_stack_kb": j["stack"], "max_stack_size": j["ms"],
                  "how_to_regenerate": ("lib/c15_util.gen_nest()['%s']['%s'](%d)" % (tn, syn, j["d"])) if j["kind"] == "nest" else j["label"], "seed": run.seed}
        recursive = j["kind"] == "nest" and (tn, syn) not in ITERATIVE
        in_graph = tn in U.ROOT
        guarded = verdict.get((msyn, tn), True)
        if r["crash"]:
            run.count("crash")
            if j["kind"] == "nest" and j["d"] >= 10**5 and j["stack"] <= 256:
                deep_crash[(msyn, tn)] = True
            run.violation("oracle:%s(%s,%s)" % ("nesting" if j["kind"] == "nest" else "heap", tn, syn),
                          dict(replay, what="decoder process died: %s" % r["why"], stderr_tail=r["err"][-1500:], c=r["out"]))
            continue
        if r["out"].startswith("HEAPCAP"):
            run.violation("oracle:heap(%s,%s)" % (tn, syn), dict(replay, what="live heap exceeded the meter's 256 MiB cap while decoding %d input bytes (decompression bomb)" % j["n"], c=r["out"]))
            continue
        o = U.parse_dmeter(r["out"])
        if o is None:
            run.violation("oracle:driver", dict(replay, what="unexpected driver output", c=r["out"]))
            continue
        run.count("rc_" + o["rc"])
        limit = DEFAULT_MAX if j["ms"] < 0 else j["ms"]
        if j["kind"] == "nest":
            if j["d"] >= 10**5 and j["stack"] <= 256:
                deep_crash.setdefault((msyn, tn), False)
            # the guard must have refused: a recursive decoder cannot be 16*d bytes deep within the limit
            if recursive and MIN_FRAME * j["d"] > limit + STK_SLACK and o["rc"] == "OK" and (guarded or not in_graph):
                run.violation("oracle:nesting(%s,%s)" % (tn, syn), dict(replay, what="nesting depth %d decoded within max_stack_size %d: the stack limit does not limit" % (j["d"], limit), c=r["out"]))
            if recursive and (guarded or not in_graph):
                max_stk[j["build"]] = max(max_stk[j["build"]], o["stk"] - min(o["stk"], limit))
                if o["stk"] > limit + STK_SLACK:
                    run.violation("oracle:stack-extent(%s,%s)" % (tn, syn), dict(replay, what="measured stack extent %d exceeds max_stack_size %d + %d" % (o["stk"], limit, STK_SLACK), c=r["out"]))
            c, K = NEST_C[msyn], 2 * H
            if tn == "E" and msyn in ("uper", "oer"):
                c, K = 5 * (limit // 64 + 2), 2 * H + 65536      # one copy of the remaining input per open-type level, depth <= limit/frame
        else:
            c, K = j["c"], j["K"]
        if j["build"] == "san":
            tight.append((round(o["peak"] / float(c * j["n"] + K), 3), desc, "peak=%d n=%d bound=%d*n+%d" % (o["peak"], j["n"], c, K)))
            if o["peak"] > c * j["n"] + K:
                run.violation("oracle:heap(%s,%s)" % (tn, syn), dict(replay, what="peak live heap %d bytes for %d input bytes exceeds %d*n + %d (%s)" % (o["peak"], j["n"], c, K, j.get("why", "nested value")),
                                                                      c=r["out"], bound={"c": c, "K": K}))
            if o["left"] != 0:
                run.violation("oracle:heap-left(%s,%s)" % (tn, syn), dict(replay, what="%d bytes still live after ASN_STRUCT_FREE" % o["left"], c=r["out"]))
        if j["kind"] == "heap" and len(run.cov["samples"]) < 10 and rng.chance(1, 12):
            run.sample({"type": tn, "syntax": syn, "input": j["label"], "n": j["n"], "c_output": r["out"], "bound": "%d*n+%d" % (c, K)})
    # ------------------------------------------------------------ (S) declared-size sweep
    sweep_stats = sweep(run, rng, tier, model, inp)
    nested_stats = nested(run, rng, tier, model, inp)
    # faithfulness, the other direction: where the model sees an unguarded cycle the C must die at depth 10^5
    for (syn, tn), g in sorted(verdict.items()):
        if not g and deep_crash.get((syn, tn)) is False:
            run.violation("correspondence:Depth.all_cycles_guarded(%s,%s)" % (syn, tn),
                          {"what": "the model finds an unguarded cycle but the C survives nesting depth 10^5 under a %d KiB stack: guard table or model is stale" % 128,
                           "syntax": syn, "type": tn, "cycle": str(cycle.get((syn, tn)))}, no_input=True)
    run.sample({"nesting": "T ber d=100000 default", "c_output": next((j["r"]["out"] for j in jobs if j["kind"] == "nest" and j["tn"] == "T" and j["syn"] == "ber" and j["d"] == 10**5), "")})
    tb = ["Coq 8.16.1 kernel; vm_compute for the heap refuted witnesses and Examples", "axioms under Print Assumptions: " + (", ".join(sorted(axioms)) or "none (Closed under the global context)"),
          "extraction: ExtrOcamlBasic only; OCaml 4.13.1", "harness/c15_guards.json (reviewed guard table) and lib/c15_util.scan_guards (regex scanner of the skeleton sources: function body, `if(ASN__STACK_OVERFLOW_CHECK(` followed by a failure, ber_check_tags call)",
          "lib/c15_util.py: type graphs of the hand-written modules (NODES/EDGES), input generators; harness/moddrv_c15.inc (meter: --wrap malloc family, malloc_usable_size; stack extent sampled at allocations)",
          "lib/c15_nested.py (type table of module C15N, right-to-left encoders, the per-type constants of `bound`), the 48-byte list head and one block per NULL / BOOLEAN of the OER model tie; dmeterc's per-command heap cap",
          "lib/c15_sweep.py (type table of module C15D, per-syntax input builders), the LP64 struct sizes of checks/c15.py STRUCT (OCTET_STRING_t 40, BIT_STRING_t 48, list head 48) and the 8-byte pointer of set_add; dmeterb's refusing allocator (32 MiB per request)",
          "gcc -O1 with and without ASan/UBSan, LP64, setrlimit(RLIMIT_STACK) in child processes; frame sizes and stack exhaustion are observed, not proved"]
    return run.finish("proof", (nthm, ndis), trusted_base=tb,
                      checker_cmd="make -C /verif all && coqc -Q coq A1 coq/Props/Properties_C15.v",
                      extra_cov={"theorems": names, "modules": 3, "child_processes": len(jobs), "depths": depths, "caller_max_stack": caller,
                                 "coqchk": coqchk, "sweep": sweep_stats, "nested": nested_stats, "max_stack_extent_above_limit": max_stk, "heap_bound_tightest": sorted(tight, reverse=True)[:12],
                                 "constants": {"NEST_C": NEST_C, "H": H, "P": P, "ZW": ZW, "STK_SLACK": STK_SLACK, "MIN_FRAME": MIN_FRAME},
                                 "rule": "one case = one child process (type, syntax, input, build, RLIMIT_STACK, max_stack_size) or one guard-table / model line",
                                 "traces_validated_against_impl": run.cov["evaluations"]},
                      assumptions=["PARTIAL: the theorems are about a call-graph model and the reference decoders; frame sizes, stack exhaustion and the allocator are observed at run time on this build only",
                                   "recursive types covered: the hand-written shapes of modules C15A/B/C (SEQUENCE, SEQUENCE OF, SET OF, CHOICE, EXPLICIT tag, CHOICE through SEQUENCE, extension addition, constructed strings, ANY, skipped extensions); SET, open types of information object sets and APER are not exercised",
                                   "heap constants are per type class (notes/design/C15.md) and hold for requested sizes as reported by ASan's malloc_usable_size",
                                   "the allocation-metered models cover the UPER decoders of strings and SEQUENCE OF / SET OF (coq/Rt/HeapBound.v) and the OER decoder of nested lists over NULL / BOOLEAN (coq/Rt/HeapOer.v); BER, XER, members, alternatives, open types, SEQUENCE {} / string elements of nested lists and length-prefixed primitives are held to the oracle only; the growth oracle compares inputs up to 3072 (thorough 6144) octets; restricted alphabets on random tails and zero-bit values are not compared with the model"])


if __name__ == "__main__":
    sys.exit(main(sys.argv[1] if len(sys.argv) > 1 else "quick"))
