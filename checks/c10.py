"""C10 — accepted specifications yield buildable code; the compiler never dies.
Translation validation with a PROVED CHECKER plus OBSERVED runtime facts (partial).
Theorems: coq/Props/Properties_C10.v over coq/Rt/WfDescr.v (the checker
`wf_descr` and the model of the runtime's lookups: bsearch with _t2e_cmp, the
UPER/OER preamble positions, the CHOICE canonical-order tables).
Tie: for every module of the corpus (lib/c10_util.py: modgen + widegen modules,
hand-made modules over the constructs those avoid, modules with one injected
semantic error) and every option set:
 (a) asn1c built from the working tree terminates by exit; rc != 0 => diagnostic;
 (b) rc == 0 => `make -f converter-example.mk` (the emitted recipe: static archive
     + converter) with -std=c99 -Wall -Werror=implicit-function-declaration
     -Werror=incompatible-pointer-types succeeds, every emitted header is valid C++;
 (c) harness/dumpdescr.c, linked against the emitted archive, prints every reachable
     type descriptor as a Gallina term; Gen_Descr_<n>.v states `wf_descr_all tab = true`
     and coqc decides it by vm_compute on every run.
(a) and (b) are observations about two C programs (evidence of the exploration
kind); (c) is a checked obligation.
Round 2 (lib/c10_regions.py: parameterized types, multi-module inputs given as several files in every order,
one module per grammar rule group; coq/Fix/ParamSpec.v, coq/Fix/FileSet.v):
 (d) the emitted file set is self-contained (nothing written twice, every #include and every makefile source exists,
     no skeleton name taken) - oracle on the C output alone, every accepted module;
 (e) the per-type file stems asn1c reports (`Compiled X.c`, in order) = FileSet.file_stems of the extracted model;
 (f) the specialization index of every flat instantiation site (read from the generated header) =
     ParamSpec.spec_indices of the model; and, on the C output alone, references with different actual parameter
     lists must not share a C type (false on the unchanged tree: finding C10-param-actuals-compared-shallowly).
Round 3 (lib/c10_refs.py: TYPE REFERENCES as a swept dimension - one module per basic type kind x alias chains of length
1..3 x tagged/untagged at each hop x added constraint x every use position; coq/Rt/WfAlias.v):
 (g) the alias invariant, on the C output alone (lib/c10_alias.py): the descriptor of `A ::= [tag] T (c)` equals T's in
     every slot except name / tags (= X.680 tagging of T's) / constraint records (equal unless c) / specifics (equal unless
     c re-constrains an INTEGER or REAL); every member without a tag of its own carries the outermost tag of its type;
 (h) the same facts as a checked obligation: Gen_Descr_<n>.v now states `wf_x xtab = true` (Rt/WfAlias.v: wf_descr_all +
     hops + member tags) for every table; the theorems C10_alias_* say what that gives for chains of any length;
 (i) thorough: asn1c rebuilt with --coverage in a scratch copy, every module run once; evidence lists which module first
     reaches each asn1c_lang_C_type_* emitter / each case arm of emit_type_DEF, emit_member_table ..., and the
     never-executed lines of libasn1compiler/asn1c_C.c.
Round 4 (lib/c10_partial.py: exactly ONE emission unit fails in the EMITTER - first / middle / last among top-level types, among the
specializations of a parameterized type, as a component; lib/c10_strlit.py: string literals with octets 0x01..0xff; coq/Fix/CompileFold.v):
 (j) every job: a `FATAL:` line or an `#error` directive in a generated file never comes with exit status 0;
 (k) the emitted permitted-alphabet checker of every FROM site admits exactly the octets of the literal (c10_util.alphabet_oracle);
 (l) exit status and number of `Cannot compile` diagnostics = CompileFold.exit_status / top_fatals of the extracted model on the
     emission-unit tree of the module (theorems C10_exit_zero_iff_all_ok, C10_exit_order_independent, ...).
Round 5 (lib/c10_derived.py: a type whose NAME maps onto a C identifier asn1c derives from another type - Foo-PR, Foo-t, Foo-PR-a,
Foo-a, Foo-constraint, Foo-tags-1, ModA-Foo ... x kinds x one / two / three modules / files x -fcompound-names; coq/Fix/DerivedNames.v):
 (m) one C translation unit including every emitted header compiles;
 (n) no global C identifier (tag / ordinary namespace) is defined by the headers of two different types."""
import sys, os, re, json, time
sys.path.insert(0, os.path.join(os.path.dirname(os.path.abspath(__file__)), "..", "lib"))
from vlib import *
from c10_util import *
import c10_alias, c10_refs, c10_partial, c10_derived

CLAUSES = {1: "translator saw a null table with a non-zero count", 2: "member type index out of range", 3: "tags / all_tags relation",
           4: "PER record of the type", 5: "OER record of the type", 6: "member records (PER/OER/tag_mode/flags)",
           7: "kind-specific specifics (tag2el sorted+exact, oms/roms/aoms, first_extension, canonical maps, enum maps)",
           8: "reference: op table / member table / specifics differ from the target's", 9: "reference: tag vectors are not the X.680 tagging of the target's",
           10: "reference: PER/OER record differs from the target's although no constraint is added", 11: "BIT STRING / ANY descriptor with NULL specifics",
           12: "member without a tag of its own does not carry the outermost tag of its type", 13: "elements_count differs from the dumped member list",
           14: "an alias with two targets (harness)", 15: "identity lines missing (harness)"}


# ---------------------------------------------------------------- known findings: symptom signature + predicate on the input

OF_SIZE_INNER = re.compile(r"\bOF\s+(?:[a-z][\w-]*\s+)?(?:\[[^\]]*\]\s*(?:IMPLICIT\s+|EXPLICIT\s+)?)?(?:SEQUENCE|SET)\s*\(\s*SIZE\b")


def has_of_with_sized_of_element(text):
    return bool(OF_SIZE_INNER.search(strip_comments(text)))


def param_nested(text):
    """a parameterised type P instantiated with an actual parameter that is itself an instance of P: defined as one by name,
    or written in place, P { P {...} } (reachable since an instantiation used as an actual parameter keeps its own parameters,
    notes/fixes/J/05: both specializations then live in P.h, the outer one first)"""
    t = strip_comments(text)
    params = re.findall(r"(?m)^\s*([A-Z][\w-]*)\s*\{[^}]*\}\s*::=", t)
    for p in params:
        if re.search(r"\b%s\s*\{\s*%s\s*\{" % (re.escape(p), re.escape(p)), t):
            return True
        inst = set(re.findall(r"(?m)^\s*([A-Z][\w-]*)\s*::=\s*%s\s*\{" % re.escape(p), t))
        for a in re.findall(r"\b%s\s*\{\s*([A-Z][\w-]*)\s*\}" % re.escape(p), t):
            if a in inst:
                return True
    return False


def has_empty_set(text):
    return bool(re.search(r"\bSET\s*\{\s*(\.\.\.\s*)?\}", strip_comments(text)))


def bound_exceeds_long(text):
    """a constraint bound written as a literal outside [-2^63, 2^63-1]"""
    for m in re.finditer(r"[(.|]\s*(-?\d{19,})\b", strip_comments(text)):
        v = int(m.group(1))
        if v > 2**63 - 1 or v < -2**63:
            return True
    return False


def diagnostics(stderr):
    """asn1c reports progress (Copied/Generated/Compiled ...) on stderr too: a diagnostic is any other line"""
    return [l for l in stderr.split("\n") if l.strip() and not re.match(r"\s*(Copied|Generated|Compiled|Symlinked|Refreshed)\b", l)]


ANON_OF = re.compile(r"\bOF\s+(?:[a-z][\w-]*\s+)?(?:\[[^\]]*\]\s*(?:IMPLICIT\s+|EXPLICIT\s+)?)?(SEQUENCE|SET|CHOICE)\b")


def nested_anon_of(text):
    """an OF whose element is an anonymous constructed type, inside the element of another such OF
    (two levels of asn1c's anonymous 'Member' structures)"""
    t = strip_comments(text)
    for m in ANON_OF.finditer(t):
        i = m.end(1)
        while i < len(t) and t[i].isspace():
            i += 1
        if i < len(t) and t[i] == "(":            # (SIZE(...))
            depth = 0
            while i < len(t):
                depth += t[i] == "("
                depth -= t[i] == ")"
                i += 1
                if depth == 0:
                    break
            while i < len(t) and t[i].isspace():
                i += 1
        if i < len(t) and t[i] == "{":
            depth, j = 0, i
            while j < len(t):
                depth += t[j] == "{"
                depth -= t[j] == "}"
                j += 1
                if depth == 0:
                    break
            extent = t[i:j]
        else:                                      # SEQUENCE OF ...: up to the end of this component / assignment
            depth, j = 0, i
            while j < len(t):
                if t[j] == "{":
                    depth += 1
                elif t[j] == "}":
                    if depth == 0:
                        break
                    depth -= 1
                elif t[j] == "," and depth == 0:
                    break
                elif t.startswith("::=", j):
                    break
                j += 1
            extent = t[i:j]
        if ANON_OF.search(extent):
            return True
    return False


def tag_exceeds_30_bits(text):
    return any(int(n) >= 2**30 for n in re.findall(r"\[\s*(?:UNIVERSAL|APPLICATION|PRIVATE|CONTEXT)?\s*(\d+)\s*\]", strip_comments(text)))


def param_types_in_two_modules(text):
    """names of parameterized type assignments that occur in two modules"""
    names = re.findall(r"(?m)^\s*([A-Z][\w-]*)\s*\{[^{}]*\}\s*::=", strip_comments(text))
    return {n for n in names if names.count(n) > 1}


def param_type_in_two_modules(text):
    return bool(param_types_in_two_modules(text))


def valueset_used_as_type(text):
    t = strip_comments(text)
    for n in re.findall(r"(?m)^\s*([A-Z][\w-]*)\s+[A-Z][\w -]*?::=\s*\{", t):
        if re.search(r"\b[a-z][\w-]*\s+%s\b(?!\s*::=)" % re.escape(n), t):
            return True
    return False


def unsigned_bounds(lo, hi):
    try:
        l = int(lo)
    except ValueError:
        return False
    if l < 0:
        return False
    if hi == "MAX":
        return True
    try:
        return 2**31 <= int(hi) < 2**32
    except ValueError:
        return False


def of_unsigned_through_param(text):
    """C10-of-unsigned-element reached through a template: P {T} ::= ... OF T ... instantiated with an INTEGER whose
    constraint selects the unsigned representation"""
    t = strip_comments(text)
    for name, params, body in re.findall(r"(?m)^\s*([A-Z][\w-]*)\s*\{([^{}]*)\}\s*::=(.*)$", t):
        dummies = [x.strip().split(":")[-1].strip() for x in params.split(",")]
        if not any(re.search(r"\bOF\s+%s\b" % re.escape(d), body) for d in dummies if d):
            continue
        for acts in re.findall(r"\b%s\s*\{([^{}]*)\}(?!\s*::=)" % re.escape(name), t):
            if any(unsigned_bounds(lo, hi) for lo, hi in re.findall(r"\bINTEGER\s*\(\s*(-?\w+)\s*\.\.\s*(-?\w+)", acts)):
                return True
    return False


def objset_shared_by_two_specializations(text):
    """one parameterized type with an object-set (governed, upper-case) parameter instantiated with the same object set in two
    different actual parameter lists"""
    t = strip_comments(text)
    for name, params in re.findall(r"(?m)^\s*([A-Z][\w-]*)\s*\{([^{}]*)\}\s*::=", t):
        if not re.search(r"[A-Z][\w-]*\s*:\s*[A-Z]", params):
            continue
        lists = set(re.findall(r"\b%s\s*\{((?:[^{}]|\{[^{}]*\})*)\}(?!\s*::=)" % re.escape(name), t))
        sets = [(re.findall(r"\{\s*([A-Z][\w-]*)\s*\}", l), l) for l in lists]
        for i, (a, la) in enumerate(sets):
            for b, lb in sets[i + 1:]:
                if la != lb and set(a) & set(b):
                    return True
    return False


def real_reference_with_range(text):
    """a reference to a type whose chain ends in REAL, used with a value constraint (not WITH COMPONENTS)"""
    t = strip_comments(text)
    first = {}
    for n, rhs in parse_defs(t):
        mm = re.match(r"(?:\[[^\]]*\]\s*(?:IMPLICIT\s+|EXPLICIT\s+)?)?([A-Za-z][\w-]*)", rhs)
        if mm:
            first[n] = mm.group(1)
    real = {n for n, f in first.items() if f == "REAL"}
    for _ in range(8):
        real |= {n for n, f in first.items() if f in real}
    return any(re.search(r"(?<![\w-])%s\s*\(\s*(?!WITH\b)" % re.escape(n), t) for n in real)


def derived_name_pairs(text):
    """kinds of derived-name coincidences between two type names of the input: 'PR' (c(U) = c(T)_PR: registered, refused without
    -fcompound-names), 'prefix' (c(U) = <Module>_<T> with T defined in two modules: registered), 't' (c(U) = c(T)_t and U is a
    constructed type: `struct T_t` meets the typedef name `T_t`; NOT registered)"""
    t = strip_comments(text)
    cid = lambda n: n.replace("-", "_")
    mods, cur = [], None
    for line in t.split("\n"):
        mm = re.match(r"\s*([A-Z][\w-]*)\s*(?:\{[^}]*\}\s*)?DEFINITIONS\b", line)
        if mm:
            cur = (mm.group(1), [])
            mods.append(cur)
            continue
        mm = re.match(r"\s*([A-Z][\w-]*)\s*::=\s*(?:\[[^\]]*\]\s*(?:IMPLICIT\s+|EXPLICIT\s+)?)?(\w+)", line)
        if mm and cur:
            cur[1].append((mm.group(1), mm.group(2)))
    names = [(m, n, k) for m, ds in mods for n, k in ds]
    out = set()
    for _, u, uk in names:
        for m2, tn, _k in names:
            if u == tn:
                continue
            if cid(u) == cid(tn) + "_PR":
                out.add("PR")
            if cid(u) == cid(tn) + "_t" and uk in ("SEQUENCE", "SET", "CHOICE", "ENUMERATED", "INTEGER", "BIT"):   # enum tags meet the typedef name the same way
                out.add("t")
            if sum(1 for _m, n, _ in names if n == tn) > 1 and cid(u) == cid(m2) + "_" + cid(tn):
                out.add("prefix")
    return out


def match_finding(stage, job):
    """-> finding id or None.  Each rule = symptom signature (the site) AND a predicate on (module text, options)."""
    text, opts = job["mod"]["text"], job["opts"]
    err = job.get("stderr", "")
    blog = job.get("build_log", "") + "\n" + job.get("cxx_log", "")
    if stage == "signal":
        if "asn1p_parse: Assertion `!TQ_FIRST" in err and has_of_with_sized_of_element(text):
            return "C10-of-of-size-assert"
        if job["rc"] == -11 and left_recursive_choice(text):
            return "C11-leftrec-crash"
    if stage in ("fatal", "build", "cxx", "dup-names", "c-all") and "-fcompound-names" in opts \
       and "Name clashes encountered even with -fcompound-names flag" in " ".join(job.get("fatal_lines", [])) and derived_name_pairs(text) & {"PR", "prefix"}:
        # the refusal of c_name_clash is downgraded to a message under -fcompound-names; nothing else may be wrong with the job
        if stage != "fatal" or all(re.match(r"FATAL: (Name \"[^\"]*\" is generated by|Name clashes encountered even with|\.\.\. \d+ more name clashes)", l) for l in job.get("fatal_lines", [])) \
           and not job.get("error_directives"):
            return "C10-name-clash-proceeds-under-compound-names"
    if stage == "cxx" and re.search(r"conflicting declaration .typedef [\w ]+ \w+_t.", blog) and "t" in derived_name_pairs(text):
        return "C10-struct-tag-equals-typedef-name-cxx"
    if stage in ("build", "cxx"):
        if re.search(r"asn_DEF_Member_\d+. undeclared", blog) and (has_of_unsigned_integer(text) or of_unsigned_through_param(text)):
            return "C10-of-unsigned-element"
        if re.search(r"expected specifier-qualifier-list before .typedef.|invalid use of undefined type .struct \w*Member\w*", blog) \
           and "-fcompound-names" in opts and nested_anon_of(text):
            return "C10-nested-anonymous-of-struct"
        if re.search(r"unknown type name|does not name a type", blog) and param_nested(text):
            return "C10-param-circular-include"
        if re.search(r"empty enum is invalid|asn_MAP_\w+_tag2el_\d+. undeclared", blog) and has_empty_set(text):
            return "C10-empty-set"
        if re.search(r"\bCHARACTER_STRING\.h: No such file", blog) and re.search(r"\bCHARACTER\s+STRING\b", strip_comments(text)):
            return "C10-unsupported-useful-types-no-skeleton"
        if re.search(r"unknown type name .\w+_\d+P\d+_t|asn_DEF_\w+_\d+P\d+. undeclared|\w+_\d+P\d+. has not been declared|does not name a type", blog):
            if param_type_in_two_modules(text):
                return "C10-param-type-in-two-modules"
        if re.search(r"redefinition of .asn_(VAL|IOS)_", blog) and objset_shared_by_two_specializations(text):
            return "C10-param-objset-table-per-specialization"
        if re.search(r"\b[\w-]+\.h: No such file", blog) and valueset_used_as_type(text):
            return "C10-valueset-type-as-member"
        if re.search(r"asn_REAL2double.*incompatible pointer type|invalid operands to binary .* \(have .\w+_t. \{aka .struct ASN__PRIMITIVE_TYPE_s.\}", blog) \
           and "-fwide-types" in opts and "-fno-constraints" not in opts and real_reference_with_range(text):
            return "C10-real-reference-constraint-value-type"
        if re.search(r"unknown type name .asn_(Native)?REAL_specifics_t|.asn_(Native)?REAL_specifics_t. does not name a type", blog) and "-fwide-types" in opts and REAL_REF_NARROWED.search(strip_comments(text)):
            return "C10-real-reference-narrowed-to-float"
    if stage == "fatal":
        fat = " ".join(job.get("fatal_lines", []) + job.get("error_directives", []))
        t = strip_comments(text)
        if all(re.match(r"FATAL: Inappropriate value \{", l) for l in job.get("fatal_lines", [])) and not job.get("error_directives") \
           and re.search(r"&[a-z][\w-]*\s+(OBJECT\s+IDENTIFIER|RELATIVE-OID)", t):
            return "C18-oid-identifier"
    if stage == "files-model":
        # model and C disagree on the per-type file names ONLY at parameterized types defined in two modules
        # (the templates are not run through asn1f_check_duplicate: no module prefix, both saved to one file)
        want, got, clash = job.get("model_stems", []), job.get("stems", []), param_types_in_two_modules(text)
        if clash and len(want) == len(got) and all(w == g or (g in clash and w.endswith("_" + g)) for w, g in zip(want, got)):
            return "C10-param-type-in-two-modules"
    if stage == "fileset":
        kinds = {p_.split(":")[0] for p_ in job.get("fileset", [])}
        clash = param_types_in_two_modules(text)
        if kinds <= {"written-twice"} and clash and all(p_.split(":")[1][:-2] in clash for p_ in job["fileset"]):
            return "C10-param-type-in-two-modules"
        incs = " ".join(job.get("fileset", []))
        if kinds <= {"missing-include"} and re.search(r"includes CHARACTER_STRING\.h", incs) and re.search(r"\bCHARACTER\s+STRING\b", strip_comments(text)):
            return "C10-unsupported-useful-types-no-skeleton"
        if kinds <= {"missing-include"} and valueset_used_as_type(text):
            return "C10-valueset-type-as-member"
    if stage == "overflow":
        if bound_exceeds_long(text) or tag_exceeds_30_bits(text):
            return "C10-constant-exceeds-c-type"
    if stage == "descr":
        if set(job["failing_clauses"]) <= {4, 6} and bound_exceeds_long(text):
            return "C10-constant-exceeds-c-type"
        # the Coq checker re-decides what the alias oracle decided on the same dump: clauses 9 / 12 are the tagged-ANY
        # finding exactly when every problem the oracle saw is that symptom
        # and 8 (representation) the narrowed-REAL finding
        if set(job["failing_clauses"]) <= {8, 9, 12} and job.get("alias_probs") and not alias_unexplained(job):
            return sorted({p_[2] for p_ in job["alias_probs"]})[0]
    return None


REAL_REF_NARROWED = re.compile(r"::=\s*(?:\[[^\]]*\]\s*(?:IMPLICIT\s+|EXPLICIT\s+)?)?[A-Z][\w.-]*\s*\(\s*WITH\s+COMPONENTS\s*\{[^}]*\bmantissa\b")


def alias_unexplained(job):
    """the problems of the alias / member-tag oracle that no known finding explains (symptom flag of the oracle AND a
    predicate on the module text)"""
    text = strip_comments(job["mod"]["text"])
    ok = {"C10-tagged-any-loses-tag": bool(re.search(r"\bANY\b", text)), "C10-real-reference-narrowed-to-float": bool(REAL_REF_NARROWED.search(text))}
    return [p_ for p_ in job.get("alias_probs", []) if not (len(p_) > 2 and p_[2] and ok.get(p_[2]))]


# ---------------------------------------------------------------- round 2: file set and specialization ties

def shallow_pairs(sites, types):
    """pairs of sites of one template that share a C type although their actual parameter lists differ; each pair is
    (site i, site j, explained) with explained = the lists have the same key text (differ in constraints / nested
    parameter lists only) - the predicate of finding C10-param-actuals-compared-shallowly"""
    out = []
    for i in range(len(sites)):
        for j in range(i + 1, len(sites)):
            a, b = sites[i], sites[j]
            ta, tb = types.get("%s.%s" % (a["carrier"], a["member"])), types.get("%s.%s" % (b["carrier"], b["member"]))
            if a["tmpl"] == b["tmpl"] and ta and tb and ta == tb and a["text"] != b["text"]:
                out.append((a, b, a["key"] == b["key"] and a["mod"] == b["mod"]))
    return out


def region_ties(run, res, known_ids):
    model = model_build()
    lines, owners = [], []
    for j in res:
        m = j["mod"]
        if j.get("rc") != 0:
            continue
        if m.get("nmods"):
            toks = [str(len(m["nmods"]))]
            for name, ids in m["nmods"]:
                toks += [name, str(len(ids))] + [t for i, ty in ids for t in (i, "1" if ty else "0")]
            lines.append("c10_files " + " ".join(toks))
            owners.append((j, "files", None))
        if m.get("sites"):
            for tmpl in sorted({s["tmpl"] for s in m["sites"]}):
                ss = [s for s in m["sites"] if s["tmpl"] == tmpl]
                for cmd in ("c10_spec", "c10_spec_key"):
                    lines.append("%s %d %s" % (cmd, len(ss), " ".join(s["model"] for s in ss)))
                    owners.append((j, cmd, ss))
    out = []
    if lines:
        rc, out, err = run_lines(model, lines)
        if rc != 0 or len(out) != len(lines):
            raise RuntimeError("model driver failed: rc=%s lines=%d/%d %s" % (rc, len(out), len(lines), err))
    keyline = {}
    for (j, what, ss), line, ans in zip(owners, lines, out):
        m, opts = j["mod"], j["opts"]
        case = "%s %s" % (m["name"], " ".join(opts))
        replay = {"module": m["text"], "module_name": m["name"], "files": [f for f, _ in m.get("files", [])], "options": list(opts),
                  "replay_cmd": "asn1c -S <skeletons> -pdu=all %s %s" % (" ".join(opts), " ".join(f for f, _ in m.get("files", [(m["name"] + ".asn1", "")]))),
                  "model_cmd": line[:1500]}
        if what == "files":
            run.count("tie:file-set")
            got = "OK " + " ".join(j.get("stems", []))
            want = re.sub(r"^OK clean=\w+ ?", "OK ", ans).strip()
            if "clean=false" in ans:
                run.violation("harness:unclean-names", dict(replay, what="generated module list carries a name with a low line"), no_input=True)
            j["model_stems"] = want.split()[1:]
            fid = match_finding("files-model", j) if want != got.strip() else None
            if fid and fid in known_ids:
                run.known_finding(fid, case)
                run.count("known:" + fid)
            elif want != got.strip():
                run.violation("correspondence:FileSet.file_stems", dict(replay, what="per-type files written by asn1c differ from the model's (names or order)",
                                                                         model=ans, c=got, fileset=j.get("fileset")), no_input=not j.get("fileset"))
        elif what == "c10_spec_key":
            keyline[id(j), ss[0]["tmpl"]] = ans
        else:
            run.count("tie:specialization-sites", len(ss))
            types = j.get("site_types", {})
            got = [types.get("%s.%s" % (s["carrier"], s["member"])) for s in ss]
            cline = "OK " + " ".join(str(t[2]) if t else "?" for t in got)
            pairs = shallow_pairs(ss, types)
            if ans != cline:
                run.violation("correspondence:ParamSpec.spec_indices", dict(replay, what="specialization indices in the generated headers differ from the model's",
                                                                             model=ans, c=cline, sites=[(s["member"], s["text"]) for s in ss]), no_input=not pairs)
            # Spec vs Code, on the C output alone: different actual parameter lists must not share a C type
            if any(e for _, _, e in pairs) and "C10-param-actuals-compared-shallowly" in known_ids:
                run.known_finding("C10-param-actuals-compared-shallowly", case)
                run.count("known:C10-param-actuals-compared-shallowly")
            for a, b, explained in pairs:
                run.count("oracle:distinct-actuals-share-a-type(pairs)")
                if not (explained and "C10-param-actuals-compared-shallowly" in known_ids):
                    run.violation("param:distinct-actuals-share-a-type", dict(replay, what="two references with different actual parameters are given ONE C type",
                                                                             site_a=(a["member"], a["text"]), site_b=(b["member"], b["text"]), c_type=types.get("%s.%s" % (a["carrier"], a["member"]))))
    # the theorem spec_ignores_constraints, replayed: the key-erased references get the same indices
    for (j, what, ss), line, ans in zip(owners, lines, out):
        if what == "c10_spec" and keyline.get((id(j), ss[0]["tmpl"])) != ans:
            run.violation("model:spec_ignores_constraints", {"what": "model disagrees with its own theorem", "line": line[:800]}, no_input=True)
    # the file-set oracle for EVERY accepted module (not only the multi-module ones)
    for j in res:
        if j.get("rc") == 0 and j.get("fileset"):
            m, opts = j["mod"], j["opts"]
            run.count("oracle:file-set-broken")
            fid = match_finding("fileset", j)
            if fid and fid in known_ids:
                run.known_finding(fid, "%s %s" % (m["name"], " ".join(opts)))
                run.count("known:" + fid)
                continue
            kinds = sorted({p.split(":")[0] for p in j["fileset"]})
            run.violation("fileset:" + ",".join(kinds), {"module": m["text"], "module_name": m["name"], "files": [f for f, _ in m.get("files", [])], "options": list(opts),
                                                        "what": "asn1c exited 0 but the set of files it wrote is not self-contained", "problems": j["fileset"]})


# ---------------------------------------------------------------- round 4: the status folding of the compile loop

def fold_ties(run, res, known_ids):
    """model (Fix/CompileFold.v: exit_status, top_fatals) vs asn1c (exit status, number of `FATAL: Cannot compile` lines) on the
    modules of lib/c10_partial.py, and the Spec evaluated directly: a failing unit / specialization / component => non-zero exit"""
    model = model_build()
    js = [j for j in res if j["mod"].get("partial") and 0 <= j.get("rc", -1) < 124]
    js = [j for j in js if not (j.get("name_clash") and "-fcompound-names" not in j["opts"])]     # another refusal path (c_name_clash), not this loop
    if not js:
        return
    lines = ["c10_fold " + c10_partial.fold_tokens(j["mod"], j["opts"]) for j in js]
    rc, out, err = run_lines(model, lines)
    if rc != 0 or len(out) != len(lines):
        raise RuntimeError("model driver failed (c10_fold): rc=%s lines=%d/%d %s" % (rc, len(out), len(lines), err))
    for j, line, ans in zip(js, lines, out):
        m, opts = j["mod"], j["opts"]
        case = "%s %s" % (m["name"], " ".join(opts))
        replay = {"module": m["text"], "module_name": m["name"], "options": list(opts), "refusal": m.get("refusal"), "position": m.get("position"),
                  "replay_cmd": "asn1c -S <skeletons> -pdu=all %s %s.asn1" % (" ".join(opts), m["name"]), "asn1c_rc": j["rc"],
                  "asn1c_stderr": "\n".join(l for l in j.get("stderr", "").split("\n") if l.startswith("FATAL"))[-800:], "model_cmd": line}
        run.count("tie:compile-fold")
        run.count("fold:%s:%s" % (m.get("position"), "fails" if c10_partial.any_fails(m, opts) else "compiles"))
        got = "OK exit=%d fatals=%d" % (j["rc"], j.get("cannot_compile", 0))
        spec_fail = c10_partial.any_fails(m, opts)
        if ans != got:
            run.violation("correspondence:CompileFold.exit_status", dict(replay, what="exit status / number of `Cannot compile` diagnostics of asn1c differ from the model of the compile loop",
                                                                         model=ans, c=got), no_input=not (spec_fail and j["rc"] == 0))
        if spec_fail and j["rc"] == 0:
            run.violation("partial:failed-unit-but-exit-0", dict(replay, what="a unit (top-level type, specialization or EMBEDded component) the emitter refuses is part of the module, asn1c exits 0"))
        if not c10_partial.any_fails(m, opts) and j["rc"] != 0:
            run.count("partial:refused-although-no-known-refusal")
            run.violation("asn1c:repaired-construct-refused", dict(replay, what="every unit of the module compiles under these options (the handled neighbours of the emitter's refusals), asn1c refuses it"))


# ---------------------------------------------------------------- main

def main(tier):
    run = Run("C10", tier)
    # findings of this property come from findings.d/C10.json (so the check does not depend on the merge state of
    # known_findings.json); C11-leftrec-crash is recorded under C11 and reused here
    fpath = os.path.join(VERIF, "findings.d", "C10.json")
    run.findings = [f for f in (json.load(open(fpath)) if os.path.exists(fpath) else []) if f.get("status") == "open"]
    run.findings += [f for f in load_findings("C11") if f["id"] == "C11-leftrec-crash"]
    run.findings += [f for f in load_findings("C18") if f["id"] == "C18-oid-identifier" and f.get("status") == "open"]
    known_ids = {f["id"] for f in run.findings}
    rng = Rng(run.seed)
    scr = scratch()
    ok, out = coq_build()
    nthm, ndis, axioms, names, plog = obligations("C10") if ok else (0, 0, set(), [], out)
    gate = grep_gate()
    if not ok or ndis != nthm or gate:
        run.violation("proof:Properties_C10", {"what": "Coq development does not build or an obligation is open",
                                               "log_tail": (out if not ok else plog)[-2000:], "grep_gate": gate}, no_input=True)
    try:
        asn1c, skel = build_asn1c()
    except BuildError as e:
        run.violation("build:asn1c", {"what": str(e)[-2500:]}, no_input=True)
        return run.finish("translation_validation", (nthm, ndis))
    mods = corpus(rng, tier)
    if os.environ.get("C10_ONLY"):          # development aid: C10_ONLY=partial,strlit runs the modules of these origins only
        mods = [m_ for m_ in mods if m_["origin"].split(":")[0] in os.environ["C10_ONLY"].split(",")]
    # quick: the 4 option sets of round 1 + "-fwide-types" alone (wide types WITH constraint code), which only the numeric
    # kinds of the reference sweep get: set 2 carries -fno-constraints, so the checker emitted for a constrained INTEGER / REAL
    # reference under wide types was built in the thorough tier only (finding C10-real-reference-constraint-value-type)
    optsets = (QUICK_OPTSETS + [("-fwide-types",)]) if tier == "quick" else all_optsets()
    jobs = []
    root = os.path.join(scr, "jobs")
    for mi, m in enumerate(mods):
        if tier == "quick" and m.get("optsets"):
            # round 4 (partial emitter failures, string-literal content): the generator names the option sets of each module
            for k, opts in enumerate(m["optsets"]):
                jobs.append({"mod": m, "opts": tuple(opts), "oi": 100 + k, "dir": job_dir(root, m, 100 + k), "asn1c": asn1c, "skel": skel,
                             "only_asn1c": False, "cleanup": True})
            continue
        for oi, opts in enumerate(optsets):
            # thorough: asn1c runs under all 128 subsets for every module; the build + translator part runs for 16 of them
            # per module, rotating so that all subsets are built across the corpus
            if tier == "quick" and oi == 4:
                if not (m["origin"] == "refs" and m.get("numeric")):
                    continue
            elif tier == "quick" and m["origin"] in ("special", "multi", "grammar", "refs") and not m.get("all_optsets") and oi not in (mi % 2, 2 + (mi // 2) % 2):
                continue        # quick: generated modules get the 4 option sets, hand-made valid ones 2 of them in rotation
            if tier == "quick" and m["origin"] == "param" and oi not in (1, (3, 0, 2)[mi % 3]):
                continue        # parameterized modules mostly need -fcompound-names (set 1); a second set in rotation
            if tier == "quick" and m["origin"] == "grammar-refused" and oi != mi % 4:
                continue        # refusals happen in the parser / fixer: one option set each
            if tier != "quick" and m["origin"] in ("partial", "strlit", "derived") and ((oi - 16 * mi) % 128) >= 16:
                continue        # thorough, round-4 modules (many; their refusals do not depend on most flags): 16 rotating subsets, 6 of them built
            # thorough: build + translator under 16 rotating subsets per module (6 for the region modules of round 2, which are many)
            full = tier == "quick" or ((oi - 16 * mi) % 128) < (6 if m["origin"] in ("param", "multi", "grammar", "grammar-refused", "refs", "partial", "strlit", "derived") else 16)
            jobs.append({"mod": m, "opts": opts, "oi": oi, "dir": job_dir(root, m, oi), "asn1c": asn1c, "skel": skel,
                         "only_asn1c": not full, "cleanup": True})
    print("C10: %d jobs" % len(jobs), file=sys.stderr)
    res = run_jobs(jobs)
    print("C10: jobs done at %.1fs" % (time.time() - T0), file=sys.stderr)

    tables, table_jobs, tabled = [], [], set()
    for j in res:
        m, opts = j["mod"], j["opts"]
        case = "%s %s" % (m["name"], " ".join(opts))
        rc = j["rc"]
        replay = {"module": m["text"], "module_name": m["name"], "origin": m["origin"], "options": list(opts),
                  "replay_cmd": "asn1c -S <skeletons> -pdu=all %s %s.asn1" % (" ".join(opts), m["name"]), "asn1c_rc": rc,
                  "asn1c_stderr": j.get("stderr", "")[-1200:]}
        run.case(case, nontrivial=not j.get("only_asn1c"))
        okey = m["origin"].split(":")[0]

        def report(stage, kind, what, extra=None):
            fid = match_finding(stage, j)
            if fid and fid in known_ids:
                run.known_finding(fid, case)
                run.count("known:" + fid)
            else:
                run.violation(kind, dict(replay, what=what, **(extra or {})))

        # (a) termination by exit, diagnostic on failure
        if rc < 0 or rc >= 128 or rc == 124:
            run.count("%s:asn1c-died" % okey)
            report("signal", "asn1c:terminated-by-signal" if rc != 124 else "asn1c:timeout",
                   "asn1c did not terminate by exit (rc=%d: signal, failed assertion or timeout)" % rc)
            continue
        if rc != 0:
            if not diagnostics(j.get("stderr", "")):
                run.count("%s:refused-silently" % okey)
                report("silent", "asn1c:no-diagnostic", "asn1c exited %d without printing a diagnostic on stderr" % rc, {"asn1c_stdout": j.get("stdout", "")[-600:]})
            else:
                run.count("%s:refused(rc=%d)" % (okey, rc))
                if m.get("accept"):
                    # directed modules whose acceptance IS the repaired behaviour (a crash turned into a compilation, not into a refusal)
                    run.violation("asn1c:repaired-construct-refused", dict(replay, what="asn1c refuses a construct that the repaired tree compiles (%s)" % m["accept"]))
            continue
        run.count("%s:accepted" % okey)
        # (j) round 4: what asn1c itself calls fatal, or leaves as an #error directive in a generated file, with exit status 0
        if j.get("fatal_lines") or j.get("error_directives"):
            run.count("oracle:fatal-or-error-directive-with-exit-0")
            kinds = (["fatal-diagnostic"] if j.get("fatal_lines") else []) + (["error-directive-in-output"] if j.get("error_directives") else [])
            report("fatal", "asn1c:%s-but-exit-0" % "+".join(kinds),
                   "asn1c printed a FATAL diagnostic / wrote an #error directive into a generated file, and exited with status 0",
                   {"fatal_lines": j.get("fatal_lines"), "error_directives": j.get("error_directives")})
        # (n) round 5: a global C identifier defined by the headers of two different types
        if m.get("derived"):
            run.count("derived:%s:accepted" % m["derived"].get("suffix", "prefix"))
        if j.get("dup_names"):
            run.count("oracle:identifier-defined-by-two-types")
            report("dup-names", "names:identifier-defined-by-two-types", "asn1c exited 0; the headers it wrote for two different types define the same global C identifier "
                   "(a name derived from one type name equals a name derived from another)", {"identifiers": j["dup_names"][:8], "derived": m.get("derived")})
        # (k) round 4: the emitted permitted-alphabet checkers against the octets of the literals
        for cfile, fn, mode, prob in j.get("alpha", []):
            run.count("alphabet-site:%s" % mode)
            if prob:
                fid = match_finding("alphabet", dict(j, alpha_prob=prob))
                if fid and fid in known_ids:
                    run.known_finding(fid, case)
                    run.count("known:" + fid)
                else:
                    run.violation("alphabet:checker-differs-from-literal", dict(replay, what="asn1c exited 0; the permitted-alphabet checker it emitted does not admit exactly the octets of the FROM literal",
                                                                                c_file=cfile, function=fn, mode=mode, problem=prob, latin1=True))
        if j.get("only_asn1c"):
            continue
        # (b) emitted sources compile and link the way converter-example.mk does it; headers are valid C++
        built = j.get("build_rc") == 0
        if not built:
            run.count("build-failed")
            report("build", "build:converter-example.mk", "asn1c exited 0 but the emitted sources do not compile/link with `CFLAGS='%s' make -f converter-example.mk`" % STRICT,
                   {"build_log": j.get("build_log", "")[-1500:]})
        else:
            run.count("warnings", j.get("warnings", 0))
            if j.get("overflow"):
                run.count("constant-overflow-in-generated-tables")
                report("overflow", "build:constant-changes-value", "a constant of the generated tables does not fit its C type and changes value at compile time "
                       "(the descriptor is not the one asn1c computed)", {"gcc": j["overflow"]})
            if j.get("allobj_undefined"):
                run.count("observation:linking-every-emitted-object-directly-fails(not-a-violation)")
        if j.get("cxx_rc") != 0:
            run.count("c++-failed")
            if built or match_finding("cxx", j) != match_finding("build", j) or not match_finding("cxx", j):
                report("cxx", "build:c++-headers", "the emitted headers are not valid C++ (g++ -fsyntax-only on a file including every emitted .h)",
                       {"cxx_log": j.get("cxx_log", "")[-1200:]})
        # (m) round 5: every emitted header in ONE C translation unit
        if j.get("call_rc") not in (None, 0):
            run.count("c-all-headers-failed")
            if built or match_finding("c-all", j) != match_finding("build", j) or not match_finding("c-all", j):
                report("c-all", "build:all-headers-one-unit", "asn1c exited 0 but a C translation unit including every emitted header does not compile (gcc -std=c99 -fsyntax-only)",
                       {"c_log": j.get("call_log", "")[-1200:], "derived": m.get("derived")})
        if not built:
            continue
        # (c) descriptors
        pd = parse_dump(j.get("dump", "")) if j.get("dump_rc") == 0 else None
        if not pd:
            run.violation("translator:dumpdescr", dict(replay, what="dumpdescr does not build, link or run against the emitted archive",
                                                       dump_rc=j.get("dump_rc"), dump_err=j.get("dump_err", "")[-1200:]), no_input=True)
            continue
        names_, terms = pd
        run.count("descriptors", len(terms))
        for k, _n in names_.values():
            run.count("kind:" + k)
        # (g) references: the alias invariant and the member tags, evaluated on the dump alone
        hops = m.get("hops")
        if hops is None and not m.get("files"):
            hops = c10_refs.hops_from_text(m["text"])
        probs, resolved = c10_alias.alias_oracle(j["dump"], hops or [])
        probs += c10_alias.member_tag_oracle(j["dump"])
        run.count("tie:reference-hops", len(resolved))
        for h_ in resolved:
            run.count("hop:%s%s" % ("tagged" if h_[2] is not None else "untagged", "+constraint" if h_[4] else ""))
        if probs:
            j["alias_probs"] = probs
            run.count("oracle:alias-invariant-broken")
            bad = [p_ for p_ in alias_unexplained(j)] + [p_ for p_ in probs if len(p_) > 2 and p_[2] and p_[2] not in known_ids]
            for fid in sorted({p_[2] for p_ in probs if len(p_) > 2 and p_[2] and p_[2] in known_ids and p_ not in bad}):
                run.known_finding(fid, case)
                run.count("known:" + fid)
            if bad:
                run.violation("alias:" + ",".join(sorted({p_[0] for p_ in bad})),
                              dict(replay, what="asn1c exited 0 and the code builds, but the descriptor of a type reference is not its target's "
                                                "(op / members / representation / specifics / X.680 tags / codec records), or a member does not carry the tag of its type",
                                   problems=[p_[1] for p_ in bad[:10]], hops=[h_ for h_ in (hops or [])][:40]))
        if tier == "quick" and m["origin"] in ("param", "multi", "grammar", "grammar-refused") and m["name"] in tabled:
            run.count("descriptor-tables-not-rechecked(round-2 module, second option set)")
            continue            # quick: the descriptor obligation of a round-2 module is generated for its first option set only
        tabled.add(m["name"])
        xi, hp = c10_alias.coq_x(j["dump"], resolved)
        tables.append((case, "-no-gen-PER" not in opts, "-no-gen-OER" not in opts, terms, xi, hp))
        table_jobs.append((j, names_, replay))
        if len(run.cov["samples"]) < 3 and m["origin"] in ("special", "modgen") and len(terms) >= 3:
            run.sample({"module": m["name"], "options": list(opts), "descriptors": len(terms), "first": terms[0][:300]})

    # ---- round 2: the file set and the specialization indices, model vs C and the oracle on the C output alone
    try:
        region_ties(run, res, known_ids)
    except RuntimeError as e:
        run.violation("model:modeldrv", {"what": str(e)[-1500:]}, no_input=True)

    try:
        fold_ties(run, res, known_ids)
    except RuntimeError as e:
        run.violation("model:modeldrv", {"what": str(e)[-1500:]}, no_input=True)

    # the generated obligations
    print("C10: ties done at %.1fs, %d tables" % (time.time() - T0, len(tables)), file=sys.stderr)
    tres = check_tables(scr, tables) if tables else {}
    print("C10: obligations done at %.1fs" % (time.time() - T0), file=sys.stderr)
    nobl, ndone = nthm + len(tables), ndis
    for i, (j, names_, replay) in enumerate(table_jobs):
        st, diag, log = tres.get(i, ("error", [], "not run"))
        if st == "ok":
            ndone += 1
            continue
        run.count("obligation-" + st)
        if st == "error":
            run.violation("translator:Gen_Descr(coqc)", dict(replay, what="generated obligation file does not compile", coqc_tail=log), no_input=True)
            continue
        j["failing_clauses"] = [c for _, c in diag]
        j["failing_descrs"] = [(c, names_.get(d, ("?", "?"))[0], names_.get(d, ("?", "?"))[1], tables[i][3][d] if 0 <= d < len(tables[i][3]) else "") for d, c in diag]
        fid = match_finding("descr", j)
        if fid and fid in known_ids:
            run.known_finding(fid, tables[i][0])
            run.count("known:" + fid)
            continue
        bad = [{"descriptor": names_.get(d, ("?", "?"))[1], "kind": names_.get(d, ("?", "?"))[0], "index": d, "clause": c, "clause_text": CLAUSES.get(c, "?")} for d, c in diag[:8]]
        run.violation("translator:Gen_Descr(clause %s)" % ",".join(sorted({str(c) for _, c in diag})),
                      dict(replay, what="asn1c exited 0 and the code builds, but a type descriptor is internally inconsistent: wf_descr_all = false",
                           failing=bad, terms=[tables[i][3][d][:1500] for d, _ in diag[:2] if 0 <= d < len(tables[i][3])]))

    # (i) thorough: which module reaches which part of the emitter (gcov on a scratch copy of asn1c) - evidence about the generator
    emitter_cov = None
    if tier != "quick" or os.environ.get("C10_GCOV"):
        try:
            import c10_gcov
            A = all_optsets()
            emitter_cov = c10_gcov.coverage_report(mods, lambda i, m_: [(), QUICK_OPTSETS[2], A[(37 * i + 5) % 128]])
            run.count("emitter-coverage:executed-lines", emitter_cov["executed_lines"])
            run.count("emitter-coverage:executable-lines", emitter_cov["executable_lines"])
            run.count("emitter-coverage:switch-arms-never-reached", sum(1 for v in emitter_cov["switch_arms"].values() if v == "NEVER"))
            # kept under notes/ (evidence/ holds one schema-valid file per property): a later quick run overwrites evidence/C10.json, not this
            json.dump(dict(emitter_cov, tier=tier, seed=run.seed), open(os.path.join(VERIF, "notes", "C10-emitter-coverage.json"), "w"), indent=1)
            print("C10: emitter coverage done at %.1fs: %d/%d lines of %s" % (time.time() - T0, emitter_cov["executed_lines"], emitter_cov["executable_lines"], emitter_cov["source"]), file=sys.stderr)
        except Exception as e:          # evidence only: never a verdict
            emitter_cov = {"error": str(e)[-800:]}

    # vlib prints one VIOLATION line per kind among the first 20 recorded: put one of every kind first
    firsts, rest, seen_k = [], [], set()
    for v in run.violations:
        (rest if v["kind"] in seen_k else firsts).append(v)
        seen_k.add(v["kind"])
    run.violations = firsts + rest

    tb = ["Coq 8.16.1 kernel + vm_compute (generated obligations)", "axioms under Print Assumptions: " + (", ".join(sorted(axioms)) or "none (Closed under the global context)"),
          "harness/dumpdescr.c (reads the public asn_TYPE_descriptor_t layout; op-table identity by address)", "lib/c10_util.py (corpus, pipeline, recognisers of the known findings)",
          "gcc/g++/make/ar of this image; the emitted converter-example.mk recipe",
          "OBSERVED, not proved: asn1c's termination by exit and the C compiler's acceptance of the output, on the generated corpus only"]
    return run.finish("translation_validation", (nobl, ndone), trusted_base=tb,
                      checker_cmd="coqc -Q coq A1 <scratch>/gen_descr/Gen_Descr_<n>.v",
                      extra_cov={"theorems": names, "modules": len(mods), "option_sets": len(optsets), "tables_checked": len(tables),
                                 "rule": "one case = (module, option set); non-trivial = went through build + translator; quick: 4 option sets, "
                                         "thorough: asn1c under all 128 subsets, build+translator under 16 rotating subsets per module",
                                 "partial": "(a) termination and (b) buildability are observations on this corpus; (c) is decided inside Coq per run",
                                 "reference_sweep": {"kinds": [k[0] for k in c10_refs.KINDS], "modules": sum(1 for m_ in mods if m_["origin"] == "refs")},
                                 "emitter_coverage": emitter_cov or "thorough tier only (C10_GCOV=1 forces it)"},
                      assumptions=["x86-64 LP64, gcc of this image", "supported constructs = what lib/modgen.py, lib/widegen.py and the hand-made list in lib/c10_util.py exercise",
                                   "descriptor consistency is necessary for, not equal to, codec correctness (C01/C02 tie behaviour)"])


if __name__ == "__main__":
    sys.exit(main(sys.argv[1] if len(sys.argv) > 1 else "quick"))
