"""C03 — decoders accept every valid encoding.
Theorems: coq/Props/Properties_C03.v (the reference BER decoder returns the value for every member of
the family of variant encodings: coq/Rt/BerVariants.v).
Tie (model layer, generated modules of lib/modcorpus.py):
 BER   an independent re-encoder (lib/c03_util.py) rewrites the canonical DER with long-form/padded
       lengths, indefinite lengths, SET OF permutations, segmented OCTET STRINGs; the C decoder must
       return OK, the full length and a DER re-encoding equal to the canonical one; the extracted
       reference decoder must agree; the spec-side variant encoder (ber_var) must produce the same bytes
       as the independent re-encoder for the same choices;
 UPER  the X.691 reading of the model where it differs from the C's own encoding;
 OER   long-form length determinants with leading zero octets, padded quantities;
 XER   layout variants of the C's own BASIC/CANONICAL output (oracle on the C alone)."""
import sys, os
sys.path.insert(0, os.path.join(os.path.dirname(os.path.abspath(__file__)), "..", "lib"))
from vlib import *
from modcorpus import *
import c03_util as U
import c02 as C02

F_CHAIN = "C03-ber-chain-mixed-lengths"
F_OSTAG = "C03-ber-constructed-string-tagged-type"


def ber_variants(plan, rng, tier):
    """yields (label, bytes, ch-string|None, mixed-chain?, segmented?)"""
    nodes = plan.nodes
    k = len(nodes)
    out = []

    def emit(label):
        b, ch = plan.encode()
        out.append((label, b, ch, bool(plan.mixed_chains()), any(n.seg is not None for n in nodes),
                    any(n.seg is not None and n.own_desc for n in nodes)))

    kmax = 6 if tier == "quick" else 8
    if k <= kmax:
        for mask in range(1, 2 ** k):
            plan.reset()
            for i, n in enumerate(nodes):
                if mask >> i & 1:
                    n.lf = U.alt_form(n, rng)
            emit("exh")
    else:
        for lab, f in (("all-indef", lambda n: "i" if n.cons else "s"),
                       ("all-long", lambda n: "l%d" % (U.min_len_octets(len(n.content)) + 1 + (0 if not n.cons else 2))),
                       ("indef+long", lambda n: "i" if n.cons else "l%d" % (U.min_len_octets(len(n.content)) + 3))):
            plan.reset()
            for n in nodes:
                n.lf = f(n)
            emit(lab)
        for i in range(8 if tier == "quick" else 24):
            # one node at a time, so that a failure names its TLV
            plan.reset()
            n = nodes[rng.below(k)]
            n.lf = U.alt_form(n, rng)
            emit("single")
    nsamp = (6 if tier == "quick" else 20)
    for i in range(nsamp):
        plan.reset()
        U.random_choices(plan, rng, seg_ok=(i % 2 == 1), indef_ok=(i % 3 != 2))
        emit("mix")
    # chains kept uniform on purpose (so that the sampled mixes exercise everything else on types with EXPLICIT tags)
    for i in range(nsamp // 2):
        plan.reset()
        U.random_choices(plan, rng, seg_ok=(i % 2 == 1))
        for c in plan.chains:
            if len(c) >= 2:
                f = rng.choice(["i", "d"]) if all(n.cons or n.seg is not None for n in c) else "d"
                for n in c:
                    if f == "i":
                        n.lf = "i"
                    elif n.lf == "i":
                        n.lf = "l%d" % rng.range(3, 5)
        emit("mix-uniform")
    plan.reset()
    seen, res = set(), []
    for v in out:
        if v[1] not in seen:
            seen.add(v[1])
            res.append(v)
    return res


def ber_part(run, model, mods, cases, rng, tier):
    bm = by_module(cases)
    for m in mods:
        if not m.get("exe"):
            continue
        cs = bm.get(m["name"], [])
        lines, meta = [], []
        for c in cs:
            tree = m["trees"][c["tn"]]
            der = bytes.fromhex(c["der"])
            if len(der) > 3000 and tier == "quick" and rng.chance(2, 3):
                continue
            try:
                plan = U.Plan(tree, der)
                plan.annotate_defs(m, c["tn"])
            except (ValueError, IndexError) as e:
                run.violation("harness:plan", {"what": "cannot parse the model's DER along the type: %s" % e, "model_type": c["ts"], "der": c["der"]}, no_input=True)
                continue
            vs = ber_variants(plan, rng, tier)
            if len(der) > 3000:
                vs = vs[:6]
            for (lab, b, ch, mixed, seg, segtl) in vs:
                lines.append("dec %s ber %s" % (c["tn"], b.hex()))
                meta.append((c, lab, b, ch, mixed, seg, segtl))
        out = run_mod(run, m, lines, "C03-ber")
        mlines = []
        for (c, lab, b, ch, mixed, seg, segtl) in meta:
            mlines.append("c03dec %s %s" % (c["ts"], b.hex()))
            if ch is not None:
                mlines.append("bervar %s %s %s" % (c["ts"], c["vs"], ch))
        rcm, mout, merr = run_lines(model, mlines, timeout=1200)
        if rcm != 0 or len(mout) != len(mlines):
            run.violation("model:driver", {"what": "model driver failed", "rc": rcm, "stderr": merr[-1500:]}, no_input=True)
            continue
        mi = 0
        for (c, lab, b, ch, mixed, seg, segtl), l, o in zip(meta, lines, out):
            mo = mout[mi]
            mi += 1
            mv = None
            if ch is not None:
                mv = mout[mi]
                mi += 1
            run.case(l)
            run.count("ber_" + lab)
            if mixed:
                run.count("ber_mixed_chain")
            if seg:
                run.count("ber_segmented")
            exp = "OK %d %s ck=" % (len(b), c["der"])
            replay = {"module": m["text"], "type": c["tn"], "model_type": c["ts"], "value": c["vs"], "variant_kind": lab,
                      "command_line": l, "c": o, "expected": exp, "model": mo, "choices": ch, "canonical_der": c["der"]}
            # spec tie: the variant is the member of the family the theorem speaks about
            if mv is not None and mv != b.hex():
                run.violation("correspondence:BerVariants.ber_var", dict(replay, what="the spec's variant encoder and the independent re-encoder differ for the same choices", ber_var=mv), no_input=True)
            # reference decoder: defined on everything but segmented strings
            mf = mo.split()
            m_ok = (len(mf) >= 3 and mf[0] == "OK" and int(mf[1]) == len(b) and mf[2] == c["der"])
            if not seg and not m_ok:
                run.violation("model:Der.ber_dec", dict(replay, what="the reference decoder does not accept a variant of the family (contradicts ber_complete)"), no_input=True)
            c_ok = o.startswith(exp)      # (the constraint verdict ck is C08's business)
            if c_ok:
                continue
            if mixed and o.startswith("FAIL "):
                run.known_finding(F_CHAIN, l)
                continue
            if segtl and o.startswith("FAIL "):
                run.known_finding(F_OSTAG, l)
                continue
            run.violation("oracle:ber_complete", dict(replay, what="the C BER decoder does not return OK / full length / the value on a valid encoding"))
        if cs and meta:
            run.sample({"type": meta[0][0]["ts"], "der": meta[0][0]["der"][:60], "variant": meta[-1][2].hex()[:80], "choices": (meta[-1][3] or "")[:60]})


def main(tier):
    run = Run("C03", tier)
    rng = Rng(run.seed)
    ok, out = coq_build()
    nthm, ndis, axioms, names, plog = obligations("C03") if ok else (0, 0, set(), [], out)
    gate = grep_gate()
    if not ok or ndis != nthm or gate:
        run.violation("proof:Properties_C03", {"what": "Coq development does not build or an obligation is open",
                                               "log_tail": (out if not ok else plog)[-2000:], "grep_gate": gate}, no_input=True)
    try:
        nm, nt, nv = (8, 5, 5) if tier == "quick" else (40, 6, 10)
        mods, cases = build_corpus(run, rng, nm, nt, nv, tier)
    except BuildError as e:
        run.violation("build", {"what": str(e)[-2500:]}, no_input=True)
        return run.finish("proof", (nthm, ndis))
    model = model_build()
    for m in mods:
        if not m.get("exe"):
            run.violation("build:module", {"what": "a valid generated module was rejected or its code does not compile", "module": m["text"],
                                           "asn1c_out": m.get("asn1c_out", "")[-1200:], "build_log": m.get("build_log", "")[-1200:]})
    ber_part(run, model, mods, cases, rng, tier)
    tb = ["Coq 8.16.1 kernel", "axioms under Print Assumptions: " + (", ".join(sorted(axioms)) or "none (Closed under the global context)"),
          "extraction: ExtrOcamlBasic only; OCaml 4.13.1", "lib/c03_util.py (independent variant generators), lib/modgen.py, harness/moddrv.c, gcc + ASan/UBSan"]
    return run.finish("proof", (nthm, ndis), trusted_base=tb,
                      checker_cmd="make -C /verif all && coqc -Q coq A1 coq/Props/Properties_C03.v",
                      extra_cov={"theorems": names, "modules": len(mods),
                                 "rule": "one case = one decoder command on one variant encoding; distinct command lines",
                                 "traces_validated_against_impl": run.cov["evaluations"]},
                      assumptions=[])


if __name__ == "__main__":
    sys.exit(main(sys.argv[1] if len(sys.argv) > 1 else "quick"))
