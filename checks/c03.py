"""C03 — decoders accept every valid encoding.
Theorems: coq/Props/Properties_C03.v (the reference BER decoder returns the value for every member of
the family of variant encodings: coq/Rt/BerVariants.v).
Tie (model layer, generated modules of lib/modcorpus.py):
 BER   an independent re-encoder (lib/c03_util.py) rewrites the canonical DER with long-form/padded
       lengths, indefinite lengths, SET OF permutations, segmented OCTET STRINGs; the C decoder must
       return OK, the full length and a DER re-encoding equal to the canonical one; the extracted
       reference decoder must agree; the spec-side variant encoder (ber_var) must produce the same bytes
       as the independent re-encoder for the same choices;
 UPER  the X.691 reading of the model where it differs from the C's own encoding;
 OER   long-form length determinants with leading zero octets, padded quantities;
 XER   layout variants of the C's own BASIC/CANONICAL output (oracle on the C alone);
       VALUE-LEVEL variants (lib/c03_xval.py): every character of every string type in every legal spelling, hstring / bstring
       bodies in either case with white space / comments, number and value items with white space around; expected DER computed
       in Python; the text reader also against the extracted model (Rt/ResumeX.v, Rt/EntrefComplete.v);
       UNKNOWN EXTENSION ADDITIONS with arbitrary XML subtrees (lib/c03_xskip.py): documents of a newer version of an extensible
       SEQUENCE / SET / CHOICE written by an independent XER writer, read by the older version; the skip machine against the
       extracted model (Rt/XerSkip.v).
Development switches (not used by bin/vcheck): C03_ONLY=xskip / C03_ONLY=lenk run that part alone, C03_SKIP_PROOFS=1 skips the Coq build."""
import sys, os
sys.path.insert(0, os.path.join(os.path.dirname(os.path.abspath(__file__)), "..", "lib"))
from vlib import *
from modcorpus import *
import c03_util as U
import c02 as C02
import ext_layer            # extensibility layer (lib/ext_layer.py, notes/design/EXT.md)
import setdef_layer         # SET / DEFAULT layer (lib/setdef_layer.py, notes/design/SetDef.md)
import primb_layer          # restricted character strings (lib/primb_layer.py, notes/design/PrimB.md)
import prima_layer          # ENUMERATED / BIT STRING layer (lib/prima_layer.py, notes/design/PrimA.md)
import c03_tagmap as TM
import c03_oerpos as P
import c03_regions as RG
import c03_xval as XV
import c05x_util as X5
import c03_xskip as XS
import c03_lenk as LK       # the NUMBER of length octets of a long form, 1..126 (lib/c03_lenk.py)

F_CHAIN = "C03-ber-chain-mixed-lengths"


def ber_variants(plan, rng, tier, light=False):
    """yields (label, bytes, ch-string|None, mixed-chain?, segmented?)
    light: the directed values of the tag-map modules (the value, not the length forms, is what varies there): DER itself,
    everything indefinite / long / both, two random mixes"""
    nodes = plan.nodes
    k = len(nodes)
    out = []

    def emit(label):
        b, ch = plan.encode()
        out.append((label, b, ch, bool(plan.mixed_chains()), any(n.seg is not None for n in nodes),
                    any(n.seg is not None and n.own_desc for n in nodes)))

    plan.reset()
    emit("der")          # DER is a member of the family
    kmax = 6 if tier == "quick" else 8
    if light:
        for lab, f in (("all-indef", lambda n: "i" if n.cons else "s"),
                       ("all-long", lambda n: "l%d" % (U.min_len_octets(len(n.content)) + 1 + (0 if not n.cons else 2))),
                       ("indef+long", lambda n: "i" if n.cons else "l%d" % (U.min_len_octets(len(n.content)) + 3))):
            plan.reset()
            for n in nodes:
                n.lf = f(n)
            emit(lab)
        for i in range(2 if tier == "quick" else 6):
            plan.reset()
            U.random_choices(plan, rng, seg_ok=False, indef_ok=(i % 2 == 0))
            emit("mix")
        LK.plan_variants(plan, rng, tier, emit, light=True)
        plan.reset()
        seen, res = set(), []
        for v in out:
            if v[1] not in seen:
                seen.add(v[1])
                res.append(v)
        return res
    if k <= kmax:
        for mask in range(1, 2 ** k):
            plan.reset()
            for i, n in enumerate(nodes):
                if mask >> i & 1:
                    n.lf = U.alt_form(n, rng)
            emit("exh")
    else:
        for lab, f in (("all-indef", lambda n: "i" if n.cons else "s"),
                       ("all-long", lambda n: "l%d" % (U.min_len_octets(len(n.content)) + 1 + (0 if not n.cons else 2))),
                       ("indef+long", lambda n: "i" if n.cons else "l%d" % (U.min_len_octets(len(n.content)) + 3))):
            plan.reset()
            for n in nodes:
                n.lf = f(n)
            emit(lab)
        for i in range(8 if tier == "quick" else 24):
            # one node at a time, so that a failure names its TLV
            plan.reset()
            n = nodes[rng.below(k)]
            n.lf = U.alt_form(n, rng)
            emit("single")
    nsamp = (6 if tier == "quick" else 20)
    for i in range(nsamp):
        plan.reset()
        U.random_choices(plan, rng, seg_ok=(i % 2 == 1), indef_ok=(i % 3 != 2))
        emit("mix")
    # chains kept uniform on purpose (so that the sampled mixes exercise everything else on types with EXPLICIT tags)
    for i in range(nsamp // 2):
        plan.reset()
        U.random_choices(plan, rng, seg_ok=(i % 2 == 1))
        for c in plan.chains:
            if len(c) >= 2:
                f = rng.choice(["i", "d"]) if all(n.cons or n.seg is not None for n in c) else "d"
                for n in c:
                    if f == "i":
                        n.lf = "i"
                    elif n.lf == "i":
                        n.lf = "l%d" % rng.range(3, 5)
        emit("mix-uniform")
    # every OCTET STRING in constructed form: the segments are UNIVERSAL 4 whatever the tags of the type and of
    # the member are (chains kept uniform: definite, then indefinite where every TLV of the chain is constructed)
    if any(n.kind == "o" for n in nodes):
        for form in ("d", "i"):
            plan.reset()
            for n in nodes:
                if n.kind == "o":
                    n.seg = U.random_seg(len(n.content), rng)
            if form == "i":
                for c in plan.chains:
                    if all(n.cons or n.seg is not None for n in c):
                        for n in c:
                            n.lf = "i"
            emit("seg-all")
    LK.plan_variants(plan, rng, tier, emit)
    plan.reset()
    seen, res = set(), []
    for v in out:
        if v[1] not in seen:
            seen.add(v[1])
            res.append(v)
    return res


def ber_part(run, model, mods, cases, rng, tier):
    bm = by_module(cases)
    for m in mods:
        if not m.get("exe"):
            continue
        cs = bm.get(m["name"], [])
        lines, meta = [], []
        for c in cs:
            tree = m["trees"][c["tn"]]
            der = bytes.fromhex(c["der"])
            try:
                plan = U.Plan(tree, der)
                plan.annotate_defs(m, c["tn"])
            except (ValueError, IndexError) as e:
                run.violation("harness:plan", {"what": "cannot parse the model's DER along the type: %s" % e, "model_type": c["ts"], "der": c["der"]}, no_input=True)
                continue
            vs = ber_variants(plan, rng, tier, light=c.get("light", False))
            # the reference decoder of the model is quadratic in the number of TLVs: few variants of long values
            k = len(plan.nodes)
            cap = (4 if k > 120 else 8 if k > 40 else 10**6) if tier == "quick" else (8 if k > 400 else 16 if k > 120 else 10**6)
            if len(vs) > cap:
                vs = vs[:3] + [vs[3 + rng.below(len(vs) - 3)] for _ in range(cap - 3)]
            if k > 3000:
                vs = vs[:3]
            run.count("ber_values_%s" % ("k<=6" if k <= 6 else "k<=40" if k <= 40 else "k<=120" if k <= 120 else "k>120"))
            for (lab, b, ch, mixed, seg, segtl) in vs:
                lines.append("dec %s ber %s" % (c["tn"], b.hex()))
                meta.append((c, lab, b, ch, mixed, seg, segtl, k <= 3000))
        import time
        t1 = time.time()
        out = run_mod(run, m, lines, "C03-ber")
        t2 = time.time()
        mlines = []
        for (c, lab, b, ch, mixed, seg, segtl, usem) in meta:
            if usem:
                mlines.append("c03dec %s %s" % (c["ts"], b.hex()))
            if ch is not None and usem:     # (the extracted list functions are not tail recursive: no huge values)
                mlines.append("bervar %s %s %s" % (c["ts"], c["vs"], ch))
        rcm, mout, merr = run_lines(model, mlines, timeout=1200)
        log("C03: ber %s: %d lines, C %.1fs, model %.1fs, max k %d" % (m["name"], len(lines), t2 - t1, time.time() - t2, max([0] + [len(x[2]) for x in meta])))
        if rcm != 0 or len(mout) != len(mlines):
            run.violation("model:driver", {"what": "model driver failed", "rc": rcm, "stderr": merr[-1500:]}, no_input=True)
            continue
        mi = 0
        for (c, lab, b, ch, mixed, seg, segtl, usem), l, o in zip(meta, lines, out):
            mo = None
            if usem:
                mo = mout[mi]
                mi += 1
            else:
                run.count("ber_reference_decoder_skipped(>3000 TLVs)")
            mv = None
            if ch is not None and usem:
                mv = mout[mi]
                mi += 1
            run.case(l)
            run.count("ber_" + lab)
            if mixed:
                run.count("ber_mixed_chain")
            if seg:
                run.count("ber_segmented")
            if segtl:
                run.count("ber_segmented_tagged_type")
            exp = "OK %d %s ck=" % (len(b), c["der"])
            replay = {"module": m["text"], "type": c["tn"], "model_type": c["ts"], "value": c["vs"], "variant_kind": lab,
                      "command_line": l, "c": o, "expected": exp, "model": mo, "choices": ch, "canonical_der": c["der"]}
            # spec tie: the variant is the member of the family the theorem speaks about
            if mv is not None and mv != b.hex():
                run.violation("correspondence:BerVariants.ber_var", dict(replay, what="the spec's variant encoder and the independent re-encoder differ for the same choices", ber_var=mv), no_input=True)
            # reference decoder: defined on everything but segmented strings
            mf = mo.split() if mo is not None else []
            m_ok = (len(mf) >= 3 and mf[0] == "OK" and int(mf[1]) == len(b) and mf[2] == c["der"])
            if not seg and not m_ok and usem:
                run.violation("model:Der.ber_dec", dict(replay, what="the reference decoder does not accept a variant of the family (contradicts ber_complete)"), no_input=True)
            c_ok = o.startswith(exp)      # (the constraint verdict ck is C08's business)
            if c_ok:
                continue
            if mixed and o.startswith("FAIL "):
                run.known_finding(F_CHAIN, l)
                continue
            run.violation("oracle:ber_complete", dict(replay, what="the C BER decoder does not return OK / full length / the value on a valid encoding"))
        if cs and meta:
            run.sample({"type": meta[0][0]["ts"], "der": meta[0][0]["der"][:60], "variant": meta[-1][2].hex()[:80], "choices": (meta[-1][3] or "")[:60]})


def uper_part(run, model, mods, cases, rng, tier):
    """the X.691 reading of the model where the C's own encoder writes something else (a conforming peer sends it)"""
    bm = by_module(cases)
    for m in mods:
        if not m.get("exe"):
            continue
        cs = [c for c in bm.get(m["name"], []) if c["uperstd"] not in ("NONE", c["uper"])]
        if not cs:
            continue
        lines = ["dec %s uper %s" % (c["tn"], c["uperstd"]) for c in cs]
        out = run_mod(run, m, lines, "C03-uper")
        mlines = []
        for c in cs:
            mlines += ["uperdec 1 %s %s" % (c["ts"], c["uperstd"]), "uperdec 0 %s %s" % (c["ts"], c["uperstd"])]
        rcm, mout, merr = run_lines(model, mlines, timeout=1200)
        for i, (c, l, o) in enumerate(zip(cs, lines, out)):
            run.case(l)
            run.count("uper_std")
            n = len(c["uperstd"]) // 2
            exp = "OK %d %s ck=" % (n, c["der"])
            mstd, mfaith = mout[2 * i], mout[2 * i + 1]
            replay = {"module": m["text"], "type": c["tn"], "model_type": c["ts"], "value": c["vs"], "command_line": l, "c": o,
                      "expected": exp, "model_std_decoder": mstd, "model_of_c_decoder": mfaith, "c_own_encoding": c["uper"]}
            mok = (mstd == "OK %d %s" % (n, c["vs"]))
            if not mok and "t" in c["ts"] and mstd.startswith("OK %d " % n):
                # X.691 writes SET OF elements in its own order: same value up to that order?
                _, d2, _ = run_lines(model, ["der %s %s" % (c["ts"], mstd.split()[2])], timeout=300)
                mok = (d2 == [c["der"]])
            if not mok:
                run.violation("model:Uper.uper_dec(std)", dict(replay, what="the X.691 reference decoder does not return the value on the X.691 encoding"), no_input=True)
            if o.startswith(exp):
                continue
            tree = m["trees"][c["tn"]]
            if C02.has_semi(tree):
                run.known_finding("C03-uper-semiconstrained-dec", l)
            elif C02.has_noninvolutive_choice(tree):
                run.known_finding("C03-uper-choice-order-dec", l)
            else:
                run.violation("oracle:uper_complete", dict(replay, what="the C UPER decoder does not return the value on the X.691 encoding"))


def oer_part(run, model, mods, cases, rng, tier):
    """every length determinant / quantity of the encoding in every legal non-canonical form, one position at a time, all at
    once, random mixes (lib/c03_oerpos.py, lib/c03_regions.py:oer_sweep)"""
    jobs = []
    nlight = 0
    for c in cases:
        m = c["mod"]
        if not m.get("exe") or c["oer"] == "NONE" or len(c["der"]) > 6000:
            continue
        if c.get("light"):
            # the directed tag-map values differ in which members are present, not in their determinants: a sample
            nlight += 1
            if nlight % (6 if tier == "quick" else 2):
                continue
        tree = m["trees"][c["tn"]]
        try:
            val = U.Plan(tree, bytes.fromhex(c["der"])).value()
        except (ValueError, IndexError):
            continue
        jobs.append({"mod": m, "tn": c["tn"], "ts": c["ts"], "vs": c["vs"], "tree": tree, "pyval": val, "segs": P.enc(tree, val),
                     "der": c["der"], "canon": c["oer"], "ext": None, "maxpos": (8 if tier == "quick" else 24), "setof": "t" in c["ts"]})
    RG.oer_sweep(run, model, jobs, rng, tier, "C03-oer")


def ext_oer_part(run, model, captured, rng, tier):
    """the extensible types of the ext layer (same modules and values as ext_layer.run_c03): the length of the extension
    presence bitmap, of every open type (extension additions, extension alternatives of a CHOICE) and every determinant
    inside the components, in every legal form"""
    jobs = []
    for c in captured.get("cases", []):
        m = c["m"]
        if not m.get("exe") or c["oer"] == "NONE" or len(c["oer"]) // 2 > ext_layer.BIG or ext_layer.degenerate(c["x"]):
            continue
        x = c["x"]
        try:
            segs = P.enc_ext(x, c["v"])
        except (ValueError, IndexError, TypeError, AttributeError):
            run.count("oer_ext_skipped_value")
            continue
        jobs.append({"mod": m, "tn": c["tn"], "ts": x["ety"], "vs": c["vs"], "pyval": c["v"], "segs": segs, "der": c["der"], "canon": c["oer"],
                     "ext": x, "maxpos": (6 if tier == "quick" else 16), "setof": ext_layer.has_setof(c), "setof_reordered": ext_layer.has_setof(c)})
    RG.oer_sweep(run, model, jobs, rng, tier, "ext:C03-oer")


def xer_part(run, mods, cases, rng, tier):
    """oracle on the C alone: layout variants of the C's own BASIC-XER and CANONICAL-XER output decode to the same value"""
    bm = by_module(cases)
    for m in mods:
        if not m.get("exe"):
            continue
        cs = [c for c in bm.get(m["name"], []) if len(c["der"]) <= 4000]
        if tier == "quick":
            cs = cs[:14]
        l1 = []
        for c in cs:
            for syn in ("xer", "cxer"):
                l1.append(("xcode %s der %s %s" % (c["tn"], c["der"], syn), c, syn))
        o1 = run_mod(run, m, [x[0] for x in l1], "C03-xer-enc")
        lines, meta = [], []
        for (l, c, syn), o in zip(l1, o1):
            if not o.startswith("OK "):
                run.violation("oracle:xer_encode", {"what": "XER encoding of a valid value failed", "module": m["text"], "command_line": l, "c": o})
                continue
            text = bytes.fromhex(o.split()[1]).decode("utf-8")
            seen = set()
            for mode in ("ws", "comment", "empty", "mix", "mix"):
                v = U.xer_variant(text, rng, mode)
                if v in seen or v == text:
                    continue
                seen.add(v)
                lines.append("dec %s xer %s" % (c["tn"], v.encode("utf-8").hex()))
                meta.append((c, syn, mode, text, v))
        out = run_mod(run, m, lines, "C03-xer")
        for (c, syn, mode, text, v), l, o in zip(meta, lines, out):
            run.case(l)
            run.count("xer_%s_%s" % (syn, mode))
            exp = "OK %d %s ck=" % (len(v.encode("utf-8")), c["der"])
            if U.xer_ws_before_boolean(v):
                run.count("xer_ws_before_boolean")
            if not o.startswith(exp):
                run.violation("oracle:xer_complete", {"what": "the C XER decoder does not return OK / full length / the value on a layout variant of its own output",
                                                      "module": m["text"], "type": c["tn"], "value": c["vs"], "layout": syn, "variant_kind": mode,
                                                      "c_output": text, "variant": v, "command_line": l, "c": o, "expected": exp})
        if meta:
            run.sample({"xer": meta[-1][3][:100], "variant": meta[-1][4][:140]})


import contextlib


@contextlib.contextmanager
def ext_build_with_c03_commands():
    """the modules of the ext layer get the C03 commands of harness/moddrv_c03.inc too (`xsk` for lib/c03_xskip.py)"""
    orig = ext_layer.build_modules
    ext_layer.build_modules = lambda mods, tag="mods", **kw: orig(mods, tag=tag, moddrv_extra=os.path.join(HARNESS, "moddrv_c03.inc"), **kw)
    try:
        yield
    finally:
        ext_layer.build_modules = orig


def main(tier):
    run = Run("C03", tier)
    rng = Rng(run.seed)
    only = os.environ.get("C03_ONLY")
    if os.environ.get("C03_SKIP_PROOFS"):
        ok, out, nthm, ndis, axioms, names, plog, gate = True, "", 0, 0, set(), [], "", []
    else:
        ok, out = coq_build()
        nthm, ndis, axioms, names, plog = obligations("C03") if ok else (0, 0, set(), [], out)
        gate = grep_gate()
    if only == "xskip":
        model = model_build()
        mk7 = XS.module()
        build_modules([mk7], tag="c03x", moddrv_extra=os.path.join(HARNESS, "moddrv_c03.inc"))
        if not mk7.get("exe"):
            print(mk7.get("asn1c_out", "")[-1500:], mk7.get("build_log", "")[-1500:])
        with ext_build_with_c03_commands():
            xmods, _ = ext_layer.build(run, ext_layer.own_rng(run, 3), tier, "extc03")
        XS.run_part(run, model, mk7, xmods, Rng(run.seed * 1000003 + 39), tier, run_mod, run_lines)
        import collections
        log("C03_ONLY=xskip: violations by kind: %s" % dict(collections.Counter(v["kind"] for v in run.violations)))
        log("C03_ONLY=xskip: by case family: %s" % dict(collections.Counter(str(v.get("case", "")).split("|")[-1].split(":")[0] for v in run.violations)))
        return run.finish("proof", (nthm, ndis))
    if only == "lenk":
        model = model_build()
        ml8 = LK.module()
        build_modules([ml8], tag="c03x", moddrv_extra=os.path.join(HARNESS, "moddrv_c03.inc"))
        LK.run_part(run, model, ml8, Rng(run.seed * 1000003 + 41), tier, run_mod, correspond, build_leafdrv)
        import collections
        log("C03_ONLY=lenk: violations by kind: %s" % dict(collections.Counter(v["kind"] for v in run.violations)))
        return run.finish("proof", (nthm, ndis))
    if not ok or ndis != nthm or gate:
        run.violation("proof:Properties_C03", {"what": "Coq development does not build or an obligation is open",
                                               "log_tail": (out if not ok else plog)[-2000:], "grep_gate": gate}, no_input=True)
    try:
        nm, nt, nv = (8, 5, 5) if tier == "quick" else (40, 6, 10)
        mods, cases = build_corpus(run, rng, nm, nt, nv, tier)
    except BuildError as e:
        run.violation("build", {"what": str(e)[-2500:]}, no_input=True)
        return run.finish("proof", (nthm, ndis))
    model = model_build()
    # hand-made modules: OCTET STRING types and members under IMPLICIT / EXPLICIT tags (MO3); the tag-to-member map
    # families (MT1: SEQUENCE + CHOICE, inside the modelled algebra; MT2: SET) of lib/c03_tagmap.py
    sm = U.string_module()
    mt1, mt2 = TM.modules(tier)
    mo5 = RG.wide_module()
    # value-level XER variants (lib/c03_xval.py): MS5 of lib/c05x_util.py and the directed module MX6
    ms5, mx6 = X5.string_module(), XV.module()
    # unknown extension additions in XER (lib/c03_xskip.py): the directed readers MK7
    mk7 = XS.module()
    ml8 = LK.module()
    build_modules([sm, mt1, mt2, mo5, ms5, mx6, mk7, ml8], tag="c03x", moddrv_extra=os.path.join(HARNESS, "moddrv_c03.inc"))
    for m in (ms5, mx6, mk7):
        if not m.get("exe"):
            run.violation("build:module", {"what": "a hand-written module of string / number types was rejected or its code does not compile", "module": m["text"],
                                           "asn1c_out": m.get("asn1c_out", "")[-1200:], "build_log": m.get("build_log", "")[-1200:]})
    mods += [sm, mt1]
    sc = []
    if sm.get("exe"):
        for tn, _ in sm["defs"]:
            tree, seen = sm["trees"][tn], set()
            for _ in range(6 if tier == "quick" else 16):
                vs = val_str(value(tree, rng))
                if vs not in seen:
                    seen.add(vs)
                    sc.append({"mod": sm, "tn": tn, "ts": model_str(tree), "vs": vs})
    if mt1.get("exe"):
        sc += RG.directed_cases(mt1, tier)
    if sc:
        ml = []
        for c in sc:
            ml += ["der %s %s" % (c["ts"], c["vs"]), "uper 0 %s %s" % (c["ts"], c["vs"]), "uper 1 %s %s" % (c["ts"], c["vs"]), "oer %s %s" % (c["ts"], c["vs"])]
        rcm, mo, me = run_lines(model, ml, timeout=600)
        if rcm != 0 or len(mo) != len(ml):
            raise RuntimeError("model driver failed (MO3/MT1): %s %s" % (rcm, me))
        for i, c in enumerate(sc):
            c["der"], c["uper"], c["uperstd"], c["oer"] = mo[4 * i:4 * i + 4]
            if c.get("light") and c["der"] != TM.der(mt1["trees"][c["tn"]], c["pyval"]).hex():
                run.violation("harness:der-encoder", {"what": "the DER encoder of lib/c03_tagmap.py and the model disagree", "model_type": c["ts"], "value": c["vs"],
                                                      "model": c["der"], "python": TM.der(mt1["trees"][c["tn"]], c["pyval"]).hex()}, no_input=True)
        cases += [c for c in sc if c["der"] != "NONE"]
    if not mt2.get("exe"):
        run.violation("build:module", {"what": "the directed SET module was rejected or its code does not compile", "module": mt2["text"],
                                       "asn1c_out": mt2.get("asn1c_out", "")[-1200:], "build_log": mt2.get("build_log", "")[-1200:]})
    for m in mods:
        if not m.get("exe"):
            run.violation("build:module", {"what": "a valid generated module was rejected or its code does not compile", "module": m["text"],
                                           "asn1c_out": m.get("asn1c_out", "")[-1200:], "build_log": m.get("build_log", "")[-1200:]})
    import time
    t0 = time.time()
    log("C03: corpus built %.1fs" % (t0 - T0))
    RG.tagmap_part(run, model, mt1, mt2, rng, tier)
    t0 = time.time()
    ber_part(run, model, mods, cases, rng, tier)
    log("C03: ber %.1fs" % (time.time() - t0)); t0 = time.time()
    uper_part(run, model, mods, cases, rng, tier)
    log("C03: uper %.1fs" % (time.time() - t0)); t0 = time.time()
    oer_part(run, model, mods, cases, rng, tier)
    RG.wide_oer_part(run, mo5, rng, tier)
    log("C03: oer %.1fs" % (time.time() - t0)); t0 = time.time()
    xer_part(run, mods, cases, rng, tier)
    log("C03: xer %.1fs" % (time.time() - t0)); t0 = time.time()
    # a stream of its own: the corpus of the earlier rounds stays what it was
    XV.run_part(run, model, ms5, mx6, Rng(run.seed * 1000003 + 36), tier, run_mod, run_lines)
    log("C03: xer value-level variants %.1fs" % (time.time() - t0))
    # the ext layer builds its modules and values itself; they are captured here for the OER determinant sweep
    captured = {}
    orig_build, orig_encode = ext_layer.build, ext_layer.model_encode

    def build_cap(*a, **kw):
        r = orig_build(*a, **kw)
        captured["mods"] = r[0]
        return r

    def encode_cap(*a, **kw):
        r = orig_encode(*a, **kw)
        captured["cases"] = r
        return r
    ext_layer.build, ext_layer.model_encode = build_cap, encode_cap
    try:
        with ext_build_with_c03_commands():
            ext_layer.run_c03(run, rng, tier)
        setdef_layer.run_c03(run, rng, tier)
        primb_layer.run_c03(run, rng, tier)
    finally:
        ext_layer.build, ext_layer.model_encode = orig_build, orig_encode
    prima_layer.run_c03(run, rng, tier)
    t0 = time.time()
    ext_oer_part(run, model, captured, Rng(run.seed * 1000003 + 33), tier)
    log("C03: ext oer sweep %.1fs" % (time.time() - t0))
    t0 = time.time()
    # XER documents of newer versions with arbitrary unknown subtrees: MK7 and the families the ext layer has built (a stream of its own)
    XS.run_part(run, model, mk7, captured.get("mods") or [], Rng(run.seed * 1000003 + 39), tier, run_mod, run_lines)
    log("C03: xer unknown additions %.1fs" % (time.time() - t0))
    # the number of length octets of a long-form BER length, 1..126 (+ 127 reserved): ML8 and the leaf functions (a stream of its own)
    LK.run_part(run, model, ml8, Rng(run.seed * 1000003 + 41), tier, run_mod, correspond, build_leafdrv)
    tb = ["Coq 8.16.1 kernel", "axioms under Print Assumptions: " + (", ".join(sorted(axioms)) or "none (Closed under the global context)"),
          "extraction: ExtrOcamlBasic only; OCaml 4.13.1", "lib/c03_util.py, lib/c03_xval.py, lib/c03_xskip.py, lib/c05x_util.py (independent variant generators and expected values), lib/modgen.py, harness/moddrv.c, gcc + ASan/UBSan"]
    return run.finish("proof", (nthm, ndis), trusted_base=tb,
                      checker_cmd="make -C /verif all && coqc -Q coq A1 coq/Props/Properties_C03.v",
                      extra_cov={"theorems": names, "modules": len(mods),
                                 "rule": "one case = one decoder command on one variant encoding; distinct command lines",
                                 "traces_validated_against_impl": run.cov["evaluations"]},
                      assumptions=[])


if __name__ == "__main__":
    sys.exit(main(sys.argv[1] if len(sys.argv) > 1 else "quick"))
