"""C07 — encoder API contract (asn_encode, asn_encode_to_buffer, asn_encode_to_new_buffer).
Theorems: coq/Props/Properties_C07.v over coq/Rt/AppApi.v (wrappers, callbacks, errno
mapping, UPER complete-encoding rule; unbounded over every well-behaved inner encoder and
every chunk list) and the model encoders of coq/Rt.
Tie: for generated modules and values, all five encoders of the C built from /repo:
  (i)   the output callback fails at EVERY invocation index k: ret -1, EIO, calls k+1,
        delivered bytes = the first k chunks of the fault-free run, process survives;
  (ii)  asn_encode_to_buffer for EVERY size 0..n+1 into an exact-size malloc under ASan:
        constant return, buffer = the chunks that fit followed by untouched bytes;
  (iii) asn_encode_to_new_buffer: exact content;
  (iv)  un-encodable structures: constraint-violating values (transported as DER),
        partially initialised structures (CHOICE present 0, NULL mandatory pointers,
        NULL list elements, all-zero structures): -1 with an errno, never a crash.
Each observed run is compared with the extracted model of the wrappers fed with the
observed fault-free trace (faithfulness) and with the property evaluated directly in
Python on the C output (oracle)."""
import sys, os, re
sys.path.insert(0, os.path.join(os.path.dirname(os.path.abspath(__file__)), "..", "lib"))
from vlib import *
from modcorpus import *

INC = os.path.join(HARNESS, "moddrv_c07.inc")
SYNS = ["der", "uper", "oer", "xer", "cxer"]
MAXHEX = 400          # values <= 200 bytes of DER: fault index x buffer size is quadratic


def fnv(b):
    h = 1469598103934665603
    for x in b:
        h = ((h ^ x) * 1099511628211) & 0xFFFFFFFFFFFFFFFF
    return "%016x" % h


def unhex(s):
    return b"" if s == "-" else bytes.fromhex(s)


def kv(seg):
    d = {}
    for p in seg.split():
        if "=" in p:
            a, b = p.split("=", 1)
            d[a] = b
    return d


# ---------------------------------------------------------------- hand-made modules

EXTRA_TEXT = """C07X DEFINITIONS AUTOMATIC TAGS ::= BEGIN
  EO ::= SEQUENCE { a INTEGER (0..7) OPTIONAL, b BOOLEAN, ... }
  PO ::= SEQUENCE { a INTEGER (0..7) OPTIONAL, b BOOLEAN }
  NU ::= NULL
  SN ::= SEQUENCE { n NULL, b BOOLEAN }
  RC ::= SEQUENCE { v INTEGER (0..255), c CHOICE { end NULL, more RC } }
  SS ::= SET OF INTEGER (0..255)
  FO ::= OCTET STRING (SIZE(3))
  I7 ::= INTEGER (0..7)
  SV ::= SET OF INTEGER (0..7)
  BP ::= BIT STRING (SIZE(24))
END
"""
# (type, DER of a value)
EXTRA_VALUES = [
    ("EO", "3006800105810100"), ("EO", "30038101ff"),
    ("PO", "3006800105810100"), ("PO", "30038101ff"),
    ("NU", "0500"),
    ("SN", "300580008101ff"),
    ("RC", "300780010aa1028000"),
    ("RC", "300e800101a109a107800102a1028000"),
    ("SS", "3100"), ("SS", "3109020105020103020104"),
    ("FO", "0403010203"), ("FO", "040401020304"), ("FO", "0400"),
    ("I7", "020105"), ("I7", "020109"), ("I7", "0201ff"),
    ("SV", "3106020101020103"), ("SV", "3106020101020109"),
    # shorter than the fixed size: BIT_STRING_encode_oer pads with zero octets (1, 3 and 0 octets of padding)
    ("BP", "03030000aa"), ("BP", "030100"), ("BP", "030400aabbcc"),
]


def extra_module():
    names = ["EO", "PO", "NU", "SN", "RC", "SS", "FO", "I7", "SV", "BP"]
    return {"name": "C07X", "default": "AUTOMATIC", "defs": [(n, None) for n in names], "trees": {}, "text": EXTRA_TEXT}


# ---------------------------------------------------------------- constraint-violating values

def violate(tree, v, rng):
    """returns a list of values of the tree's shape that break exactly one non-extensible constraint"""
    k = tree[0]
    out = []
    if k == "i":
        lo, hi, ext = tree[2], tree[3], tree[4]
        if not ext:
            # (an INTEGER with unsigned specifics reads the contents octet ff as 255: -1 is not expressible)
            if lo is not None and lo - 1 >= -2**63 and not (lo >= 0 and (hi is None or hi >= 2**31)):
                out.append(lo - 1)
            if hi is not None and hi + 1 < 2**63:
                out.append(hi + 1)
    elif k == "o":
        lo, hi, ext = tree[2], tree[3], tree[4]
        if not ext:
            if lo is not None and lo > 0:
                out.append(bytes(v[:lo - 1]))
            if hi is not None and hi < 100:
                out.append(bytes(v) + bytes(hi + 1 - len(v)))
    elif k == "s":
        for i, m in enumerate(tree[2]):
            mv = v[1][i]
            if m[0] == "?":
                if mv[0] == "!":
                    for w in violate(m[1], mv[1], rng):
                        out.append(("S", v[1][:i] + [("!", w)] + v[1][i + 1:]))
            else:
                for w in violate(m, mv, rng):
                    out.append(("S", v[1][:i] + [w] + v[1][i + 1:]))
    elif k in ("q", "t"):
        lo, hi, ext = tree[2] if tree[2] else (0, None, False)
        if not ext:
            if lo is not None and lo > 0 and len(v[1]) >= lo:
                out.append(("L", v[1][:lo - 1]))
            if hi is not None and hi < 50 and v[1]:
                out.append(("L", (v[1] * (hi + 1))[:hi + 1]))
        if v[1]:
            for w in violate(tree[3], v[1][0], rng):
                out.append(("L", [w] + v[1][1:]))
    elif k == "c":
        for w in violate(tree[1][v[1]], v[2], rng):
            out.append(("C", v[1], w))
    elif k == "x":
        out = violate(tree[2], v, rng)
    return out


# ---------------------------------------------------------------- the per-case oracles

class Ctx:
    def __init__(self, run, model):
        self.run = run
        self.model = model
        self.mlines = []          # model command lines
        self.mexpect = []         # (replay dict, expected line from the C)


def check_sweep(ctx, m, tn, der, syn, out, model_bytes, label):
    """out: the `sweep` result line.  model_bytes: hex | 'NONE' | None (no model for this syntax)."""
    run = ctx.run
    line = "sweep %s der %s %s" % (tn, der, syn)
    rep = {"module": m["text"], "type": tn, "der": der, "syntax": syn, "command_line": line, "c": out[:1500], "label": label}
    segs = out.split(" | ")
    head = kv(segs[0])
    if "DIED" in segs[0] or "ret" not in head:
        run.violation("crash:encode(%s)" % syn, dict(rep, what="the fault-free encoder call died or gave no result"))
        return None
    ret, n = int(head["ret"]), int(head["n"])
    sizes = [] if head["sizes"] == "-" else [int(x) for x in head["sizes"].split(",")]
    data = unhex(head["hex"])
    run.count("enc_%s_%s" % (syn, "ok" if ret >= 0 else head["errno"]))
    # size accounting (oracle on the C alone)
    if int(head["calls"]) != n or len(sizes) != n or sum(sizes) != len(data):
        run.violation("oracle:trace", dict(rep, what="inconsistent trace (calls/sizes/bytes)"))
        return None
    if ret >= 0 and ret != len(data):
        run.violation("oracle:size_accounting(%s)" % syn, dict(rep, what="reported size %d differs from the %d bytes delivered to the callback" % (ret, len(data))))
    if ret < 0 and (ret != -1 or head["errno"] in ("E0", "EIO")):
        run.violation("oracle:errno(%s)" % syn, dict(rep, what="failure without a proper errno: ret=%d errno=%s" % (ret, head["errno"])))
    # faithfulness of the model encoders (bytes; un-encodable <-> -1)
    if model_bytes is not None:
        exp = "NONE" if model_bytes == "NONE" else model_bytes
        got = "NONE" if ret < 0 else (data.hex() if data else "-")
        if exp != got and not (exp == "" and got == "-"):
            if label == "valid":
                run.violation("correspondence:Rt.%s" % syn, dict(rep, what="C encoder result differs from the model", model=exp, got=got), no_input=(ret < 0 or ret == len(data)))
            elif exp == "NONE":
                run.violation("correspondence:unencodable(%s)" % syn, dict(rep, what="the model cannot encode this value (None) but the C returned %d" % ret, model=exp, got=got), no_input=True)
            else:
                run.count("invalid_value_encoded_differently_%s" % syn)
    # callback failure at every index
    chunks = []
    off = 0
    for s in sizes:
        chunks.append(data[off:off + s])
        off += s
    for k in range(n):
        run.case("%s k=%d" % (line, k))
        if 1 + k >= len(segs):
            break                 # the child ended at an earlier k (already reported)
        seg = segs[1 + k]
        d = kv(seg)
        rk = dict(rep, k=k, c=seg, replay_cmd="trace %s der %s %s %d" % (tn, der, syn, k))
        if "DIED" in seg:
            run.violation("crash:cbfail(%s)" % syn, dict(rk, what="the process died (abort/signal/sanitizer) when the callback failed at invocation %d" % k))
            continue
        want = "ret=-1 errno=EIO calls=%d d=%d:%s" % (k + 1, sum(sizes[:k]), fnv(b"".join(chunks[:k])))
        got = "ret=%s errno=%s calls=%s d=%s" % (d.get("ret"), d.get("errno"), d.get("calls"), d.get("d"))
        if got != want:
            run.violation("oracle:cb_failure_eio(%s)" % syn, dict(rk, what="callback failing at invocation %d: expected [%s] got [%s]" % (k, want, got)))
        run.count("cbfail_%s" % syn)
    return ret, chunks


def check_bufsweep(ctx, m, tn, der, syn, out, ret, chunks, label):
    run = ctx.run
    total = sum(len(c) for c in chunks)
    line = "bufsweep %s der %s %s %d" % (tn, der, syn, total + 1)
    rep = {"module": m["text"], "type": tn, "der": der, "syntax": syn, "command_line": line, "label": label}
    segs = out.split(" | ")
    if "DIED" in out and "sig=6" not in out:
        bad = [sg for sg in segs if "DIED" in sg][0]
        run.violation("crash:to_buffer(%s)" % syn, dict(rep, c=bad, replay_cmd="tobuf7 %s der %s %s %s" % (tn, der, syn, kv(bad).get("s", "?")),
                                                      what="the process died in asn_encode_to_buffer (sanitizer report: write beyond the buffer, or signal) at [%s]" % bad))
        return
    if len(segs) != total + 2:
        run.violation("oracle:to_buffer(%s)" % syn, dict(rep, what="unexpected driver output", c=out[:800]))
        return
    for s, seg in enumerate(segs):
        run.case("%s s=%d" % (line, s))
        d = kv(seg)
        rk = dict(rep, size=s, c=seg, replay_cmd="tobuf7 %s der %s %s %d" % (tn, der, syn, s))
        if "DIED" in seg:
            run.violation("crash:to_buffer(%s)" % syn, dict(rk, what="the process died in asn_encode_to_buffer with buffer size %d (write beyond the buffer, abort or signal)" % s))
            continue
        # the chunks that fit, then untouched filler
        buf = bytearray(b"\xa5" * s)
        off = 0
        for c in chunks:
            if off + len(c) > s:
                break
            buf[off:off + len(c)] = c
            off += len(c)
        if ret >= 0:
            want = "ret=%d errno=E0 h=%s" % (ret, fnv(bytes(buf)))
            got = "ret=%s errno=%s h=%s" % (d.get("ret"), d.get("errno"), d.get("h"))
        else:
            want = "ret=-1"
            got = "ret=%s" % d.get("ret")
            if d.get("errno") in ("E0", "EIO"):
                got += " errno=" + d.get("errno")
        if got != want:
            run.violation("oracle:to_buffer_size_invariant(%s)" % syn, dict(rk, what="buffer size %d: expected [%s] got [%s]" % (s, want, got)))
        run.count("tobuf_%s" % syn)


def check_newbuf(ctx, m, tn, der, syn, out, ret, chunks, label):
    run = ctx.run
    line = "newbuf %s der %s %s" % (tn, der, syn)
    rep = {"module": m["text"], "type": tn, "der": der, "syntax": syn, "command_line": line, "c": out[:800], "label": label}
    run.case(line)
    d = kv(out)
    data = b"".join(chunks)
    if ret >= 0:
        want = "ret=%d buf=%s errno=E0" % (ret, data.hex() if data else "-")
        got = "ret=%s buf=%s errno=%s" % (d.get("ret"), d.get("buf"), d.get("errno"))
        if want != got:
            run.violation("oracle:new_buffer_exact(%s)" % syn, dict(rep, what="expected [%s] got [%s]" % (want[:300], got[:300])))
    else:
        if d.get("ret") != "-1" or d.get("errno") in ("E0", "EIO", None):
            run.violation("oracle:new_buffer_exact(%s)" % syn, dict(rep, what="failing encoder: expected ret=-1 with an errno, got [%s]" % out[:200]))
        elif d.get("buf") != "NULL":
            # asn_application.h: "On failure: (.buffer) is NULL" (theorem C07_new_buffer_null_on_failure)
            run.violation("oracle:new_buffer_null_on_failure(%s)" % syn, dict(rep, what="asn_encode_to_new_buffer failed (ret=-1) but returned a non-NULL buffer: [%s]" % out[:200]))
    run.count("newbuf_%s" % syn)


def check_battery(ctx, m, tn, line, out):
    """`mut` / `zero` result: partially initialised structure through the three entry points"""
    run = ctx.run
    rep = {"module": m["text"], "type": tn, "command_line": line, "c": out[:1200]}
    segs = out.split(" | ")
    kind = kv(segs[0]).get("kind", "?")
    for seg in segs[1:]:
        syn = seg.split()[0]
        run.case(line + " " + syn)
        run.count("partial_%s_%s" % (kind, syn))
        if "DIED" in seg:
            run.violation("crash:partial(%s,%s)" % (kind, syn), dict(rep, segment=seg, what="the process died encoding a partially initialised structure (%s) with %s" % (kind, syn)))
            continue
        d = kv(seg)
        enc = d["enc"].split(":")
        buf = d["buf"].split(":")
        new = d["new"].split(":")
        eret = int(enc[0])
        must_fail = kind in ("PRES0", "PRESBIG", "PTRNULL")
        if must_fail and not (eret == -1 and int(buf[0]) == -1 and int(new[0]) == -1):
            run.violation("oracle:unencodable(%s,%s)" % (kind, syn), dict(rep, segment=seg, what="a structure that cannot be encoded (%s) was encoded: %s" % (kind, seg)))
            continue
        for nm, r in (("asn_encode", enc), ("asn_encode_to_buffer", buf), ("asn_encode_to_new_buffer", new)):
            if int(r[0]) < 0 and (int(r[0]) != -1 or r[1] in ("E0", "EIO")):
                run.violation("oracle:errno(%s,%s)" % (kind, syn), dict(rep, segment=seg, what="%s failed without a proper errno: %s" % (nm, ":".join(r))))
        if eret >= 0:
            if int(enc[3]) != eret or int(buf[0]) != eret or int(new[0]) != eret or new[2] != "PTR":
                run.violation("oracle:size_accounting(%s,%s)" % (kind, syn), dict(rep, segment=seg, what="entry points disagree on the size: %s" % seg))
        else:
            if int(buf[0]) != -1 or int(new[0]) != -1:
                run.violation("oracle:size_accounting(%s,%s)" % (kind, syn), dict(rep, segment=seg, what="entry points disagree on failure: %s" % seg))
            elif new[2] != "NULL":
                run.violation("oracle:new_buffer_null_on_failure(%s,%s)" % (kind, syn), dict(rep, segment=seg, what="asn_encode_to_new_buffer failed but returned a non-NULL buffer: %s" % seg))


# ---------------------------------------------------------------- model side

def model_script(syn, ret, chunks, uper_zero):
    """the inner encoder's script reconstructed from the fault-free trace:
    <bits 0|1> <ending: ok:<n> | fail:<0|1>> <chunks c1,c2,..|->"""
    bits = 1 if syn == "uper" else 0
    cs = list(chunks)
    if ret < 0:
        ending = "fail:1"
    elif bits:
        if uper_zero:
            cs = []
            ending = "ok:0"
        else:
            ending = "ok:%d" % (8 * sum(len(c) for c in cs))
    else:
        ending = "ok:%d" % sum(len(c) for c in cs)
    return "%d %s %s" % (bits, ending, ",".join(c.hex() if c else "e" for c in cs) or "-")


def model_part(ctx, items):
    """items: (replay, syn, ret, errno, chunks, uper_zero).  The extracted wrappers (asn_encode with the
    fault oracle at every k, asn_encode_to_buffer at every size, asn_encode_to_new_buffer) are fed with the
    script reconstructed from the C's fault-free trace; their predictions must equal what the C did
    (Python recomputes the C side's canonical line from the sweep data already checked above)."""
    run = ctx.run
    lines, expect = [], []
    for rep, syn, ret, errno, chunks, uz in items:
        sc = model_script(syn, ret, chunks, uz)
        n = len(chunks)
        total = sum(len(c) for c in chunks)
        data = b"".join(chunks)
        lines.append("c07_encode %s -1" % sc)
        expect.append((rep, "ret=%d errno=%s calls=%d hex=%s" % (ret, errno if ret < 0 else "E0", n, data.hex() or "-")))
        for k in range(n):
            lines.append("c07_encode %s %d" % (sc, k))
            expect.append((rep, "ret=-1 errno=EIO calls=%d hex=%s" % (k + 1, b"".join(chunks[:k]).hex() or "-")))
        for s in range(total + 2):
            buf = bytearray(b"\xa5" * s)
            off = 0
            for c in chunks:
                if off + len(c) > s:
                    break
                buf[off:off + len(c)] = c
                off += len(c)
            lines.append("c07_tobuf %s %d" % (sc, s))
            expect.append((rep, "ret=%d errno=%s oob=0 buf=%s" % (ret, errno if ret < 0 else "E0", bytes(buf).hex() or "-")))
        lines.append("c07_newbuf %s -1" % sc)
        if ret >= 0:
            expect.append((rep, "ret=%d errno=E0 buf=%s" % (ret, data.hex() or "-")))
        else:
            expect.append((rep, "ret=-1 errno=%s buf=NULL" % errno))      # (.buffer) is NULL on failure (check_newbuf saw it on the C)
    rc, mo, me = run_lines(ctx.model, lines, timeout=900)
    if rc != 0 or len(mo) != len(lines):
        raise RuntimeError("model driver failed: rc=%s lines=%d/%d %s" % (rc, len(mo), len(lines), me[-500:]))
    for l, o, (rep, want) in zip(lines, mo, expect):
        run.count("model_" + l.split()[0])
        if o != want:
            run.violation("correspondence:AppApi(%s)" % l.split()[0],
                          dict(rep, what="the extracted model of the wrappers, fed with the C's fault-free trace, predicts a different result than the C produced",
                               model_command=l[:600], model=o[:600], c_canonical=want[:600]), no_input=True)


# ---------------------------------------------------------------- main

def main(tier):
    run = Run("C07", tier)
    rng = Rng(run.seed)
    ok, out = coq_build()
    nthm, ndis, axioms, names, plog = obligations("C07") if ok else (0, 0, set(), [], out)
    gate = grep_gate()
    if not ok or ndis != nthm or gate or nthm == 0:
        run.violation("proof:Properties_C07", {"what": "Coq development does not build or an obligation is open",
                                               "log_tail": (out if not ok else plog)[-2000:], "grep_gate": gate}, no_input=True)
    model = model_build()
    ctx = Ctx(run, model)
    try:
        nm, nt, nv = (8, 5, 4) if tier == "quick" else (40, 6, 8)
        mods, cases = build_corpus(run, rng, nm, nt, nv, tier, tag="c07mods", moddrv_extra=INC)
        xm = extra_module()
        build_modules([xm], tag="c07x", moddrv_extra=INC)
    except BuildError as e:
        run.violation("build", {"what": str(e)[-2500:]}, no_input=True)
        return run.finish("proof", (nthm, ndis))
    for m in mods + [xm]:
        if not m.get("exe"):
            run.violation("build:module", {"what": "asn1c rejected a module or its output does not compile", "module": m["text"],
                                           "asn1c_out": m.get("asn1c_out", "")[-1500:], "build_log": m.get("build_log", "")[-1500:]})
    # ---- the work list: (module, type, der, label, model bytes per syntax)
    work = []
    perm = 6 if tier == "quick" else 16          # MS0 has very many integer cases: keep a sample per type
    seen_t = {}
    for c in cases:
        if len(c["der"]) > MAXHEX:
            continue
        key = (c["mod"]["name"], c["tn"])
        seen_t[key] = seen_t.get(key, 0) + 1
        if c["mod"]["name"] == "MS0" and seen_t[key] > perm:
            continue
        work.append((c["mod"], c["tn"], c["der"], "valid", {"der": c["der"], "uper": c["uper"], "oer": c["oer"]}))
    # constraint-violating values: transported as DER (the BER decoder does not check constraints)
    inv = []
    for m in mods:
        if not m.get("exe"):
            continue
        for tn, _t in m["defs"]:
            tree = m["trees"][tn]
            for _ in range(2 if tier == "quick" else 5):
                v = value(tree, rng)
                vs = violate(tree, v, rng)
                if vs:
                    inv.append((m, tn, model_str(tree), val_str(rng.choice(vs))))
    if inv:
        lines = []
        for m, tn, ts, vs in inv:
            lines += ["der %s %s" % (ts, vs), "uper 0 %s %s" % (ts, vs), "oer %s %s" % (ts, vs)]
        rcm, mo, me = run_lines(model, lines, timeout=600)
        if rcm != 0 or len(mo) != len(lines):
            raise RuntimeError("model driver failed: %s" % me[-500:])
        for i, (m, tn, ts, vs) in enumerate(inv):
            d, u, o = mo[3 * i:3 * i + 3]
            if d != "NONE" and len(d) <= MAXHEX:
                work.append((m, tn, d, "violating", {"der": d, "uper": u, "oer": o}))
    for tn, d in EXTRA_VALUES:
        work.append((xm, tn, d, "extra", {}))
    # ---- run
    bym = {}
    for w in work:
        if w[0].get("exe"):
            bym.setdefault(w[0]["name"], []).append(w)
    model_items = []
    for mname, ws in bym.items():
        m = ws[0][0]
        lines = []
        for (_m, tn, der, label, mb) in ws:
            for syn in SYNS:
                lines.append("sweep %s der %s %s" % (tn, der, syn))
        out = run_mod(run, m, lines, "C07")
        res = {}
        lines2, idx2 = [], []
        i = 0
        for wi, (_m, tn, der, label, mb) in enumerate(ws):
            for syn in SYNS:
                o = out[i]
                i += 1
                if o.startswith("DECFAIL") or o in ("CRASH", "BADARG"):
                    if label == "valid" or o in ("CRASH", "BADARG"):
                        run.violation("harness:decode", {"what": "transport DER not accepted", "module": m["text"], "type": tn, "der": der, "c": o}, no_input=True)
                    continue
                r = check_sweep(ctx, m, tn, der, syn, o, mb.get(syn), label)
                if r is None:
                    continue
                ret, chunks = r
                total = sum(len(c) for c in chunks)
                lines2.append("bufsweep %s der %s %s %d" % (tn, der, syn, total + 1))
                idx2.append(("buf", tn, der, syn, ret, chunks, label))
                lines2.append("newbuf %s der %s %s" % (tn, der, syn))
                idx2.append(("new", tn, der, syn, ret, chunks, label))
                uz = (syn == "uper" and ret == 1 and chunks == [b"\x00"] and (mb.get("uper") in ("00", None)) and label != "violating" and tn not in ("I7",))
                head = kv(o.split(" | ")[0])
                if total <= 64 or rng.chance(1, 4):
                    model_items.append(({"module": m["text"], "type": tn, "der": der, "syntax": syn, "label": label}, syn, ret, head["errno"], chunks, uz))
        out2 = run_mod(run, m, lines2, "C07")
        for o, (kind, tn, der, syn, ret, chunks, label) in zip(out2, idx2):
            if kind == "buf":
                check_bufsweep(ctx, m, tn, der, syn, o, ret, chunks, label)
            else:
                check_newbuf(ctx, m, tn, der, syn, o, ret, chunks, label)
        # partially initialised structures
        lines3 = []
        per_type = {}
        for (_m, tn, der, label, mb) in ws:
            if label == "violating":
                continue
            per_type[tn] = per_type.get(tn, 0) + 1
            if per_type[tn] > (2 if tier == "quick" else 5):
                continue
            lines3.append("sites %s der %s" % (tn, der))
        out3 = run_mod(run, m, lines3, "C07")
        lines4 = []
        for l, o in zip(lines3, out3):
            f = o.split()
            if not f or not f[0].isdigit():
                continue
            ns = int(f[0])
            _, tn, _, der = l.split()
            pick = list(range(ns))
            if ns > 8:
                rng.shuffle(pick)
                pick = pick[:8]
            for s in pick:
                lines4.append("mut %s der %s %d" % (tn, der, s))
        for tn in sorted(set(w[1] for w in ws)):
            lines4.append("zero %s" % tn)
        out4 = run_mod(run, m, lines4, "C07")
        for l, o in zip(lines4, out4):
            check_battery(ctx, m, l.split()[1], l, o)
    if nthm:
        model_part(ctx, model_items)
    tb = ["Coq 8.16.1 kernel; vm_compute for Examples",
          "axioms under Print Assumptions: " + (", ".join(sorted(axioms)) or "none (Closed under the global context)"),
          "extraction: ExtrOcamlBasic only; OCaml 4.13.1; ocaml/drv_c07.ml",
          "harness/moddrv.c + harness/moddrv_c07.inc (fork per encoder call; fault-injecting callback; descriptor walk for the mutations); gcc + ASan/UBSan",
          "lib/modgen.py, lib/modcorpus.py; values reach the C as DER through ber_decode",
          "the inner encoders' scripts are reconstructed from the C's own fault-free trace (chunk boundaries are observed, not predicted)"]
    return run.finish("proof", (nthm, ndis), trusted_base=tb,
                      checker_cmd="make -C /verif all && coqc -Q coq A1 coq/Props/Properties_C07.v",
                      extra_cov={"theorems": names, "modules": len(mods) + 1,
                                 "rule": "one case = (module, type, value, syntax, fault index k) or (…, buffer size) or (…, mutation site, syntax); every k in 0..calls-1 and every size in 0..n+1 for each value",
                                 "traces_validated_against_impl": run.cov["evaluations"]},
                      assumptions=["XER has no model encoder: its traces are checked by the oracle and the wrapper model only",
                                   "allocation failure inside asn_encode_to_new_buffer is proved on the model only (not injected into the C)",
                                   "values <= 200 bytes of DER"])


if __name__ == "__main__":
    sys.exit(main(sys.argv[1] if len(sys.argv) > 1 else "quick"))
