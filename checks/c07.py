"""C07 — encoder API contract (asn_encode, asn_encode_to_buffer, asn_encode_to_new_buffer).
Theorems: coq/Props/Properties_C07.v over coq/Rt/AppApi.v (wrappers, callbacks, errno
mapping, UPER complete-encoding rule; unbounded over every well-behaved inner encoder and
every chunk list), the model encoders of coq/Rt, and coq/Rt/XerEnc.v (the XER encoders with
the ASN__CALLBACK / ASN__TEXT_INDENT size accounting made explicit; any nesting depth).
Tie: for generated modules and values, all five encoders of the C built from /repo:
  (i)   the output callback fails at EVERY invocation index k: ret -1, EIO, calls k+1,
        delivered bytes = the first k chunks of the fault-free run, process survives;
  (ii)  asn_encode_to_buffer for EVERY size 0..n+1 into an exact-size malloc under ASan:
        constant return, buffer = the chunks that fit followed by untouched bytes;
  (iii) asn_encode_to_new_buffer: exact content;
  (iv)  un-encodable structures: constraint-violating values (transported as DER),
        partially initialised structures (CHOICE present 0, NULL mandatory pointers,
        NULL list elements, all-zero structures): -1 with an errno, never a crash.
Swept dimensions besides the random corpus (lib/c07_util.py): nesting depth 1..40 of recursive
types (C07D), the internal boundaries of the encoders (C07B: DER/OER length-of-length edges,
the 32-octet scratch of the PER bit writer at every put width, the XER hex-dump rows), totals
2^k-1, 2^k, 2^k+1 for asn_encode_to_new_buffer, extension additions (C07E).
Primitive BODY LENGTHS across every local scratch / flush boundary of the text encoders, per FLAG SET (lib/c07w_util.py,
module C07P built with native types and with -fwide-types): INTEGER hex dump 1..45 octets, decimal 1..20 digits, ENUMERATED
names around asn__format_to_callback's 64, REAL texts around 64, OID / RELATIVE-OID arcs, BIT STRING around 118 characters and
the rows of 8 octets, UTF8 / BMP / Universal strings with escapes around their 128-octet scratch, time types, long names; the
INTEGER text is predicted from the contents octets, the INTEGER dump's chunk list by Rt/XerChunk.v; the print routines
(same body writers) run with the callback failing at every index.
Each observed run is compared with the extracted model of the wrappers fed with the
observed fault-free trace (faithfulness), with the model encoders' bytes (DER, UPER, OER) and
CHUNK LISTS (XER), and with the property evaluated directly in Python on the C output (oracle)."""
import sys, os, re, zlib
sys.path.insert(0, os.path.join(os.path.dirname(os.path.abspath(__file__)), "..", "lib"))
from vlib import *
from modcorpus import *
from c07_util import *
from c07w_util import *
import threading

INC = os.path.join(HARNESS, "moddrv_c07.inc")
SYNS = ["der", "uper", "oer", "xer", "cxer"]
MAXHEX = 400          # values <= 200 bytes of DER get every fault index and every buffer size; larger ones a directed sample
ALL_K = 400           # up to this many callback invocations: every fault index
ALL_SIZES = 640      # up to this total: every buffer size


import time as _time
_T0 = _time.time()


def dbg(msg):
    if os.environ.get("VERIF_DEBUG"):
        sys.stderr.write("[%6.1f] %s\n" % (_time.time() - _T0, msg))
        sys.stderr.flush()


def fnv(b):
    h = 1469598103934665603
    for x in b:
        h = ((h ^ x) * 1099511628211) & 0xFFFFFFFFFFFFFFFF
    return "%016x" % h


def unhex(s):
    return b"" if s == "-" else bytes.fromhex(s)


def kv(seg):
    d = {}
    for p in seg.split():
        if "=" in p:
            a, b = p.split("=", 1)
            d[a] = b
    return d


def ranges(xs):
    """sorted distinct non-negative numbers as the driver's list syntax a-b,c,..."""
    xs = sorted(set(x for x in xs if x >= 0))
    out = []
    i = 0
    while i < len(xs):
        j = i
        while j + 1 < len(xs) and xs[j + 1] == xs[j] + 1:
            j += 1
        out.append("%d-%d" % (xs[i], xs[j]) if j > i else "%d" % xs[i])
        i = j + 1
    return ",".join(out)


# ---------------------------------------------------------------- hand-made modules

EXTRA_TEXT = """C07X DEFINITIONS AUTOMATIC TAGS ::= BEGIN
  EO ::= SEQUENCE { a INTEGER (0..7) OPTIONAL, b BOOLEAN, ... }
  PO ::= SEQUENCE { a INTEGER (0..7) OPTIONAL, b BOOLEAN }
  NU ::= NULL
  SN ::= SEQUENCE { n NULL, b BOOLEAN }
  RC ::= SEQUENCE { v INTEGER (0..255), c CHOICE { end NULL, more RC } }
  SS ::= SET OF INTEGER (0..255)
  FO ::= OCTET STRING (SIZE(3))
  I7 ::= INTEGER (0..7)
  SV ::= SET OF INTEGER (0..7)
  BP ::= BIT STRING (SIZE(24))
  IN ::= INTEGER
  Int12345 ::= INTEGER
END
"""
# (type, DER of a value)
EXTRA_VALUES = [
    ("EO", "3006800105810100"), ("EO", "30038101ff"),
    ("PO", "3006800105810100"), ("PO", "30038101ff"),
    ("NU", "0500"),
    ("SN", "300580008101ff"),
    ("RC", "300780010aa1028000"),
    ("RC", "300e800101a109a107800102a1028000"),
    ("SS", "3100"), ("SS", "3109020105020103020104"),
    ("FO", "0403010203"), ("FO", "040401020304"), ("FO", "0400"),
    ("I7", "020105"), ("I7", "020109"), ("I7", "0201ff"),
    ("SV", "3106020101020103"), ("SV", "3106020101020109"),
    # shorter than the fixed size: BIT_STRING_encode_oer pads with zero octets (1, 3 and 0 octets of padding)
    ("BP", "03030000aa"), ("BP", "030100"), ("BP", "030400aabbcc"),
]
# small BASIC-XER totals 2^k-1..2^k+1 that the SEQUENCE of the boundary module cannot reach: <IN>ddd</IN>\n = 10 + digits
for _tn, _frame in (("IN", 10), ("Int12345", 22)):
    for _total in (15, 16, 17, 31, 32, 33):
        _d = _total - _frame
        if 1 <= _d <= 18:
            _v = 10 ** (_d - 1) + 7 if _d > 1 else 7
            _c = _v.to_bytes(int_len(_v), "big", signed=True)
            EXTRA_VALUES.append((_tn, "02%02x%s" % (len(_c), _c.hex())))

EXT_TEXT = """C07E DEFINITIONS AUTOMATIC TAGS ::= BEGIN
  EX ::= SEQUENCE { a INTEGER (0..7), ..., b OCTET STRING OPTIONAL, c BOOLEAN OPTIONAL }
  EC ::= CHOICE { a INTEGER (0..7), ..., b OCTET STRING, c NULL }
END
"""
EX_ETY = "E64{i2[0,7,0]}{o6[0,*,0]b10}"
EC_ETY = "H{i2[0,7,0]}{o6[0,*,0]n10}"


def hand_module(name, text, names):
    return {"name": name, "default": "AUTOMATIC", "defs": [(n, None) for n in names], "trees": {}, "text": text}


def ext_values(tier):
    """[(type, ety, model value, xv)]: extension additions present/absent, open-type lengths around 127/128, 255/256"""
    out = []
    ns = [0, 1, 2, 125, 126, 127, 128, 129, 254, 255, 256] + ([16382, 16383, 16384, 16385] if tier != "quick" else [])
    out.append(("EX", EX_ETY, "S{I5;__}", "S{a:I5;}"))
    out.append(("EX", EX_ETY, "S{I0;_!T}", "S{a:I0;c:B1}"))
    for n in ns:
        b = pat(n).hex()
        out.append(("EX", EX_ETY, "S{I%d;!O%s;_}" % (n % 8, b), "S{a:I%d;b:O%s;}" % (n % 8, b)))
        if n in (0, 126, 127, 128, 256):
            out.append(("EX", EX_ETY, "S{I%d;!O%s;!F}" % (n % 8, b), "S{a:I%d;b:O%s;c:B0}" % (n % 8, b)))
        out.append(("EC", EC_ETY, "C1:O%s;" % b, "Cb:O%s;" % b))
    out.append(("EC", EC_ETY, "C0:I3;", "Ca:I3;"))
    out.append(("EC", EC_ETY, "C2:N", "Cc:N"))
    return out


# ---------------------------------------------------------------- constraint-violating values

def violate(tree, v, rng):
    """returns a list of values of the tree's shape that break exactly one non-extensible constraint"""
    k = tree[0]
    out = []
    if k == "i":
        lo, hi, ext = tree[2], tree[3], tree[4]
        if not ext:
            # (an INTEGER with unsigned specifics reads the contents octet ff as 255: -1 is not expressible)
            if lo is not None and lo - 1 >= -2**63 and not (lo >= 0 and (hi is None or hi >= 2**31)):
                out.append(lo - 1)
            if hi is not None and hi + 1 < 2**63:
                out.append(hi + 1)
    elif k == "o":
        lo, hi, ext = tree[2], tree[3], tree[4]
        if not ext:
            if lo is not None and lo > 0:
                out.append(bytes(v[:lo - 1]))
            if hi is not None and hi < 100:
                out.append(bytes(v) + bytes(hi + 1 - len(v)))
    elif k == "s":
        for i, m in enumerate(tree[2]):
            mv = v[1][i]
            if m[0] == "?":
                if mv[0] == "!":
                    for w in violate(m[1], mv[1], rng):
                        out.append(("S", v[1][:i] + [("!", w)] + v[1][i + 1:]))
            else:
                for w in violate(m, mv, rng):
                    out.append(("S", v[1][:i] + [w] + v[1][i + 1:]))
    elif k in ("q", "t"):
        lo, hi, ext = tree[2] if tree[2] else (0, None, False)
        if not ext:
            if lo is not None and lo > 0 and len(v[1]) >= lo:
                out.append(("L", v[1][:lo - 1]))
            if hi is not None and hi < 50 and v[1]:
                out.append(("L", (v[1] * (hi + 1))[:hi + 1]))
        if v[1]:
            for w in violate(tree[3], v[1][0], rng):
                out.append(("L", [w] + v[1][1:]))
    elif k == "c":
        for w in violate(tree[1][v[1]], v[2], rng):
            out.append(("C", v[1], w))
    elif k == "x":
        out = violate(tree[2], v, rng)
    return out


# ---------------------------------------------------------------- the per-case oracles

class Ctx:
    def __init__(self, run, model):
        self.run = run
        self.model = model


def split_chunks(sizes, data):
    chunks = []
    off = 0
    for s in sizes:
        chunks.append(data[off:off + s])
        off += s
    return chunks


WORK_SWEEP_MAX = 60000     # encoder invocations of one call above which the fault/size sweeps of that (value, syntax) are not run


def work_check(ctx, it, syn, line, seg):
    """oracle, 'never a non-terminating call' made finite: the number of type-encoder invocations of ONE
    asn_encode call is bounded by a polynomial in the value (TLVs x nesting).  Returns True if the
    sweeps of this (value, syntax) are to be skipped (the call is too expensive to repeat hundreds of times)."""
    run = ctx.run
    h = kv(seg)
    died = "DIED exit=96" in seg
    if "shape" not in it:
        it["shape"] = tlv_shape(bytes.fromhex(it["der"]))
    n, d = it["shape"]
    bound = 4 * n * (d + 2) + 64
    work = None if died else int(h.get("work", "0"))
    if died or work > bound:
        xc = int(h.get("xc", "0"))
        rep = {"module": it["m"]["text"], "type": it["tn"], "der": it["der"][:4000], "syntax": syn, "command_line": line[:4000], "c": seg[:300],
               "tlvs": n, "nesting": d, "bound": bound, "work": "more than 3000000 (the driver's limit)" if died else work, "explicitly_tagged_choices_nested": xc}
        run.violation("oracle:bounded_work(%s)" % syn, dict(rep, what="one encoder call made %s type-encoder invocations for a value of %d TLVs nested %d deep (bound %d): not a terminating call in practice" % (rep["work"], n, d, bound)))
    return died or work > WORK_SWEEP_MAX


def check_sweep(ctx, it, syn, line, out, ks):
    """out: the `sweep` result line; ks: the fault indices asked for (None = all).
    Returns (ret, errno, chunks) or None."""
    run = ctx.run
    m, tn, der, label = it["m"], it["tn"], it["der"], it["label"]
    model_bytes = it["mb"].get(syn)
    rep = {"module": m["text"], "type": tn, "der": der[:4000], "syntax": syn, "command_line": line[:4000], "c": out[:1500], "label": label}
    if it.get("flag"):
        rep["asn1c_flags"], rep["body"] = ("-fwide-types" if it["flag"] == "wide" else "(native types)"), it["plabel"]
    if it.get("depth"):
        rep["depth"] = it["depth"]
    segs = out.split(" | ")
    head = kv(segs[0])
    if "DIED exit=96" in segs[0]:
        work_check(ctx, it, syn, line, segs[0])
        return None
    if "DIED" in segs[0] or "ret" not in head:
        run.violation("crash:encode(%s)" % syn, dict(rep, what="the fault-free encoder call died or gave no result"))
        return None
    if not it["big"]:
        work_check(ctx, it, syn, line, segs[0])
    ret, n = int(head["ret"]), int(head["n"])
    sizes = [] if head["sizes"] == "-" else [int(x) for x in head["sizes"].split(",")]
    data = unhex(head["hex"])
    run.count("enc_%s_%s" % (syn, "ok" if ret >= 0 else head["errno"]))
    if it.get("depth"):
        run.count("depth_%s_%s" % (syn, "1-8" if it["depth"] <= 8 else "9-16" if it["depth"] <= 16 else "17-40"))
    # size accounting (oracle on the C alone)
    if int(head["calls"]) != n or len(sizes) != n or sum(sizes) != len(data):
        run.violation("oracle:trace", dict(rep, what="inconsistent trace (calls/sizes/bytes)"))
        return None
    if ret >= 0 and ret != len(data):
        run.violation("oracle:size_accounting(%s)" % syn, dict(rep, what="reported size %d differs from the %d bytes delivered to the callback" % (ret, len(data))))
    if ret < 0 and (ret != -1 or head["errno"] in ("E0", "EIO")):
        run.violation("oracle:errno(%s)" % syn, dict(rep, what="failure without a proper errno: ret=%d errno=%s" % (ret, head["errno"])))
    # faithfulness of the model encoders (bytes; un-encodable <-> -1)
    if model_bytes is not None:
        exp = "NONE" if model_bytes == "NONE" else model_bytes
        got = "NONE" if ret < 0 else (data.hex() if data else "-")
        if exp != got and not (exp == "" and got == "-"):
            if label != "violating":
                run.violation("correspondence:Rt.%s" % syn, dict(rep, what="C encoder result differs from the model", model=exp[:3000], got=got[:3000]), no_input=(ret < 0 or ret == len(data)))
            elif exp == "NONE":
                run.violation("correspondence:unencodable(%s)" % syn, dict(rep, what="the model cannot encode this value (None) but the C returned %d" % ret, model=exp, got=got[:3000]), no_input=True)
            else:
                run.count("invalid_value_encoded_differently_%s" % syn)
    # callback failure at the fault indices
    chunks = split_chunks(sizes, data)
    states = fnv_states(chunks)
    offs = [0]
    for s in sizes:
        offs.append(offs[-1] + s)
    klist = list(range(n)) if ks is None else [k for k in ks if 0 <= k < n]
    for j, k in enumerate(klist):
        run.case("%s k=%d" % (line[:200], k))
        if 1 + j >= len(segs):
            break                 # the child ended at an earlier k (already reported)
        seg = segs[1 + j]
        d = kv(seg)
        rk = dict(rep, k=k, c=seg, replay_cmd="trace %s der %s %s %d" % (tn, der[:4000], syn, k))
        if "DIED" in seg:
            run.violation("crash:cbfail(%s)" % syn, dict(rk, what="the process died (abort/signal/sanitizer) when the callback failed at invocation %d" % k))
            continue
        want = "k=%d ret=-1 errno=EIO calls=%d d=%d:%s" % (k, k + 1, offs[k], states[k])
        got = "k=%s ret=%s errno=%s calls=%s d=%s" % (d.get("k"), d.get("ret"), d.get("errno"), d.get("calls"), d.get("d"))
        if got != want:
            run.violation("oracle:cb_failure_eio(%s)" % syn, dict(rk, what="callback failing at invocation %d: expected [%s] got [%s]" % (k, want, got)))
        run.count("cbfail_%s" % syn)
    if len(segs) - 1 > len(klist) and "DIED" not in out:
        run.violation("oracle:trace", dict(rep, what="more fault runs reported than asked for"))
    return ret, head["errno"], chunks


def fitted(chunks, s):
    """what overrun_encoder_cb leaves in a buffer of s octets pre-filled with a5"""
    buf = bytearray(b"\xa5" * s)
    off = 0
    for c in chunks:
        if off + len(c) > s:
            break
        buf[off:off + len(c)] = c
        off += len(c)
    return bytes(buf)


def check_bufsweep(ctx, it, syn, line, out, ret, chunks, sizes):
    run = ctx.run
    m, tn, der, label = it["m"], it["tn"], it["der"], it["label"]
    rep = {"module": m["text"], "type": tn, "der": der[:4000], "syntax": syn, "command_line": line[:4000], "label": label}
    if it.get("flag"):
        rep["asn1c_flags"], rep["body"] = ("-fwide-types" if it["flag"] == "wide" else "(native types)"), it["plabel"]
    segs = out.split(" | ")
    if "DIED" in out and "sig=6" not in out:
        bad = [sg for sg in segs if "DIED" in sg][0]
        run.violation("crash:to_buffer(%s)" % syn, dict(rep, c=bad[:300], replay_cmd="tobuf7 %s der %s %s %s" % (tn, der[:4000], syn, kv(bad).get("s", "?")),
                                                      what="the process died in asn_encode_to_buffer (sanitizer report: write beyond the buffer, or signal) at [%s]" % bad[:300]))
        return
    if len(segs) != len(sizes):
        run.violation("oracle:to_buffer(%s)" % syn, dict(rep, what="unexpected driver output", c=out[:800]))
        return
    # the chunks that fit, then untouched filler: the fitted prefix changes only at chunk boundaries
    # (sizes ascend: the number of chunks that fit is monotone; crc32 is continued from the prefix's)
    pcrc, poff = [0], [0]
    for c in chunks:
        pcrc.append(zlib.crc32(c, pcrc[-1]))
        poff.append(poff[-1] + len(c))
    idx = 0
    for s, seg in zip(sizes, segs):
        while idx < len(chunks) and poff[idx + 1] <= s:
            idx += 1
        run.case("%s s=%d" % (line[:200], s))
        d = kv(seg)
        rk = dict(rep, size=s, c=seg, replay_cmd="tobuf7 %s der %s %s %d" % (tn, der[:4000], syn, s))
        if "DIED" in seg:
            run.violation("crash:to_buffer(%s)" % syn, dict(rk, what="the process died in asn_encode_to_buffer with buffer size %d (write beyond the buffer, abort or signal)" % s))
            continue
        if ret >= 0:
            want = "s=%d ret=%d errno=E0 h=%08x" % (s, ret, zlib.crc32(b"\xa5" * (s - poff[idx]), pcrc[idx]))
            got = "s=%s ret=%s errno=%s h=%s" % (d.get("s"), d.get("ret"), d.get("errno"), d.get("h"))
        else:
            want = "ret=-1"
            got = "ret=%s" % d.get("ret")
            if d.get("errno") in ("E0", "EIO"):
                got += " errno=" + d.get("errno")
        if got != want:
            run.violation("oracle:to_buffer_size_invariant(%s)" % syn, dict(rk, what="buffer size %d: expected [%s] got [%s]" % (s, want, got)))
        run.count("tobuf_%s" % syn)


def check_newbuf(ctx, it, syn, line, out, ret, chunks):
    run = ctx.run
    m, tn, der, label = it["m"], it["tn"], it["der"], it["label"]
    rep = {"module": m["text"], "type": tn, "der": der[:4000], "syntax": syn, "command_line": line[:4000], "c": out[:800], "label": label}
    if it.get("flag"):
        rep["asn1c_flags"], rep["body"] = ("-fwide-types" if it["flag"] == "wide" else "(native types)"), it["plabel"]
    run.case(line[:200])
    d = kv(out)
    data = b"".join(chunks)
    if "DIED" in out or "ret" not in d:
        run.violation("crash:new_buffer(%s)" % syn, dict(rep, total=len(data), what="the process died in asn_encode_to_new_buffer (abort, signal or sanitizer report) for an encoding of %d octets" % len(data)))
        return
    if ret >= 0:
        want = "ret=%d buf=%d:%08x errno=E0" % (ret, len(data), zlib.crc32(data))
        got = "ret=%s buf=%s errno=%s" % (d.get("ret"), d.get("buf"), d.get("errno"))
        if want != got:
            run.violation("oracle:new_buffer_exact(%s)" % syn, dict(rep, what="expected [%s] got [%s]" % (want[:300], got[:300])))
        # the growth rule (theorem C07_new_buffer_capacity): the least 16 * 2^j strictly above the total
        cap = 16
        while cap <= len(data):
            cap *= 2
        if d.get("cap") != str(cap):
            run.violation("correspondence:NewBufCap(%s)" % syn, dict(rep, total=len(data), what="the allocation behind the returned buffer has %s octets; the model of dynamic_encoder_cb (least 16*2^j strictly above the total %d) says %d" % (d.get("cap"), len(data), cap)), no_input=True)
    else:
        if d.get("ret") != "-1" or d.get("errno") in ("E0", "EIO", None):
            run.violation("oracle:new_buffer_exact(%s)" % syn, dict(rep, what="failing encoder: expected ret=-1 with an errno, got [%s]" % out[:200]))
        elif d.get("buf") != "NULL":
            # asn_application.h: "On failure: (.buffer) is NULL" (theorem C07_new_buffer_null_on_failure)
            run.violation("oracle:new_buffer_null_on_failure(%s)" % syn, dict(rep, what="asn_encode_to_new_buffer failed (ret=-1) but returned a non-NULL buffer: [%s]" % out[:200]))
    run.count("newbuf_%s" % syn)
    t = len(data)
    if ret >= 0 and t >= 15 and ((t - 1) & (t - 2) == 0 or t & (t - 1) == 0 or (t + 1) & t == 0):
        run.count("newbuf_total_pow2_%s" % syn)
        run.count("newbuf_total_%s" % ("2^k-1" if (t + 1) & t == 0 else "2^k" if t & (t - 1) == 0 else "2^k+1"))


def check_battery(ctx, m, tn, line, out):
    """`mut` / `zero` result: partially initialised structure through the three entry points"""
    run = ctx.run
    rep = {"module": m["text"], "type": tn, "command_line": line[:4000], "c": out[:1200]}
    segs = out.split(" | ")
    kind = kv(segs[0]).get("kind", "?")
    for seg in segs[1:]:
        syn = seg.split()[0]
        run.case(line[:200] + " " + syn)
        run.count("partial_%s_%s" % (kind, syn))
        if "DIED" in seg:
            run.violation("crash:partial(%s,%s)" % (kind, syn), dict(rep, segment=seg, what="the process died encoding a partially initialised structure (%s) with %s" % (kind, syn)))
            continue
        d = kv(seg)
        enc = d["enc"].split(":")
        buf = d["buf"].split(":")
        new = d["new"].split(":")
        eret = int(enc[0])
        must_fail = kind in ("PRES0", "PRESBIG", "PTRNULL")
        if must_fail and not (eret == -1 and int(buf[0]) == -1 and int(new[0]) == -1):
            run.violation("oracle:unencodable(%s,%s)" % (kind, syn), dict(rep, segment=seg, what="a structure that cannot be encoded (%s) was encoded: %s" % (kind, seg)))
            continue
        for nm, r in (("asn_encode", enc), ("asn_encode_to_buffer", buf), ("asn_encode_to_new_buffer", new)):
            if int(r[0]) < 0 and (int(r[0]) != -1 or r[1] in ("E0", "EIO")):
                run.violation("oracle:errno(%s,%s)" % (kind, syn), dict(rep, segment=seg, what="%s failed without a proper errno: %s" % (nm, ":".join(r))))
        if eret >= 0:
            if int(enc[3]) != eret or int(buf[0]) != eret or int(new[0]) != eret or new[2] != "PTR":
                run.violation("oracle:size_accounting(%s,%s)" % (kind, syn), dict(rep, segment=seg, what="entry points disagree on the size: %s" % seg))
        else:
            if int(buf[0]) != -1 or int(new[0]) != -1:
                run.violation("oracle:size_accounting(%s,%s)" % (kind, syn), dict(rep, segment=seg, what="entry points disagree on failure: %s" % seg))
            elif new[2] != "NULL":
                run.violation("oracle:new_buffer_null_on_failure(%s,%s)" % (kind, syn), dict(rep, segment=seg, what="asn_encode_to_new_buffer failed but returned a non-NULL buffer: %s" % seg))


def der_content(der_hex):
    """contents octets of a primitive TLV with a one-octet tag"""
    b = bytes.fromhex(der_hex)
    l = b[1]
    if l < 128:
        return b[2:2 + l]
    k = l & 0x7f
    return b[2 + k:2 + k + int.from_bytes(b[2:2 + k], "big")]


def prim_oracle(ctx, w, syn, line, ret, chunks, int_items):
    """what the check can say about a primitive body without any model: the TEXT of an INTEGER (decimal within
    intmax_t / uintmax_t, the xx:yy:zz dump beyond) is known from the contents octets, so its length is too"""
    run = ctx.run
    if w["tn"] not in ("WI", "WJ", "WP") or syn not in ("xer", "cxer") or ret < 0:
        return
    tn = w["tn"]
    data = b"".join(chunks)
    content = der_content(w["der"])
    v = int.from_bytes(content, "big", signed=True)
    if tn == "WP" and w["flag"] == "wide":
        # unsigned specifics: asn_INTEGER2umax ignores all-zero extra leading octets and reads the rest as a magnitude
        lead = content[:-8] if len(content) > 8 else b""
        if any(lead):
            body, form = int_dump_text(content), "hexdump"
        else:
            body, form = str(int.from_bytes(content, "big")).encode(), "decimal"
    elif -2 ** 63 <= v < 2 ** 63:
        body, form = str(v).encode(), "decimal"
    else:
        body, form = int_dump_text(content), "hexdump"            # (WJ does not fit a long: INTEGER_t under both flag sets)
    want = b"<%s>%s</%s>%s" % (tn.encode(), body, tn.encode(), b"" if syn == "cxer" else b"\n")
    run.count("prim_int_text_%s_%s" % (w["flag"], form))
    if form == "hexdump":
        n = len(int_dump_strip(content))
        run.count("prim_int_hexdump_octets_%s" % ("9-10" if n <= 10 else "11-20" if n <= 20 else "21-30" if n <= 30 else "31+"))
        int_items.append((w, syn, ret, chunks, content))
    if data != want:
        run.violation("oracle:int_text(%s)" % syn, {"module": w["m"]["text"][:600], "type": tn, "der": w["der"][:4000], "syntax": syn, "flags": w["flag"], "command_line": line[:4000],
                                                    "what": "the XER text of an INTEGER of %d contents octets (%s form) is not the expected one" % (len(content), form),
                                                    "expected": want[:600].decode("latin-1"), "got": data[:600].decode("latin-1")})


def check_print(ctx, w, line, out):
    run = ctx.run
    rep = {"module": w["m"]["text"][:600], "type": w["tn"], "der": w["der"][:4000], "command_line": line[:4000], "c": out[:600],
           "asn1c_flags": "-fwide-types" if w["flag"] == "wide" else "(native types)", "body": w["plabel"]}
    run.case(line[:200])
    run.count("print_%s" % w["flag"])
    segs = out.split(" | ")
    if "DIED" in out or not segs[0].startswith("ret="):
        run.violation("crash:print", dict(rep, what="the process died (abort, signal or sanitizer report) in the print routine of a primitive body"))
        return
    h = kv(segs[0])
    xret = w["res"]["xer"][0]
    if h["ret"] != "0" and xret >= 0:
        run.violation("oracle:print_result", dict(rep, what="print_struct returned %s with a never-failing callback for a value BASIC-XER encodes" % h["ret"]))
        return
    n = min(int(h["calls"]), 600)
    if len(segs) - 1 != n:
        run.violation("oracle:print_result", dict(rep, what="unexpected driver output: %d fault runs for %s invocations" % (len(segs) - 1, h["calls"])))
        return
    for k, seg in enumerate(segs[1:]):
        d = kv(seg)
        run.count("print_cbfail")
        if d.get("k") != str(k) or d.get("ret") != "-1" or d.get("calls") != str(k + 1):
            run.violation("oracle:print_cb_failure", dict(rep, k=k, segment=seg, what="callback failing at invocation %d of the print routine: expected ret=-1 after %d invocations, got [%s]" % (k, k + 1, seg)))
            return


# ---------------------------------------------------------------- model side

def model_script(syn, ret, chunks, uper_zero):
    """the inner encoder's script reconstructed from the fault-free trace:
    <bits 0|1> <ending: ok:<n> | fail:<0|1>> <chunks c1,c2,..|->"""
    bits = 1 if syn == "uper" else 0
    cs = list(chunks)
    if ret < 0:
        ending = "fail:1"
    elif bits:
        if uper_zero:
            cs = []
            ending = "ok:0"
        else:
            ending = "ok:%d" % (8 * sum(len(c) for c in cs))
    else:
        ending = "ok:%d" % sum(len(c) for c in cs)
    return "%d %s %s" % (bits, ending, ",".join(c.hex() if c else "e" for c in cs) or "-")


def pick_ks(n, rng, full):
    if full or n <= 24:
        return list(range(n))
    return sorted(set([0, 1, 2, n - 2, n - 1] + [rng.below(n) for _ in range(8)]))


def pick_sizes(chunks, total, rng, full):
    if full or total <= 40:
        return list(range(total + 2))
    xs = {0, 1, total - 1, total, total + 1}
    off = 0
    bounds = []
    for c in chunks:
        off += len(c)
        bounds.append(off)
    for _ in range(6):
        b = rng.choice(bounds)
        xs.update([b - 1, b, b + 1])
    for _ in range(4):
        xs.add(rng.below(total + 1))
    return sorted(x for x in xs if 0 <= x <= total + 1)


def model_lines_api(items, rng):
    """items: (replay, syn, ret, errno, chunks, uper_zero, full).  The extracted wrappers (asn_encode with the
    fault oracle at k, asn_encode_to_buffer at a size, asn_encode_to_new_buffer) are fed with the script
    reconstructed from the C's fault-free trace; their predictions must equal what the C did
    (Python recomputes the C side's canonical line from the sweep data already checked above)."""
    lines, expect = [], []
    for rep, syn, ret, errno, chunks, uz, full in items:
        sc = model_script(syn, ret, chunks, uz)
        n = len(chunks)
        total = sum(len(c) for c in chunks)
        data = b"".join(chunks)
        lines.append("c07_encode %s -1" % sc)
        expect.append((rep, "ret=%d errno=%s calls=%d hex=%s" % (ret, errno if ret < 0 else "E0", n, data.hex() or "-")))
        for k in pick_ks(n, rng, full):
            lines.append("c07_encode %s %d" % (sc, k))
            expect.append((rep, "ret=-1 errno=EIO calls=%d hex=%s" % (k + 1, b"".join(chunks[:k]).hex() or "-")))
        for s in pick_sizes(chunks, total, rng, full):
            lines.append("c07_tobuf %s %d" % (sc, s))
            expect.append((rep, "ret=%d errno=%s oob=0 buf=%s" % (ret, errno if ret < 0 else "E0", fitted(chunks, s).hex() or "-")))
        if total <= 6000:
            lines.append("c07_newbuf %s -1" % sc)
            if ret >= 0:
                expect.append((rep, "ret=%d errno=E0 buf=%s" % (ret, data.hex() or "-")))
            else:
                expect.append((rep, "ret=-1 errno=%s buf=NULL" % errno))      # (.buffer) is NULL on failure (check_newbuf saw it on the C)
    return lines, expect


def model_lines_xer(items, rng):
    """items: (replay, can, tag, xv, ret, errno, chunks, full).  The modelled XER encoder (Rt/XerEnc.v) run through the
    modelled asn_encode: the SAME chunk list as the C (sizes and bytes), the same result; faults at some k;
    for small values also the two buffer entry points."""
    lines, expect = [], []
    for rep, can, tag, xv, ret, errno, chunks, full in items:
        n = len(chunks)
        total = sum(len(c) for c in chunks)
        data = b"".join(chunks)
        pre = "%d %s %s" % (can, tag, xv)
        lines.append(("c07_xer %s -1" if n <= 1200 else "c07_xerfast %s") % pre)
        expect.append((rep, "ret=%d errno=%s calls=%d sizes=%s hex=%s" % (ret, errno if ret < 0 else "E0", n, ",".join(str(len(c)) for c in chunks) or "-", data.hex() or "-")))
        ks = pick_ks(n, rng, full and n <= 40)
        if n > 40:
            ks = rng.shuffle(ks)[:4 if n <= 1200 else 1 if n <= 4000 else 0]
        for k in ks:
            lines.append("c07_xer %s %d" % (pre, k))
            expect.append((rep, "ret=-1 errno=EIO calls=%d sizes=%s hex=%s" % (k + 1, ",".join(str(len(c)) for c in chunks[:k]) or "-", b"".join(chunks[:k]).hex() or "-")))
        if total <= 3000:
            for s in rng.shuffle(pick_sizes(chunks, total, rng, False))[:6]:
                lines.append("c07_xer_tobuf %s %d" % (pre, s))
                expect.append((rep, "ret=%d errno=%s oob=0 buf=%s" % (ret, errno if ret < 0 else "E0", fitted(chunks, s).hex() or "-")))
            lines.append("c07_xer_newbuf %s" % pre)
            expect.append((rep, ("ret=%d errno=E0 buf=%s" % (ret, data.hex() or "-")) if ret >= 0 else ("ret=-1 errno=%s buf=NULL" % errno)))
    return lines, expect


def model_lines_int(items, rng):
    """items: (work item, syn, ret, chunks, contents octets).  The chunked INTEGER dump of Rt/XerChunk.v inside
    xer_encode, run through the modelled asn_encode: the SAME chunk list as the C (where the scratch is flushed),
    the same result; a fault at EVERY k; the two buffer entry points at sizes around the flush boundaries."""
    lines, expect = [], []
    for w, syn, ret, chunks, content in items:
        rep = {"module": w["m"]["text"][:600], "type": w["tn"], "der": w["der"][:4000], "syntax": syn, "asn1c_flags": "-fwide-types"}
        n = len(chunks)
        total = sum(len(c) for c in chunks)
        data = b"".join(chunks)
        pre = "%d %s %s" % (1 if syn == "cxer" else 0, w["tn"], content.hex() or "-")
        lines.append("c07_int %s -1" % pre)
        expect.append((rep, "ret=%d errno=E0 calls=%d sizes=%s hex=%s" % (ret, n, ",".join(str(len(c)) for c in chunks) or "-", data.hex() or "-")))
        ks = list(range(n)) if n <= 12 else sorted(set([0, 2, 3, 4, n - 4, n - 3, n - 1] + [rng.below(n) for _ in range(3)]))
        for k in ks:
            lines.append("c07_int %s %d" % (pre, k))
            expect.append((rep, "ret=-1 errno=EIO calls=%d sizes=%s hex=%s" % (k + 1, ",".join(str(len(c)) for c in chunks[:k]) or "-", b"".join(chunks[:k]).hex() or "-")))
        if total <= 400:
            for s in rng.shuffle(pick_sizes(chunks, total, rng, False))[:5]:
                lines.append("c07_int_tobuf %s %d" % (pre, s))
                expect.append((rep, "ret=%d errno=E0 oob=0 buf=%s" % (ret, fitted(chunks, s).hex() or "-")))
            lines.append("c07_int_newbuf %s" % pre)
            expect.append((rep, "ret=%d errno=E0 buf=%s" % (ret, data.hex() or "-")))
    return lines, expect


def run_model(ctx, lines, expect, kindf, what):
    """the model batch in several processes; every line must equal the C's canonical line"""
    run = ctx.run
    if not lines:
        return
    mo = model_batch(ctx, lines)
    for l, o, (rep, want) in zip(lines, mo, expect):
        run.count("model_" + l.split()[0])
        run.case("model " + l[:160])
        if o != want:
            run.violation(kindf(l), dict(rep, what=what, model_command=l[:1500], model=o[:1500], c_canonical=want[:1500]), no_input=True)


def model_batch(ctx, lines):
    """the model driver on the lines, dealt round-robin to several processes (expensive lines come in runs)"""
    nproc = 8 if len(lines) >= 64 else 1
    jobs = [(ctx.model, lines[i::nproc]) for i in range(nproc)]
    jobs = [j for j in jobs if j[1]]
    res = par_run(jobs, os.path.join(scratch(), "c07model"), width=nproc, big_stack=True)
    mo = [None] * len(lines)
    for i, ((rc, out, err), (_b, ls)) in enumerate(zip(res, jobs)):
        if rc != 0 or len(out) != len(ls):
            raise RuntimeError("model driver failed: rc=%s lines=%d/%d %s" % (rc, len(out), len(ls), err[-500:]))
        mo[i::nproc] = out
    return mo


def run_mods(ctx, batches, name, piece=120):
    """batches: [(module, lines)] -> [output lines]; the drivers run side by side, a module's lines in pieces
    (several processes of the same driver); a driver that dies is a violation (every encoder call of the
    C07 commands runs in a child of its own)"""
    run = ctx.run
    jobs, where = [], []
    for bi, (m, ls) in enumerate(batches):
        for i in range(0, len(ls), piece):
            jobs.append((m["exe"], ls[i:i + piece]))
            where.append((bi, i))
    res = par_run(jobs, os.path.join(scratch(), "c07c"), env=SAN_ENV, width=8)
    outs = [[None] * len(ls) for _m, ls in batches]
    for (exe, ls), (bi, i), (rc, out, err) in zip(jobs, where, res):
        if rc != 0 or len(out) != len(ls):
            bad = ls[len(out)] if len(out) < len(ls) else None
            run.violation("crash:" + name, {"what": "moddrv died (rc=%s): sanitizer report, abort or signal" % rc,
                                            "module": batches[bi][0]["text"], "command_line": (bad or "")[:4000], "stderr_tail": err[-2500:]})
            out = out + ["CRASH"] * (len(ls) - len(out))
        outs[bi][i:i + len(ls)] = out
    return outs


# ---------------------------------------------------------------- main

def main(tier):
    run = Run("C07", tier)
    rng = Rng(run.seed)
    quick = tier == "quick"
    global ALL_K, ALL_SIZES
    if not quick:
        ALL_K, ALL_SIZES = 1500, 3000
    ok, out = coq_build()
    nthm, ndis, axioms, names, plog = obligations("C07") if ok else (0, 0, set(), [], out)
    gate = grep_gate()
    if not ok or ndis != nthm or gate or nthm == 0:
        run.violation("proof:Properties_C07", {"what": "Coq development does not build or an obligation is open",
                                               "log_tail": (out if not ok else plog)[-2000:], "grep_gate": gate}, no_input=True)
    model = model_build()
    ctx = Ctx(run, model)
    xm = hand_module("C07X", EXTRA_TEXT, ["EO", "PO", "NU", "SN", "RC", "SS", "FO", "I7", "SV", "BP", "IN", "Int12345"])
    em = hand_module("C07E", EXT_TEXT, ["EX", "EC"])
    dm = depth_module()
    bm = boundary_module()
    # the primitive-body module, once per FLAG SET (native types / -fwide-types: INTEGER_t, REAL_t, ENUMERATED_t)
    pn = prim_module("C07P")
    pw = prim_module("C07PW")
    only_prim = bool(os.environ.get("C07_ONLY_PRIM"))          # development aid: the primitive layer alone
    try:
        nm, nt, nv = (8, 5, 4) if quick else (40, 6, 8)
        if only_prim:
            nm = 1
        mods, cases = build_corpus(run, rng, nm, nt, nv, tier, tag="c07mods", moddrv_extra=INC)
        wide_err = []

        def build_wide():
            try:
                build_modules([pw], tag="c07pw", opts=("-fcompound-names", "-fwide-types"), moddrv_extra=INC)
            except Exception as e:          # reported below, from the main thread
                wide_err.append(e)
        th = threading.Thread(target=build_wide)
        th.start()
        build_modules([xm, em, dm, bm, pn], tag="c07x", moddrv_extra=INC)
        th.join()
        if wide_err:
            raise wide_err[0]
    except BuildError as e:
        run.violation("build", {"what": str(e)[-2500:]}, no_input=True)
        return run.finish("proof", (nthm, ndis))
    if only_prim:
        mods, cases = [], []
    allmods = mods + [xm, em, dm, bm, pn, pw]
    for m in allmods:
        if not m.get("exe"):
            run.violation("build:module", {"what": "asn1c rejected a module or its output does not compile", "module": m["text"],
                                           "asn1c_out": m.get("asn1c_out", "")[-1500:], "build_log": m.get("build_log", "")[-1500:]})
    dbg('built')
    # ---- the work list
    work = []

    def add(m, tn, der, label, mb, xv=None, big=False, depth=None, only=None, api_model=True):
        work.append({"m": m, "tn": tn, "der": der, "label": label, "mb": mb, "xv": xv, "big": big, "depth": depth,
                     "only": only, "api_model": api_model, "res": {}})

    perm = 6 if quick else 16          # MS0 has very many integer cases: keep a sample per type
    seen_t = {}
    nbig = 0
    for c in cases:
        big = len(c["der"]) > MAXHEX
        if big:
            nbig += 1
            if nbig > (10 if quick else 60):
                continue
        key = (c["mod"]["name"], c["tn"])
        seen_t[key] = seen_t.get(key, 0) + 1
        if c["mod"]["name"] == "MS0" and seen_t[key] > perm and not big:
            continue
        env = dict(c["mod"]["defs"])
        xv = xv_of(env[c["tn"]], parse_val(c["vs"]), env) if len(c["der"]) <= 20000 else None
        add(c["mod"], c["tn"], c["der"], "valid", {"der": c["der"], "uper": c["uper"], "oer": c["oer"]}, xv=xv, big=big)
    # constraint-violating values: transported as DER (the BER decoder does not check constraints)
    inv = []
    for m in mods:
        if not m.get("exe"):
            continue
        for tn, _t in m["defs"]:
            tree = m["trees"][tn]
            for _ in range(2 if quick else 5):
                v = value(tree, rng)
                vs = violate(tree, v, rng)
                if vs:
                    inv.append((m, tn, model_str(tree), val_str(rng.choice(vs))))
    if inv:
        lines = []
        for m, tn, ts, vs in inv:
            lines += ["der %s %s" % (ts, vs), "uper 0 %s %s" % (ts, vs), "oer %s %s" % (ts, vs)]
        mo = model_batch(ctx, lines)
        need = [(i, x) for i, x in enumerate(inv) if "t" in x[2] and mo[3 * i] != "NONE"]
        ro = model_batch(ctx, ["berdec %s %s" % (x[2], mo[3 * i]) for i, x in need]) if need else []
        reord = {}
        for (i, x), o in zip(need, ro):
            f = o.split()
            if f[0] == "OK":
                reord[i] = f[2]
        for i, (m, tn, ts, vs) in enumerate(inv):
            d, u, o = mo[3 * i:3 * i + 3]
            if d != "NONE" and len(d) <= MAXHEX:
                env = dict(m["defs"])
                add(m, tn, d, "violating", {"der": d, "uper": u, "oer": o}, xv=xv_of(env[tn], parse_val(reord.get(i, vs)), env))
    for tn, d in EXTRA_VALUES:
        add(xm, tn, d, "extra", {})
    # ---- swept dimension: primitive BODY LENGTHS across the scratch / flush boundaries of the text encoders, per flag set
    for pm, flag in ((pn, "native"), (pw, "wide")):
        if not pm.get("exe"):
            continue
        for pi, (tn, d, plabel) in enumerate(prim_values(flag, tier, Rng(run.seed + 77))):
            if quick and tn in FLAG_INDEPENDENT and (pi + run.seed + (flag == "wide")) % 2:
                continue                     # the same code under both flag sets: each value under one of them
            # quick: the binary syntaxes (no text buffer involved) for a rotating third of the values
            only = None if not quick or (pi + run.seed) % 3 == 0 else ["xer", "cxer"]
            add(pm, tn, d, "prim", {}, only=only)
            work[-1]["plabel"], work[-1]["flag"] = plabel, flag
            run.count("prim_%s_%s" % (flag, plabel.split("-")[0]))
    dbg('corpus items %d' % len(work))
    # ---- swept dimension: nesting depth (recursive types), every syntax
    ddefs = depth_defs()
    denv = dict(ddefs)
    full_depths = list(range(1, 11)) if quick else list(range(1, 17))
    all_depths = list(range(1, 41))
    pend = []          # (module, tn, tree, value, kwargs) whose model encodings are asked for in one batch
    for tn, _t in ddefs:
        if not dm.get("exe"):
            break
        for d in all_depths:
            if quick and d > 12 and (d + len(tn) + ord(tn[1])) % 2 != run.seed % 2 and d not in (16, 17, 32, 33, 40):
                continue
            v0 = depth_value(tn, d, rng)
            tree = unrolled_tree(tn, v0, ddefs)
            v = der_sorted_value(tree, v0)
            pend.append((dm, tn, tree, v, dict(label="depth", xv=xv_of(denv[tn], v, denv), big=d not in full_depths, depth=d)))
    # ---- swept dimension: the encoders' internal boundaries
    benv = dict(bm["defs"])
    if bm.get("exe"):
        for tn, v0, tags in boundary_values(tier, rng):
            tree = bm["trees"][tn]
            v = der_sorted_value(tree, v0)
            only = ["uper", "oer", "der"] if "per" in tags and quick else None
            pend.append((bm, tn, tree, v, dict(label="boundary", xv=xv_of(benv[tn], v, benv), big="big" in tags, only=only)))
        # asn_encode_to_new_buffer: totals 2^k-1, 2^k, 2^k+1 in every syntax
        for syn in SYNS:
            for k in range(4, 15 if quick else 18):
                for dlt in (-1, 0, 1):
                    v = newbuf_aim(2 ** k + dlt, syn)
                    if v is None:
                        continue
                    tree = bm["trees"]["SQ"]
                    small = 2 ** k <= 2048
                    pend.append((bm, "SQ", tree, v, dict(label="target", xv=xv_of(benv["SQ"], v, benv) if small else None, big=not small,
                                                        only=[syn], nomodel=not small, target=(syn, 2 ** k + dlt))))
    lines = []
    for m, tn, tree, v, kw in pend:
        if kw.get("nomodel"):
            continue
        ts, vs = model_str(tree), val_str(v)
        lines += ["der %s %s" % (ts, vs), "uper 0 %s %s" % (ts, vs), "oer %s %s" % (ts, vs)]
    dbg('pend %d model lines %d' % (len(pend), len(lines)))
    mo = model_batch(ctx, lines) if lines else []
    dbg('pend model done')
    j = 0
    targets = []
    for m, tn, tree, v, kw in pend:
        der = py_der(tree, v).hex()
        mb = {}
        if not kw.get("nomodel"):
            mb = {"der": mo[j], "uper": mo[j + 1], "oer": mo[j + 2]}
            j += 3
            if mb["der"] != der:
                run.violation("harness:der", {"what": "the check's own DER encoder and the model's disagree", "type": tn, "model": mb["der"][:2000], "python": der[:2000]}, no_input=True)
        add(m, tn, der, kw["label"], mb, xv=kw.get("xv"), big=kw.get("big", False), depth=kw.get("depth"), only=kw.get("only"),
            api_model=kw["label"] != "target" or len(der) < 600)
        if kw.get("target"):
            work[-1]["target"] = kw["target"]
    # ---- extension additions (open types: the encoders' temporary buffers)
    if em.get("exe"):
        ev = ext_values(tier)
        lines = []
        for tn, ety, vs, xv in ev:
            lines += ["xder %s %s" % (ety, vs), "xuper 0 %s %s" % (ety, vs), "xoer %s %s" % (ety, vs)]
        mo = model_batch(ctx, lines)
        for i, (tn, ety, vs, xv) in enumerate(ev):
            d, u, o = mo[3 * i:3 * i + 3]
            if d in ("NONE", "BADCMD") or d.startswith("EXN"):
                run.violation("harness:ext", {"what": "the extensibility model does not encode a value of the check", "ety": ety, "val": vs[:200], "model": d[:200]}, no_input=True)
                continue
            add(em, tn, d, "ext", {"der": d, "uper": u, "oer": o}, xv=xv, big=len(d) > 2000)
    work = [w for w in work if w["m"].get("exe")]
    if only_prim:
        work = [w for w in work if w["label"] == "prim"]
    bym = {}
    for w in work:
        bym.setdefault(w["m"]["name"], []).append(w)
    order = [m for m in allmods if m["name"] in bym]
    dbg('work %d' % len(work))
    # ---- phase 1: the fault-free trace of the big values (how many invocations, how many octets)
    batches = []
    for m in order:
        ls = []
        for w in bym[m["name"]]:
            if w["big"]:
                for syn in (w["only"] or SYNS):
                    ls.append("trace %s der %s %s -1" % (w["tn"], w["der"], syn))
        batches.append((m, ls))
    outs = run_mods(ctx, batches, "C07")
    for (m, ls), out in zip(batches, outs):
        i = 0
        for w in bym[m["name"]]:
            if w["big"]:
                w["ks"] = {}
                w["skip"] = set()
                for syn in (w["only"] or SYNS):
                    h = kv(out[i])
                    i += 1
                    if out[i - 1].startswith("DECFAIL") or out[i - 1] in ("CRASH", "BADARG"):
                        w["ks"][syn] = None
                        continue
                    if work_check(ctx, w, syn, ls[i - 1], out[i - 1]):
                        w["skip"].add(syn)
                    n = int(h.get("calls", "0")) if "DIED" not in out[i - 1] else 0
                    if n <= ALL_K:
                        w["ks"][syn] = None
                    else:
                        ks = set(range(24)) | set(range(n - 24, n)) | set(rng.below(n) for _ in range(40 if quick else 200))
                        w["ks"][syn] = sorted(ks)
    dbg('phase1 done')
    # ---- phase 2: fault-free run + callback failing at every (big values: the chosen) invocation index
    batches = []
    for m in order:
        ls = []
        for w in bym[m["name"]]:
            for syn in (w["only"] or SYNS):
                if syn in w.get("skip", ()):
                    continue
                ks = w["ks"][syn] if w["big"] else None
                ls.append("sweep %s der %s %s%s" % (w["tn"], w["der"], syn, "" if ks is None else " " + ranges(ks)))
        batches.append((m, ls))
    outs = run_mods(ctx, batches, "C07")
    dbg('phase2 C done')
    api_items, xer_items, int_items = [], [], []
    batches2, idx2 = [], []
    for (m, ls), out in zip(batches, outs):
        i = 0
        ls2, ix2 = [], []
        for w in bym[m["name"]]:
            tn, der, label = w["tn"], w["der"], w["label"]
            for syn in (w["only"] or SYNS):
                if syn in w.get("skip", ()):
                    continue
                o, line = out[i], ls[i]
                i += 1
                if o.startswith("DECFAIL") or o in ("CRASH", "BADARG"):
                    if label == "prim" and "-" in w["plabel"] and o.startswith("DECFAIL"):
                        run.count("prim_malformed_not_decoded")        # a deliberately malformed body the BER decoder refuses
                    elif label != "violating" or o in ("CRASH", "BADARG"):
                        run.violation("harness:decode", {"what": "transport DER not accepted", "module": m["text"], "type": tn, "der": der[:4000], "c": o}, no_input=True)
                    continue
                ks = w["ks"][syn] if w["big"] else None
                r = check_sweep(ctx, w, syn, line, o, ks)
                if r is None:
                    continue
                ret, errno, chunks = r
                w["res"][syn] = r
                total = sum(len(c) for c in chunks)
                if w.get("target") and w["target"][0] == syn:
                    run.count("newbuf_aim_%s" % ("hit" if total == w["target"][1] else "miss"))
                    if total != w["target"][1]:
                        run.violation("harness:newbuf_target", {"what": "the value aimed at a total of %d octets in %s encodes to %d" % (w["target"][1], syn, total), "type": tn, "der": der[:400]}, no_input=True)
                if total <= ALL_SIZES and (not w["big"] or w["label"] == "depth") and not (quick and label == "prim" and total > 48):
                    sizes = list(range(total + 2))
                    ls2.append("bufsweep %s der %s %s %d" % (tn, der, syn, total + 1))
                elif quick and label == "prim":
                    # directed: both ends, every chunk boundary (flush points) +-1 when few, a sample otherwise
                    xs = {0, 1, 2} | set(range(max(total - 3, 0), total + 2))
                    off = 0
                    bounds = []
                    for c in chunks:
                        off += len(c)
                        bounds.append(off)
                    for b in (bounds if len(bounds) <= 10 else rng.shuffle(bounds)[:8]):
                        xs.update([b - 1, b, b + 1])
                    for _ in range(3):
                        xs.add(rng.below(total + 1))
                    sizes = sorted(x for x in xs if 0 <= x <= total + 1)
                    ls2.append("bufat %s der %s %s %s" % (tn, der, syn, ranges(sizes)))
                else:
                    xs = set(range(0, 34)) | set(range(max(total - 20, 0), total + 2))
                    off = 0
                    bounds = []
                    for c in chunks:
                        off += len(c)
                        bounds.append(off)
                    for _ in range(24 if quick else 100):
                        b = rng.choice(bounds) if bounds else 0
                        xs.update([b - 1, b, b + 1])
                    p2 = 64
                    while p2 <= total:
                        xs.update([p2 - 1, p2, p2 + 1])
                        p2 *= 2
                    for _ in range(16 if quick else 100):
                        xs.add(rng.below(total + 1))
                    sizes = sorted(x for x in xs if 0 <= x <= total + 1)
                    ls2.append("bufat %s der %s %s %s" % (tn, der, syn, ranges(sizes)))
                ix2.append(("buf", w, syn, ret, chunks, sizes))
                ls2.append("newbuf7 %s der %s %s" % (tn, der, syn))
                ix2.append(("new", w, syn, ret, chunks, None))
                uz = (syn == "uper" and ret == 1 and chunks == [b"\x00"] and (w["mb"].get("uper") in ("00", None)) and label != "violating" and tn not in ("I7",))
                rep = {"module": m["text"], "type": tn, "der": der[:4000], "syntax": syn, "label": label}
                if w["api_model"] and total <= 4000 and rng.chance(*((1, 30) if label == "prim" else (1, 3) if total <= 64 else (1, 12)) if quick else (1, 2)):
                    api_items.append((rep, syn, ret, errno, chunks, uz, total <= 100 and not w["big"]))
                if label == "prim":
                    prim_oracle(ctx, w, syn, line, ret, chunks, int_items)
                if syn in ("xer", "cxer") and w["xv"] is not None:
                    if not (quick and w["depth"] and w["depth"] > 24 and len(chunks) > 5000 and w["depth"] != 40):
                        xer_items.append((rep, 1 if syn == "cxer" else 0, tn, w["xv"], ret, errno, chunks, not w["big"]))
        batches2.append((m, ls2))
        idx2.append(ix2)
    dbg('phase2 oracle done')
    # ---- phase 3: asn_encode_to_buffer at every (big values: the chosen) size; asn_encode_to_new_buffer
    outs2 = run_mods(ctx, batches2, "C07")
    dbg('phase3 C done')
    for (m, ls2), ix2, out2 in zip(batches2, idx2, outs2):
        for line, o, (kind, w, syn, ret, chunks, sizes) in zip(ls2, out2, ix2):
            if kind == "buf":
                check_bufsweep(ctx, w, syn, line, o, ret, chunks, sizes)
            else:
                check_newbuf(ctx, w, syn, line, o, ret, chunks)
    dbg('phase3 oracle done')
    # ---- phase 4: partially initialised structures
    batches3 = []
    for m in order:
        ls = []
        per_type = {}
        for w in bym[m["name"]]:
            if w["label"] in ("violating", "target") or len(w["der"]) > 2 * MAXHEX:
                continue
            key = w["tn"]
            if w["label"] == "prim":
                # one value per (type, kind of body): the mutations meet INTEGER_t / REAL_t / BIT_STRING_t ... bodies of both flag sets
                key = (w["tn"], w["plabel"])
                if per_type.get(key) or "-" in w["plabel"] or (quick and (len(per_type) + run.seed) % 2):
                    per_type[key] = per_type.get(key, 0) + 5
                    continue
            if w["depth"]:
                # mutations deep inside a nested value as well as near the top
                if w["depth"] not in (2, 5, 9, 12):
                    continue
                key = (w["tn"], w["depth"])
            per_type[key] = per_type.get(key, 0) + 1
            if per_type[key] > (2 if quick else 5):
                continue
            ls.append("sites %s der %s" % (w["tn"], w["der"]))
        batches3.append((m, ls))
    outs3 = run_mods(ctx, batches3, "C07")
    batches4 = []
    for (m, ls), out3 in zip(batches3, outs3):
        ls4 = []
        for l, o in zip(ls, out3):
            f = o.split()
            if not f or not f[0].isdigit():
                continue
            ns = int(f[0])
            _, tn, _, der = l.split()
            pick = list(range(ns))
            if ns > 8:
                pick = sorted(set([0, ns - 1, ns - 2] + rng.shuffle(pick)[:6]))
            for s in pick:
                ls4.append("mut %s der %s %d" % (tn, der, s))
        for tn in sorted(set(w["tn"] for w in bym[m["name"]])):
            ls4.append("zero %s" % tn)
        batches4.append((m, ls4))
    outs4 = run_mods(ctx, batches4, "C07")
    for (m, ls4), out4 in zip(batches4, outs4):
        for l, o in zip(ls4, out4):
            check_battery(ctx, m, l.split()[1], l, o)
    dbg('phase4 done')
    # ---- phase 4b: the print routines of the primitive bodies (the same body writers as XER, plainOrXER = 0): every flush of
    # every local buffer with the callback failing at every index; never a crash, -1 after exactly k+1 invocations
    batches5 = []
    for m in order:
        ls = []
        for pi, w in enumerate(bym[m["name"]]):
            if w["label"] == "prim" and (not quick or (pi + run.seed) % 2 == 0) and "xer" in w["res"]:
                ls.append((w, "print7 %s der %s" % (w["tn"], w["der"])))
        batches5.append((m, ls))
    outs5 = run_mods(ctx, [(m, [l for _w, l in ls]) for m, ls in batches5], "C07")
    for (m, ls), out5 in zip(batches5, outs5):
        for (w, line), o in zip(ls, out5):
            check_print(ctx, w, line, o)
    dbg('phase4b done')
    # ---- phase 5: the extracted model
    if nthm:
        lines, expect = model_lines_api(api_items, rng)
        run_model(ctx, lines, expect, lambda l: "correspondence:AppApi(%s)" % l.split()[0],
                  "the extracted model of the wrappers, fed with the C's fault-free trace, predicts a different result than the C produced")
        dbg('api model done (%d lines)' % len(lines))
        lines, expect = model_lines_xer(xer_items, rng)
        dbg('xer model lines %d' % len(lines))
        run_model(ctx, lines, expect, lambda l: "correspondence:XerEnc(%s,%s)" % (l.split()[0], "cxer" if l.split()[1] == "1" else "xer"),
                  "the modelled XER encoder (Rt/XerEnc.v: ASN__CALLBACK accounting, ASN__TEXT_INDENT one invocation per level) run through the modelled wrappers differs from the C: chunk list, bytes or result")
        lines, expect = model_lines_int(int_items, rng)
        dbg('int dump model lines %d' % len(lines))
        run_model(ctx, lines, expect, lambda l: "correspondence:XerChunk(%s,%s)" % (l.split()[0], "cxer" if l.split()[1] == "1" else "xer"),
                  "the modelled INTEGER dump (Rt/XerChunk.v: 32-octet scratch flushed every 10 octets, the counter kept by hand) inside xer_encode, run through the modelled wrappers, differs from the C: chunk list, bytes or result")
    dbg('model done')
    if os.environ.get('VERIF_DEBUG'):
        kinds = {}
        for v in run.violations:
            kinds[v['kind']] = kinds.get(v['kind'], 0) + 1
        dbg('violation kinds: %s' % sorted(kinds.items()))
    tb = ["Coq 8.16.1 kernel; vm_compute for Examples",
          "axioms under Print Assumptions: " + (", ".join(sorted(axioms)) or "none (Closed under the global context)"),
          "extraction: ExtrOcamlBasic only; OCaml 4.13.1; ocaml/drv_c07.ml (parser of named value trees)",
          "harness/moddrv.c + harness/moddrv_c07.inc (fork per encoder call; fault-injecting callback; descriptor walk for the mutations); gcc + ASan/UBSan",
          "lib/modgen.py, lib/modcorpus.py, lib/c07_util.py (value-directed unrolling of recursive types, the names the XER model is given, an own DER encoder for transport); values reach the C as DER through ber_decode",
          "lib/c07w_util.py (the primitive-body module and its DER values, built octet by octet; the INTEGER text the check predicts); asn1c -fwide-types for the second build of that module",
          "the inner encoders' scripts (DER, UPER, OER) are reconstructed from the C's own fault-free trace (chunk boundaries are observed, not predicted); the XER chunk boundaries ARE predicted by Rt/XerEnc.v"]
    return run.finish("proof", (nthm, ndis), trusted_base=tb,
                      checker_cmd="make -C /verif all && coqc -Q coq A1 coq/Props/Properties_C07.v",
                      extra_cov={"theorems": names, "modules": len(allmods),
                                 "rule": "one case = (module, type, value, syntax, fault index k) or (…, buffer size) or (…, mutation site, syntax) or one model line; every k in 0..calls-1 and every size in 0..n+1 for values up to %d invocations / %d octets, a directed sample (ends, chunk boundaries, 2^j, random) above" % (ALL_K, ALL_SIZES),
                                 "traces_validated_against_impl": run.cov["evaluations"]},
                      assumptions=["allocation failure inside asn_encode_to_new_buffer is proved on the model only (not injected into the C)",
                                   "XER model: the base algebra of lib/modgen.py (no DEFAULT, no ENUMERATED/REAL/strings other than OCTET STRING); INTEGER beyond the native range through Rt/XerChunk.v as a top-level type; the other primitive text bodies are under the oracles on the C alone",
                                   "values above %d invocations / %d octets: sampled fault indices and buffer sizes" % (ALL_K, ALL_SIZES)])


if __name__ == "__main__":
    sys.exit(main(sys.argv[1] if len(sys.argv) > 1 else "quick"))
