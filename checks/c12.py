"""C12 — deterministic output, print/parse fixpoint.
Proved (coq/Props/Properties_C12.v): the model printer `pp` (coq/Fix/Printer.v, mirrors
libasn1print/asn1print.c) is inverted by the reference parser on every well-formed
module AST, hence printing is a fixpoint of print/parse.
Observed on the real asn1c built from the working tree (exploration, not proof):
 (a) faithfulness: `asn1c -E t0` == model pp(a), byte for byte, for generated ASTs a
     rendered to source t0 with randomised layout/comments/alternative spellings;
 (b) fixpoint t2 == t1 and acceptance of t1, same generated per-type code for t0 and t1;
 (c) determinism of the generated tree over repeated runs (ASLR on, padded environment);
 (d) per-type files independent of the order of the file list (all permutations);
 (e) print/parse fixpoint over the shipped corpus;
 (f) rich modules (FROM tables, parameterised types, information objects, tag maps, option sets): identical output
     trees in five differently shaped processes (environment size, locale, no ASLR, valgrind), valgrind memcheck
     silent, permitted-alphabet tables a function of the alphabet alone;
 (g) module sets with cross-module name clashes, every file order: per-type files identical, and their names equal
     to the clash-marking model's (coq/Fix/NameClash.v: proved invariant under permutation of the module list);
 (h) code generation from the shipped corpus through the same process-image / valgrind / table oracles;
 (i) values (bit/character strings, reals, references, value assignments, exception specs, contained subtypes) in every
     position, incl. four directed value-boundary modules in every run: (a) and (b) on them; the byte level of the value
     sub-language is proved (coq/Fix/LexValues.v);
 (j) 2-3 module sets with contained-subtype / value-reference chains across the modules, every file order: exit status,
     `-E -F -print-constraints` text per module and per-type files identical; printed combined constraints equal to the
     resolution model's (coq/Fix/Pullup.v: proved order independent) and to python's own order-free evaluation;
 (m) what the output directory already holds (checks/c12_dir.py): sized base modules x option sets x stale directory states ->
     the tree of the fresh-directory run, whatever was there; what became of each old entry equal to the model's
     (coq/Fix/IdenticalFiles.v: identical_files proved to decide equality for every block size and length)."""
import sys, os, itertools, hashlib
from concurrent.futures import ThreadPoolExecutor
sys.path.insert(0, os.path.join(os.path.dirname(os.path.abspath(__file__)), "..", "lib"))
sys.path.insert(0, os.path.dirname(os.path.abspath(__file__)))
from vlib import *
import subprocess, re
import c12_gen as G
import c12_ops as O
import c12_dir as D

GEN_OPTS = ["-pdu=all", "-fcompound-names"]


def run_cmd(args, cwd, env=None, timeout=120):
    try:
        p = subprocess.run(args, cwd=cwd, env=env, stdout=subprocess.PIPE, stderr=subprocess.PIPE, timeout=timeout)
        return p.returncode, p.stdout, p.stderr.decode("latin1")[-1500:]
    except subprocess.TimeoutExpired:
        return 999, b"", "timeout"


def asn1c_E(asn1c, cwd, files, extra=(), env=None):
    return run_cmd([asn1c, "-E"] + list(extra) + list(files), cwd, env)


def read_tree(d):
    out = {}
    for root, _, files in os.walk(d):
        for f in files:
            p = os.path.join(root, f)
            rel = os.path.relpath(p, d)
            if os.path.islink(p):
                out[rel] = b"SYMLINK " + os.readlink(p).encode()
            else:
                out[rel] = open(p, "rb").read()
    return out


def per_type(tree):
    """the files generated from the module text: they carry the `From ASN.1 module` header"""
    return {k: v for k, v in tree.items() if b"From ASN.1 module" in v[:400]}


def gen_code(asn1c, skel, cwd, files, env=None, outdir="out"):
    """asn1c -S skel -pdu=all -fcompound-names -D out files…  (cwd-relative names, so that the
    header comment `found in "in/x.asn1"` is the same in every scratch directory)"""
    od = os.path.join(cwd, outdir)
    shutil.rmtree(od, ignore_errors=True)
    os.makedirs(od)
    rc, so, se = run_cmd([asn1c, "-S", skel] + GEN_OPTS + ["-D", outdir] + list(files), cwd, env)
    return rc, (read_tree(od) if rc == 0 else {}), se


def padded_env(n):
    e = dict(os.environ)
    e["A1V_PAD"] = "x" * n
    e["A1V_PAD2"] = "y" * (n // 3 + 1)
    if n >= 7000:      # the big variant also changes locale and time zone (decimal point, time stamps)
        e.update(LC_ALL="de_DE.UTF-8", LANG="de_DE.UTF-8", LC_NUMERIC="de_DE.UTF-8", TZ="Pacific/Kiritimati")
    return e


def diff_trees(a, b):
    keys = sorted(set(a) | set(b))
    return [k for k in keys if a.get(k) != b.get(k)]


def first_diff(a, b):
    a = a.decode("latin1") if isinstance(a, bytes) else a
    b = b.decode("latin1") if isinstance(b, bytes) else b
    al, bl = a.split("\n"), b.split("\n")
    for i in range(max(len(al), len(bl))):
        x = al[i] if i < len(al) else "<eof>"
        y = bl[i] if i < len(bl) else "<eof>"
        if x != y:
            return {"line": i + 1, "a": x[:200], "b": y[:200]}
    return None


# ---------------------------------------------------------------------------
# known-finding classifiers (as narrow as the root causes recorded in findings.d/C12.json)

def src_has_imports(text):
    t = strip_comments(text)
    m = re.search(r"\bIMPORTS\b(.*?);", t, flags=re.S)
    return bool(m and m.group(1).strip())


def strip_comments(text):
    text = re.sub(r"/\*.*?\*/", " ", text, flags=re.S)
    out = []
    for line in text.split("\n"):
        # "--" comment ends at the next "--" or at end of line
        res, i, incom = [], 0, False
        while i < len(line):
            if line.startswith("--", i):
                incom = not incom
                i += 2
                continue
            if not incom:
                res.append(line[i])
            i += 1
        out.append("".join(res))
    return "\n".join(out)


def text_has_triple_paren(text):
    """`(((` … `)))` directly nested: Constraint → '(' ElementSetSpec ')' → '(' ElementSetSpec ')'"""
    t = re.sub(r"\s+", "", strip_comments(text))
    return "(((" in t or "SIZE(((" in t


def text_has_double_paren_after_print(t1):
    t = re.sub(r"\s+", "", t1)
    return "((" in t


def text_has_nested_of_constraint(t1):
    """printed text contains an OF type whose element is an OF type carrying a constraint:
    SEQUENCE|SET OF [tag] SEQUENCE|SET (…) OF — asn1c's own parser aborts on it"""
    t = re.sub(r"\s+", " ", t1)
    return bool(re.search(r"\b(SEQUENCE|SET)( SIZE ?\([^{}]*?\)| \([^{}]*?\))? OF( [a-z][A-Za-z0-9-]*)?( \[[A-Z0-9 ]+\]( IMPLICIT| EXPLICIT)?)? (SEQUENCE|SET) ?(\(|SIZE)", t))



# ---------------------------------------------------------------------------
# determinism oracles that vary the process image and make uninitialised reads visible

OPTION_SETS = [
    ["-pdu=all", "-fcompound-names"],
    ["-pdu=auto", "-fcompound-names"],
    ["-pdu=all", "-fcompound-names", "-findirect-choice"],
    ["-pdu=all", "-fcompound-names", "-no-gen-PER"],
    ["-pdu=all", "-fcompound-names", "-no-gen-OER"],
    ["-pdu=auto", "-fcompound-names", "-no-gen-PER", "-no-gen-OER", "-fwide-types"],
    ["-pdu=all", "-fcompound-names", "-gen-PER", "-gen-OER", "-fwide-types"],
    ["-pdu=all", "-fcompound-names", "-fincludes-quoted", "-fno-include-deps"],
    ["-pdu=all", "-fno-constraints"],
    ["-pdu=all", "-fcompound-names", "-funnamed-unions", "-fline-refs"],
    ["-pdu=all", "-fcompound-names", "-gen-autotools", "-no-gen-example"],
    ["-fcompound-names", "-findirect-choice", "-fbless-SIZE"],
]

VALGRIND = shutil.which("valgrind")
SETARCH = shutil.which("setarch")
VG_RC = 77


def valgrind_wrap(logfile):
    """memcheck: every use of an uninitialised value that reaches a conditional jump, an address or a
    system call (write() of the generated text) and every invalid read/write is an error"""
    return [VALGRIND, "-q", "--error-exitcode=%d" % VG_RC, "--track-origins=no", "--leak-check=no",
            "--undef-value-errors=yes", "--log-file=" + logfile]


def vg_summary(logfile):
    try:
        txt = open(logfile, errors="replace").read()
    except OSError:
        return ""
    txt = re.sub(r"==\d+== ?", "", txt)
    return txt[:1800]


def run_gen(ctx, cwd, files, opts, env=None, outdir="out", wrap=(), dflag=None):
    """asn1c -S skel <opts> -D <outdir> files… in cwd; returns (rc, tree, stderr)"""
    asn1c, skel, root = ctx
    od = os.path.join(cwd, outdir)
    shutil.rmtree(od, ignore_errors=True)
    os.makedirs(od)
    rc, so, se = run_cmd(list(wrap) + [asn1c, "-S", skel] + list(opts) + ["-D", dflag or outdir] + list(files), cwd, env, timeout=300)
    return rc, (read_tree(od) if rc == 0 else {}), se


def write_inputs(d, texts):
    os.makedirs(os.path.join(d, "in"), exist_ok=True)
    for name, t in texts.items():
        with open(os.path.join(d, name), "wb") as f:
            f.write(t if isinstance(t, bytes) else t.encode("latin1"))


def det_runs(ctx, d, texts, files, opts, idx, use_valgrind=True):
    """the same command in differently shaped processes: plain; environment grown by ~1 KB and by ~7 KB
    in a deeper working directory; address-space randomisation switched off (setarch -R); under
    valgrind memcheck.  All output trees must be identical, valgrind must be silent.
    Returns {"rc0","se0","tree","runs":[(label, rc, differing files)], "first":…, "vg":(rc, log)}"""
    res = {"runs": []}
    P0 = os.path.join(d, "r0")
    write_inputs(P0, texts)
    rc0, tree0, se0 = run_gen(ctx, P0, files, opts)
    res.update(rc0=rc0, se0=se0, tree=tree0)
    variants = [("env+1K", padded_env(1024 + 37 * (idx % 11)), ()),
                ("env+7K", padded_env(7001 + 517 * (idx % 7)), ())]
    if SETARCH:
        variants.append(("no-aslr", None, (SETARCH, os.uname().machine, "-R")))
    for k, (label, env, wrap) in enumerate(variants):
        P = os.path.join(d, "r%d" % (k + 1) + "x" * (k * 23))
        write_inputs(P, texts)
        rc, tree, se = run_gen(ctx, P, files, opts, env=env, wrap=wrap)
        if label == "no-aslr" and rc != rc0 and "personality" in se:
            continue                      # setarch not permitted in this sandbox: not a run of asn1c
        dd = diff_trees(tree0, tree) if rc == 0 and rc0 == 0 else []
        res["runs"].append((label, rc, dd))
        if (dd or rc != rc0) and "first" not in res:
            k0 = dd[0] if dd else None
            res["first"] = (label, k0, first_diff(tree0.get(k0, b""), tree.get(k0, b"")) if k0 else "rc %d vs %d" % (rc0, rc))
    if use_valgrind and VALGRIND:
        P = os.path.join(d, "rv")
        write_inputs(P, texts)
        log = os.path.join(P, "vg.log")
        rc, tree, se = run_gen(ctx, P, files, opts, wrap=valgrind_wrap(log))
        res["vg"] = (rc, vg_summary(log) if rc == VG_RC else "")
        if rc == 0 and rc0 == 0:
            dd = diff_trees(tree0, tree)
            res["runs"].append(("valgrind", rc, dd))
            if dd and "first" not in res:
                res["first"] = ("valgrind", dd[0], first_diff(tree0.get(dd[0], b""), tree.get(dd[0], b"")))
        elif rc == 999:
            res["vg"] = (999, "")         # valgrind too slow for this input under the current load: no verdict
        elif rc != VG_RC and rc != rc0:
            res["runs"].append(("valgrind", rc, []))
            res.setdefault("first", ("valgrind", None, "rc %d vs %d: %s" % (rc0, rc, se[-300:])))
    return res


def report_det(run, rep, r, what):
    """turns a det_runs result into violations / counters; returns True when quiet"""
    ok = True
    bad = [(l, rc, dd) for (l, rc, dd) in r["runs"] if dd or rc != r["rc0"]]
    if bad:
        ok = False
        run.violation("oracle:determinism", dict(rep, what="repeated runs of asn1c on the same input differ (%s)" % what,
                      runs=[(l, rc, dd[:8]) for (l, rc, dd) in bad], first=r.get("first")))
    for (l, rc, dd) in r["runs"]:
        run.count("det_run:" + l)
    if "vg" in r:
        run.count("valgrind_runs" if r["vg"][0] != 999 else "valgrind_timeouts")
        if r["vg"][0] == VG_RC:
            ok = False
            run.violation("oracle:uninitialised-read", dict(rep, what="valgrind memcheck reports an error in asn1c (%s)" % what,
                          valgrind=r["vg"][1]))
    return ok


# ---- permitted-alphabet tables: their content is a function of the alphabet alone

TABLE_RE = re.compile(r"static const int permitted_alphabet_(table|code2value)_(\d+)\[(\d+)\] = \{\n(.*?)\n?\};", re.S)


def parse_alphabet_tables(text):
    """{N: {"table": (declared size, [ints]), "code2value": (declared size, [ints])}}"""
    out = {}
    for kind, n, size, body in TABLE_RE.findall(text):
        vals = []
        for line in body.split("\n"):
            line = line.split("\t/*")[0]
            for tok in line.split(","):
                tok = tok.strip()
                if tok:
                    try:
                        vals.append(int(tok))
                    except ValueError:
                        vals.append(None)
        out.setdefault(int(n), {})[kind] = (int(size), vals)
    return out


def check_alphabet_tables(text, expected=None):
    """returns a list of complaints.  Generic: the non-zero slots of a table are 1,2,…,k in index order
    (the slot of a permitted character holds its rank), slots are within the declared size, and the
    code2value map lists exactly the permitted codes.  With `expected` (sorted codes, known for
    generated FROM constraints): the permitted codes are exactly those."""
    bad = []
    tabs = parse_alphabet_tables(text)
    for n, t in sorted(tabs.items()):
        if "table" not in t:
            bad.append("code2value_%d without table" % n)
            continue
        size, vals = t["table"]
        if None in vals or len(vals) > size or len(vals) % 16:
            bad.append("table_%d: %d slots printed for declared size %d" % (n, len(vals), size))
            continue
        nz = [(i, v) for i, v in enumerate(vals) if v != 0]
        if [v for _, v in nz] != list(range(1, len(nz) + 1)):
            bad.append("table_%d: non-zero slots are not the ranks 1..%d in index order: %s" % (n, len(nz), [v for _, v in nz][:40]))
            continue
        codes = [i for i, _ in nz]
        if codes and len(vals) - codes[-1] > 16:
            bad.append("table_%d: %d slots printed, highest permitted code %d" % (n, len(vals), codes[-1]))
        if "code2value" in t:
            csize, cvals = t["code2value"]
            if csize != len(codes) or cvals != codes:
                bad.append("code2value_%d: %s (declared %d) but the table permits %s" % (n, cvals[:40], csize, codes[:40]))
        if expected is not None and len(tabs) == 1 and codes != list(expected):
            bad.append("table_%d permits codes %s, the FROM constraint permits %s" % (n, codes[:60], list(expected)[:60]))
    return bad, len(tabs)


def check_tables_in_tree(run, rep, tree, alph=None, cname=lambda t: t):
    """alphabet-table oracle over every generated .c file of one output tree"""
    ok = True
    for k, v in sorted(tree.items()):
        if not k.endswith(".c") or b"permitted_alphabet_" not in v:
            continue
        exp = None
        if alph:
            for t, (stype, codes) in alph.items():
                if k == cname(t) + ".c":
                    exp = codes
        bad, n = check_alphabet_tables(v.decode("latin1"), exp)
        run.count("alphabet_tables_checked", n)
        if exp is not None:
            run.count("alphabet_tables_checked_exact")
        if bad:
            ok = False
            run.violation("oracle:alphabet-table", dict(rep, what="a permitted-alphabet table in generated code is not a function of the alphabet "
                          "(slots beyond the filled part, or ranks/code map inconsistent)", file=k, complaints=bad[:5]))
    if alph:
        for t, (stype, codes) in alph.items():
            if len(G.alphabet_runs(codes)) >= 2 and cname(t) + ".c" in tree:
                run.count("alphabet_table_expected")
                if b"permitted_alphabet_table_" not in tree[cname(t) + ".c"]:
                    run.count("alphabet_table_expected_but_absent")
    return ok


def strip_cmdline(tree):
    """per-type files with the header line that quotes the command line removed"""
    out = {}
    for k, v in tree.items():
        out[k] = re.sub(rb"\n \* \t`asn1c [^\n]*`\n", b"\n", v, count=1)
    return out


def case_rich(ctx, idx, m, opts, extras):
    """one rich single module: process-image determinism + valgrind, -P twice, -E/-E -F under valgrind,
    textual fixpoint; extras: "dforms" (spellings of -D), "dupfile" (same file named twice)"""
    asn1c, skel, root = ctx
    d = os.path.join(root, "r%05d" % idx)
    f = "in/m.asn1"
    texts = {f: m["text"]}
    res = {"idx": idx}
    res["det"] = det_runs(ctx, d, texts, [f], opts, idx)
    P0 = os.path.join(d, "r0")
    # -P: the same text through the print-to-stdout path, twice
    rc1, so1, _ = run_cmd([asn1c, "-S", skel] + opts + ["-P", f], P0)
    rc2, so2, _ = run_cmd([asn1c, "-S", skel] + opts + ["-P", f], P0, env=padded_env(5000 + idx % 13))
    res["P"] = (rc1, rc2, so1 == so2, rc1 == res["det"]["rc0"])
    # printer under valgrind, fixpoint
    log = os.path.join(d, "vgE.log")
    wrap = valgrind_wrap(log) if VALGRIND else []
    rcE, t1, seE = run_cmd(wrap + [asn1c, "-E", f], P0)
    res["E"] = (rcE, vg_summary(log) if rcE == VG_RC else "", seE)
    if rcE == 0:
        rcF, tF1, _ = run_cmd(wrap + [asn1c, "-E", "-F", f], P0)
        rcF2, tF2, _ = run_cmd([asn1c, "-E", "-F", f], P0, env=padded_env(3000 + idx % 17))
        res["EF"] = (rcF, vg_summary(log) if rcF == VG_RC else "", rcF2 == rcF and tF1 == tF2)
        P1 = os.path.join(d, "e1")
        write_inputs(P1, {f: t1})
        rc1, t2, se1 = asn1c_E(asn1c, P1, [f])
        res["fix"] = (rc1, t2 == t1, se1, t1, t2)
    if "dforms" in extras and res["det"]["rc0"] == 0:
        base = strip_cmdline(per_type(res["det"]["tree"]))
        out = []
        for k, (od, dflag) in enumerate([("out", "out/"), ("out", "./out"), ("out", os.path.join(d, "df2", "out")), ("o u t", "o u t"), ("out/deep/er", "out/deep/er")]):
            P = os.path.join(d, "df%d" % k)
            write_inputs(P, texts)
            rc, tree, se = run_gen(ctx, P, [f], opts, outdir=od, dflag=dflag)
            dd = diff_trees(base, strip_cmdline(per_type(tree))) if rc == 0 else []
            out.append((dflag if k != 2 else "<absolute>/out", rc, dd[:5]))
        res["dforms"] = out
    if "dupfile" in extras:
        P = os.path.join(d, "dup")
        write_inputs(P, texts)
        rca, ta, sea = run_gen(ctx, P, [f, f], opts)
        rcb, tb, seb = run_gen(ctx, P, [f, f], opts, env=padded_env(2500), outdir="out2")
        res["dupfile"] = (rca, rcb, diff_trees(ta, tb))
    res["tree"] = per_type(res["det"].pop("tree"))
    shutil.rmtree(d, ignore_errors=True)
    return res


def spec_order_explains(fname, a, b, family):
    """finding C12-param-spec-order, as narrow as its cause: the file belongs to the parameterised
    template or to a type that instantiates it, and the two versions differ only in the numbering
    of the specialisations (`Name_<line>P<k>`), for the template's own file (which holds all of
    them, in numbering order) up to the order of its lines and the running `_<n>` table suffixes"""
    if a is None or b is None or fname.rsplit(".", 1)[0] not in family:
        return False
    na, nb = re.sub(rb"P\d+", b"P#", a), re.sub(rb"P\d+", b"P#", b)
    # the running table suffix of an identifier of a specialisation (asn_MBR_Boxed_3P1_5) moves with it
    na, nb = (re.sub(rb"(\w*P#\w*?)_\d+\b", rb"\1_#", x) for x in (na, nb))
    if na == nb:
        return True
    if fname.rsplit(".", 1)[0] != sorted(family, key=lambda x: x != "Boxed")[0]:
        return False
    norm = lambda t: sorted(re.sub(rb"_\d+\b", b"_#", t).split(b"\n"))
    return norm(na) == norm(nb)


def case_clash(ctx, idx, mods, opts, max_perms):
    """one multi-file set with cross-module name clashes, every permutation of the file list"""
    asn1c, skel, root = ctx
    d = os.path.join(root, "k%05d" % idx)
    names = ["in/f%d.asn1" % i for i in range(len(mods))]
    texts = {names[i]: m["text"] for i, m in enumerate(mods)}
    perms = list(itertools.permutations(range(len(mods))))[:max_perms]
    res = {"idx": idx, "perms": [], "nperms": len(perms)}
    res["det"] = det_runs(ctx, d, texts, names, opts, idx)
    base = res["det"]["tree"]
    res["base_files"] = sorted(per_type(base))
    pbase = per_type(base)
    for pi, perm in enumerate(perms):
        if pi == 0:
            res["perms"].append((perm, res["det"]["rc0"], sorted(pbase), [], None, res["det"]["se0"][-300:]))
            continue
        P = os.path.join(d, "p%d" % pi)
        write_inputs(P, texts)
        rc, tree, se = run_gen(ctx, P, [names[i] for i in perm], opts)
        pt = per_type(tree)
        dd = diff_trees(pbase, pt) if rc == 0 and res["det"]["rc0"] == 0 else []
        fd = (dd[0], first_diff(pbase.get(dd[0], b""), pt.get(dd[0], b""))) if dd else None
        if dd:
            fam = set(mods[0].get("param_family", []))
            res.setdefault("spec_order_only", True)
            res.setdefault("family_only", True)
            if not (len(fam) >= 3 and all(spec_order_explains(k, pbase.get(k), pt.get(k), fam) for k in dd)):
                res["spec_order_only"] = False
            if not (len(fam) >= 3 and all(k.rsplit(".", 1)[0] in fam for k in dd)):
                res["family_only"] = False
        res["perms"].append((perm, rc, sorted(pt), dd, fd, se[-300:]))
    res["tree"] = per_type(res["det"].pop("tree"))
    shutil.rmtree(d, ignore_errors=True)
    return res


LEAF_RE = re.compile(r"(MIN|-?\d+)\.\.(MAX|-?\d+|[a-z][A-Za-z0-9-]*)|([A-Z][A-Za-z0-9-]*(?:\.[A-Z][A-Za-z0-9-]*)?)|(-?\d+|[a-z][A-Za-z0-9-]*)")


def constraint_leaves(text):
    """the leaves of a printed constraint, left to right: ("r", lo, hi) | ("t", TypeName) | ("v", value); the set
    operators, parentheses and SIZE/FROM wrappers are dropped (the model keeps the sequence of leaves only)"""
    out = []
    for m in LEAF_RE.finditer(re.sub(r"\b(SIZE|FROM|INCLUDES)\b", " ", text)):
        if m.group(1) is not None:
            out.append(("r", m.group(1), m.group(2)))
        elif m.group(3) is not None:
            out.append(("t", m.group(3)))
        else:
            out.append(("v", m.group(4)))
    return out


def parse_print_constraints(text):
    """`asn1c -E -F -print-constraints` output -> {module: {"text": block, "types": {Name: {"combined": str|None, "practical": str|None}}}}"""
    mods = {}
    for b in re.split(r"\n(?=\S+ DEFINITIONS\b)", text):
        if not b.strip():
            continue
        name = b.split()[0]
        types, cur, open_c = {}, None, False
        for line in b.split("\n"):
            m = re.match(r"([A-Za-z][A-Za-z0-9-]*) ::= ", line)
            if open_c:
                # a constraint that is still a TYPE is printed through asn1print_expr, which (under
                # -print-constraints) writes that type's own `-- ... constraints` lines into the middle
                if not line.startswith("-- "):
                    types[cur]["combined"] += " " + line
                    open_c = types[cur]["combined"].count("(") > types[cur]["combined"].count(")")
                continue
            if m:
                cur = m.group(1)
                types[cur] = {"combined": None, "practical": None}
            elif cur and line.startswith("-- Combined constraints: "):
                types[cur]["combined"] = line[len("-- Combined constraints: "):]
                open_c = types[cur]["combined"].count("(") > types[cur]["combined"].count(")")
            elif cur and line.startswith("-- Practical constraints") and types[cur]["practical"] is None:
                types[cur]["practical"] = line.split("): ", 1)[-1].strip()
        mods[name] = {"text": b.strip(), "types": types}
    return mods


def case_xmod(ctx, idx, xset, opts, max_perms=6):
    """one cross-module set, every order of the file list: exit status of `-E -F -print-constraints` and of code
    generation, the per-module printed constraints, the per-type files"""
    asn1c, skel, root = ctx
    mods = xset["mods"]
    d = os.path.join(root, "x%05d" % idx)
    names = ["in/f%d.asn1" % i for i in range(len(mods))]
    texts = {names[i]: m["text"] for i, m in enumerate(mods)}
    perms = list(itertools.permutations(range(len(mods))))[:max_perms]
    res = {"idx": idx, "perms": []}
    for pi, perm in enumerate(perms):
        P = os.path.join(d, "p%d" % pi)
        write_inputs(P, texts)
        files = [names[i] for i in perm]
        rcE, so, seE = run_cmd([asn1c, "-E", "-F", "-print-constraints"] + files, P)
        rcG, tree, seG = run_gen(ctx, P, files, opts)
        res["perms"].append({"perm": perm, "rcE": rcE, "rcG": rcG, "pc": parse_print_constraints(so.decode("latin1")) if rcE == 0 else {},
                             "files": per_type(tree), "seE": seE[-400:], "seG": seG[-400:]})
    # once more in the first order with a larger environment (determinism of the multi-file run)
    P = os.path.join(d, "p0b")
    write_inputs(P, texts)
    rcG, tree, _ = run_gen(ctx, P, [names[i] for i in perms[0]], opts, env=padded_env(3100 + idx % 9))
    res["det"] = (rcG, diff_trees(per_type(tree), res["perms"][0]["files"]) if rcG == 0 and res["perms"][0]["rcG"] == 0 else [])
    shutil.rmtree(d, ignore_errors=True)
    return res


def case_corpus_gen(ctx, idx, path, opts):
    """code generation from a shipped corpus file: process-image determinism, valgrind, alphabet tables"""
    asn1c, skel, root = ctx
    d = os.path.join(root, "g%05d" % idx)
    f = "in/" + os.path.basename(path)
    res = {"path": path}
    src = open(path, "rb").read()
    # memcheck is 20-50x slower: the largest example (rrc-7.1.0, 700 KB) goes without it
    res["det"] = det_runs(ctx, d, {f: src}, [f], opts, idx, use_valgrind=len(src) < 100000)
    res["tree"] = per_type(res["det"].pop("tree"))
    shutil.rmtree(d, ignore_errors=True)
    return res

# ---------------------------------------------------------------------------
# one generated single-module case (runs in a worker thread)

def case_single(ctx, idx, m, t0, want_code=True):
    asn1c, skel, root = ctx
    d = os.path.join(root, "s%05d" % idx)
    A, B, A2, A3 = (os.path.join(d, x) for x in ("A", "B", "A2", "A3"))
    for x in (A, B, A2, A3):
        os.makedirs(os.path.join(x, "in"))
    res = {"idx": idx, "name": m["name"]}
    f = "in/m.asn1"
    open(os.path.join(A, f), "w").write(t0)
    rc, t1, se = asn1c_E(asn1c, A, [f])
    res["E0"] = (rc, se)
    if rc != 0:
        return res
    res["t1"] = t1
    open(os.path.join(B, f), "wb").write(t1)
    rc, t2, se = asn1c_E(asn1c, B, [f])
    res["E1"] = (rc, se)
    res["t2"] = t2
    # a third application of the cycle
    if rc == 0 and t2 != t1:
        open(os.path.join(A3, f), "wb").write(t2)
        rc3, t3, _ = asn1c_E(asn1c, A3, [f])
        res["t3_eq_t2"] = (rc3 == 0 and t3 == t2)
    if not want_code:
        shutil.rmtree(d, ignore_errors=True)
        return res
    rcA, treeA, seA = gen_code(asn1c, skel, A, [f])
    res["genA"] = (rcA, seA)
    if rcA == 0:
        rcB, treeB, seB = gen_code(asn1c, skel, B, [f])
        res["genB"] = (rcB, seB)
        pa, pb = per_type(treeA), per_type(treeB)
        res["n_per_type"] = len(pa)
        if rcB == 0:
            dd = diff_trees(pa, pb)
            res["same_code_diff"] = dd
            if dd:
                k = dd[0]
                res["same_code_first"] = (k, first_diff(pa.get(k, b""), pb.get(k, b"")))
            res["other_diff_t0_t1"] = [k for k in diff_trees(treeA, treeB) if k not in dd]
        # determinism: again with a padded environment, and once more unpadded in another directory
        open(os.path.join(A2, f), "w").write(t0)
        rc2, tree2, _ = gen_code(asn1c, skel, A2, [f], env=padded_env(3000 + 517 * (idx % 7)))
        open(os.path.join(A3, f), "w").write(t0)
        rc3, tree3, _ = gen_code(asn1c, skel, A3, [f])
        res["det"] = (rc2, rc3, diff_trees(treeA, tree2), diff_trees(treeA, tree3))
        if res["det"][2] or res["det"][3]:
            k = (res["det"][2] + res["det"][3])[0]
            res["det_first"] = (k, first_diff(treeA.get(k, b""), (tree2 if k in res["det"][2] else tree3).get(k, b"")))
        # -E twice as well
        rcx, t1x, _ = asn1c_E(asn1c, A2, [f], env=padded_env(1234))
        res["E_det"] = (rcx == 0 and t1x == t1)
    shutil.rmtree(d, ignore_errors=True)
    return res


def case_multi(ctx, idx, mods, texts, max_perms):
    """mods: list of (module, imports); file i holds module i.  Every permutation of the file list."""
    asn1c, skel, root = ctx
    d = os.path.join(root, "m%05d" % idx)
    names = ["in/f%d.asn1" % i for i in range(len(mods))]
    perms = list(itertools.permutations(range(len(mods))))[:max_perms]
    res = {"idx": idx, "nfiles": len(mods), "nperms": len(perms), "diffs": [], "other": {}, "rcs": []}
    base = None
    for pi, perm in enumerate(perms):
        P = os.path.join(d, "p%d" % pi)
        os.makedirs(os.path.join(P, "in"))
        for i, t in enumerate(texts):
            open(os.path.join(P, names[i]), "w").write(t)
        rc, tree, se = gen_code(asn1c, skel, P, [names[i] for i in perm])
        res["rcs"].append(rc)
        if pi == 0:
            res["gen0"] = (rc, se)
            if rc != 0:
                break
            base = tree
            res["n_per_type"] = len(per_type(tree))
            # determinism of the multi-file run too
            P2 = os.path.join(d, "p0b")
            os.makedirs(os.path.join(P2, "in"))
            for i, t in enumerate(texts):
                open(os.path.join(P2, names[i]), "w").write(t)
            rcb, treeb, _ = gen_code(asn1c, skel, P2, [names[i] for i in perm], env=padded_env(4099))
            res["det"] = (rcb, diff_trees(tree, treeb))
            # the printed form of the whole module set (one text) must be accepted and compile too
            rce, t1, see = asn1c_E(asn1c, P, [names[i] for i in perm])
            res["E"] = (rce, see)
            if rce == 0:
                P3 = os.path.join(d, "p0c")
                os.makedirs(os.path.join(P3, "in"))
                open(os.path.join(P3, "in/all.asn1"), "wb").write(t1)
                rc3, tree3, se3 = gen_code(asn1c, skel, P3, ["in/all.asn1"])
                res["gen_printed"] = (rc3, se3[-300:], sorted(per_type(tree3)) == sorted(per_type(tree)))
            continue
        if rc != 0:
            res["diffs"].append((perm, "rc=%d" % rc, se[-300:]))
            continue
        pa, pb = per_type(base), per_type(tree)
        dd = diff_trees(pa, pb)
        if dd:
            k = dd[0]
            res["diffs"].append((perm, k, first_diff(pa.get(k, b""), pb.get(k, b""))))
        for k in diff_trees(base, tree):
            if k not in dd:
                res["other"][k] = res["other"].get(k, 0) + 1
    shutil.rmtree(d, ignore_errors=True)
    return res


def case_corpus(ctx, idx, path):
    asn1c, skel, root = ctx
    d = os.path.join(root, "c%05d" % idx)
    os.makedirs(d)
    res = {"path": path}
    src = open(path, "rb").read()
    f0 = "t0.asn1"
    open(os.path.join(d, f0), "wb").write(src)
    rc, t1, se = asn1c_E(asn1c, d, [f0])
    res["E0"] = rc
    res["old_syntax"] = "Obsolete X.208 syntax" in se
    if rc != 0:
        shutil.rmtree(d, ignore_errors=True)
        return res
    open(os.path.join(d, "t1.asn1"), "wb").write(t1)
    rc1, t2, se1 = asn1c_E(asn1c, d, ["t1.asn1"])
    res.update(E1=rc1, E1_err=se1[-400:], t1=t1, t2=t2)
    # a second run of -E on t0 must give the same bytes (determinism of the printer)
    rcx, t1x, _ = asn1c_E(asn1c, d, [f0], env=padded_env(2111))
    res["E_det"] = (rcx == 0 and t1x == t1)
    # semantic acceptance: if the original passes -E -F, so must the printed text
    rcf0, _, _ = asn1c_E(asn1c, d, [f0], extra=["-F"])
    res["F0"] = rcf0
    if rcf0 == 0 and rc1 == 0:
        rcf1, _, sef1 = asn1c_E(asn1c, d, ["t1.asn1"], extra=["-F"])
        res["F1"] = rcf1
        res["F1_err"] = sef1[-400:]
    shutil.rmtree(d, ignore_errors=True)
    return res


# ---------------------------------------------------------------------------

def corpus_files():
    out = []
    for dname in ("tests/tests-asn1c-compiler", "examples"):
        dd = os.path.join(REPO_CORPUS, dname)
        if os.path.isdir(dd):
            out += sorted(os.path.join(dd, f) for f in os.listdir(dd) if f.endswith(".asn1"))
    return out


# the corpus is excluded from the scratch copy (vlib excludes tests/ and examples/); it is input
# data, read from the repository given by VERIF_REPO, falling back to /repo when a private
# copy was made without tests/ and examples/ (as the builder guide's rsync line does)
REPO_CORPUS = REPO if os.path.isdir(os.path.join(REPO, "tests", "tests-asn1c-compiler")) else "/repo"


def multi_modules(rng, size):
    """2-4 modules, module i imports some types of modules j < i; one file per module"""
    k = rng.range(2, 4)
    g = G.Gen(rng, size)
    mods, exported = [], []      # exported: (module name, [type names])
    for i in range(k):
        name = "Mm%s%d" % ("abcd"[i], rng.below(90))
        imps, refs = [], []
        for (mn, tns) in exported:
            if rng.chance(2, 3):
                pick = [t for t in tns if rng.chance(1, 2)] or [tns[0]]
                pick = [t for t in pick if t not in refs]
                if pick:
                    imps.append((pick, mn))
                    refs += pick
        m = g.module(name, nass=rng.range(1, 3), ext_refs=refs)
        # type names must be unique across the module set (one C file per type name)
        mods.append((m, imps))
        exported.append((name, [a[0] for a in m["assigns"] if len(a) == 2]))
    return mods


def main(tier):
    run = Run("C12", tier)
    # findings of this property: the assembled known_findings.json, or (worktree not yet merged) the fragment
    frag = os.path.join(VERIF, "findings.d", "C12.json")
    if os.path.exists(frag):
        have = {f.get("id") for f in run.findings}
        run.findings = list(run.findings) + [f for f in json.load(open(frag)) if f.get("status") == "open" and f.get("id") not in have]
    rng = Rng(run.seed)
    quick = tier == "quick"
    # 1. proofs ------------------------------------------------------------
    nthm = ndis = 0
    names, axioms = [], set()
    have_model = os.path.exists(os.path.join(COQ, "Props", "Properties_C12.v"))
    if have_model:
        ok, out = coq_build()
        nthm, ndis, axioms, names, plog = obligations("C12") if ok else (0, 0, set(), [], out)
        gate = grep_gate()
        if not ok or ndis != nthm or gate or nthm == 0:
            run.violation("proof:Properties_C12", {"what": "Coq development does not build or an obligation is open",
                                                   "log_tail": (out if not ok else plog)[-2000:], "grep_gate": gate}, no_input=True)
    # 2. build asn1c from the working tree -----------------------------------
    try:
        asn1c, skel = build_asn1c()
    except BuildError as e:
        run.violation("build:asn1c", {"what": str(e)[-2000:]}, no_input=True)
        return run.finish("proof", (nthm, ndis))
    root = os.path.join(scratch(), "c12")
    os.makedirs(root, exist_ok=True)
    ctx = (asn1c, skel, root)
    pool = ThreadPoolExecutor(max_workers=min(16, NCPU))

    # 3. generated single modules ---------------------------------------------
    nmod = 60 if quick else 600
    singles = []
    g_small, g_big = G.Gen(rng, 2), G.Gen(rng, 4)
    for i in range(nmod):
        g = g_big if (not quick and i % 3 == 0) else (g_big if i % 5 == 0 else g_small)
        m = g.module("Mod%d" % i)
        singles.append((m, G.render(m, rng), "plain"))
    # directed boundary cases of the value sub-language: the same in every run, whatever the seed
    for m in G.value_boundary_modules():
        singles.append((m, G.render(m, rng), "value-boundary"))
    # dedicated witnesses of the recorded findings (kept in every run, so that a fix shows up)
    nw = 4 if quick else 20
    made = 0
    for (m, _, _) in list(singles):
        if made >= nw:
            break
        w = G.wrap_parens(m, rng)
        if w is not None:
            w["name"] = m["name"] + "w"
            singles.append((w, G.render(w, rng), "witness-paren"))
            made += 1
    for i in range(nw):
        k1, k2 = rng.choice(["SEQUENCE OF", "SET OF"]), rng.choice(["SEQUENCE OF", "SET OF"])
        inner = (None, ("INTEGER", []), ("set", [("range", rng.range(0, 5), rng.range(5, 90))]))
        t = (None, (k1, None, (None, (k2, None, inner), None)), None)
        m = {"name": "Nof%d" % i, "tagdef": "", "extimpl": False, "assigns": [("Qnest%d" % i, t)]}
        singles.append((m, G.render(m, rng), "witness-nested-of"))
    futs = [pool.submit(case_single, ctx, i, m, t0) for i, (m, t0, kind) in enumerate(singles)]
    # every other case family is generated and submitted now (fixed order of Rng draws), so that the pool
    # stays busy while results are evaluated section by section below
    cn = lambda t: t.replace("-", "_")
    skel_files = set(os.listdir(skel))
    nrich = 36 if quick else 320
    R = G.Rich(rng)
    rich = []
    for i in range(nrich):
        forced = None
        if i % 3 == 0:     # constraint-table coverage in every run, whatever the seed
            forced = ["alphabet", "alphabet"] + [rng.choice(G.RICH_BLOCKS) for _ in range(rng.range(0, 3))]
        if i % 3 == 1:     # value notation coverage (hstring/bstring/braced values/REAL) in every run
            forced = ["values"] + [rng.choice(G.RICH_BLOCKS) for _ in range(rng.range(0, 3))]
        m = R.module("Rich%d" % i, pfx="R", blocks=forced)
        opts = OPTION_SETS[i % len(OPTION_SETS)] if i < 2 * len(OPTION_SETS) else rng.choice(OPTION_SETS)
        extras = {0: ["dforms"], 4: ["dupfile"]}.get(i % 9, [])
        rich.append((m, opts, extras))
    # contained subtypes whose type is NOT a reference (`INCLUDES` is then part of the notation: asn1c -E dropped it until the
    # repair of C12-includes-keyword-dropped); in every run: the printed text must be accepted and print to itself (oracle:fixpoint)
    wi = ("WitIncl DEFINITIONS ::= BEGIN\nBase ::= INTEGER (0..%d)\nInl ::= INTEGER (INCLUDES INTEGER (1..%d))\nRef ::= INTEGER (INCLUDES Base | %d)\n"
          "Bare ::= INTEGER (INCLUDES INTEGER)\nUni ::= INTEGER (0 | INCLUDES INTEGER (%d..%d) | 99)\n"
          "Oct ::= OCTET STRING (INCLUDES OCTET STRING (SIZE(1..%d)))\nStr ::= IA5String (INCLUDES IA5String (SIZE(1..4)) ^ FROM(\"a\"..\"f\"))\n"
          "Refc ::= INTEGER (INCLUDES Base (0..5))\nEND\n") % (
        rng.range(50, 99), rng.range(2, 40), rng.range(100, 200), rng.range(2, 5), rng.range(6, 9), rng.range(2, 30))
    rich.append(({"name": "WitIncl", "text": wi, "blocks": ["witness-includes-inline"], "alph": {}, "ids": []}, OPTION_SETS[0], []))
    # SET types at the decision "separate canonical-XER tag map or `Same as above`" (asn1c_lang_C_type_SET_def; it was taken by a memcmp over
    # tag2el_count BYTES, uninitialised ones included, until the repair of C12-set-cxer-map-uninit): five and more components with equal
    # maps (memcheck must be silent, `Same as above`), and an extensible SET whose additions are not in tag order (the maps differ from
    # the second/third entry on: the canonical-XER map must be emitted, root sorted by tag, additions in definition order)
    ws = ("WitSetCxer DEFINITIONS ::= BEGIN\n"
          "SetSame ::= SET { a [1] INTEGER, b [3] INTEGER, c [5] INTEGER, d [7] INTEGER, e [9] INTEGER, f [11] BOOLEAN OPTIONAL }\n"
          "SetExt ::= SET { a [%d] INTEGER, b [%d] INTEGER, ..., c [1] INTEGER, d [0] INTEGER }\n"
          # a long bit-string value printed before shorter ones: asn1f_printable_value wrote `'..'HH` without a terminator into its static
          # buffer, so the comment showed the tail of the longer text printed before (C12-printable-bitvector-unterminated, repaired)
          "BitDef ::= SEQUENCE { a [0] BIT STRING DEFAULT '00000010110011000'B, b [1] BIT STRING DEFAULT '9A6B'H, c [2] BIT STRING DEFAULT '101'B }\n"
          "END\n") % (rng.range(5, 9), rng.range(2, 4))
    rich.append(({"name": "WitSetCxer", "text": ws, "blocks": ["witness-set-cxer"], "alph": {}, "ids": []}, OPTION_SETS[0], []))
    rich_futs = [pool.submit(case_rich, ctx, i, m, opts, extras) for i, (m, opts, extras) in enumerate(rich)]
    nclash = 14 if quick else 90
    csets = []
    for i in range(nclash):
        mods = G.clash_set(rng)
        opts = OPTION_SETS[0] if i % 2 == 0 else rng.choice(OPTION_SETS)
        csets.append((mods, opts))
    clash_futs = [pool.submit(case_clash, ctx, i, mods, opts, 6) for i, (mods, opts) in enumerate(csets)]
    # cross-module constraint resolution: every shape once (directed), then random shapes; plus the two text-level
    # witnesses of the repaired C12-includes-foreign-namespace (ordinary cases now: every order must agree)
    nx = 18 if quick else 120
    xsets = []
    for i in range(nx):
        xsets.append(G.xmod_set(rng, i, G.XM_SHAPES[i] if i < len(G.XM_SHAPES) else None))
    xsets.append(G.xmod_witness(rng, 900, "fatal"))
    xsets.append(G.xmod_witness(rng, 901, "silent"))
    XOPTS = [OPTION_SETS[0], ["-pdu=all", "-fcompound-names", "-no-gen-OER"], ["-pdu=auto", "-fcompound-names", "-fwide-types"]]
    xmod_futs = [pool.submit(case_xmod, ctx, i, xs, XOPTS[i % 3]) for i, xs in enumerate(xsets)]
    # (k) every constraint operator of the grammar: the directed module (every operator in every operand position, the same in every
    # run), random nestings, directed text for the operators outside the model; print/parse iterated four times
    nops = 6 if quick else 60
    opsmods = [O.ops_module("OpsD", rng, 0, 0, directed=True)]
    for i in range(nops):
        opsmods.append(O.ops_module("OpsR%d" % i, rng, 10, 1 + i % 3))
    opsmods += O.ops_text_modules(rng)
    ops_futs = [pool.submit(O.case_ops, ctx, i, m, m["family"] == "ops-text") for i, m in enumerate(opsmods)]
    # (l) module identity: editions of one module name told apart by OID; every shape once (directed), then random shapes
    nmi = len(O.MI_SHAPES) + (2 if quick else 40)
    misets = [O.modid_set(rng, i, O.MI_SHAPES[i] if i < len(O.MI_SHAPES) else None) for i in range(nmi)]
    mi_futs = [pool.submit(O.case_modid, ctx, i, ms, 24) for i, ms in enumerate(misets)]
    # (m) what the output directory already holds: sized base modules x option sets x stale directory states (directed: the same in
    # every run), then random stale states on rich modules; its own Rng stream, so that the other families keep their draws
    drng = Rng(run.seed * 7919 + 12)
    dcases = D.directed_cases(run.seed, quick) + D.random_cases(drng, [m["text"] for (m, _, _) in rich[:(6 if quick else 40)]], quick)
    dir_futs = [pool.submit(D.case_dir, ctx, 70000 + i, c) for i, c in enumerate(dcases)]
    nsets = 12 if quick else 80
    sets = []
    for i in range(nsets):
        mods = multi_modules(rng, 2)
        texts = [G.render(m, rng, imports=imps) for (m, imps) in mods]
        sets.append((mods, texts))
    multi_futs = [pool.submit(case_multi, ctx, i, mods, texts, 24) for i, (mods, texts) in enumerate(sets)]
    files = corpus_files()
    if quick:
        files = rng.shuffle(files)[:45]
    corpus_futs = [pool.submit(case_corpus, ctx, i, p) for i, p in enumerate(files)]
    allfiles = corpus_files()
    def has_from(p):
        try:
            return bool(re.search(r"\bFROM\s*\(", strip_comments(open(p, "r", errors="replace").read())))
        except OSError:
            return False
    if quick:
        # (the 700 KB rrc-7.1.0.asn1 takes 30-40 s per code generation, five in a row: thorough tier only)
        gfiles = [p for p in allfiles if has_from(p)] + [p for p in files if not has_from(p) and os.path.getsize(p) < 200000][:14]
    else:
        gfiles = allfiles
    cgen_futs = [pool.submit(case_corpus_gen, ctx, i, p, OPTION_SETS[0] if i % 3 else OPTION_SETS[6]) for i, p in enumerate(gfiles)]
    results = [f.result() for f in futs]

    # model side (faithfulness) ----------------------------------------------
    model_pp = {}
    if have_model:
        model = model_build()
        lines = ["c12_pp " + G.ser_module(G.yacc_norm(m)) for (m, _, _) in singles]
        lines += ["c12_rt " + G.ser_module(G.yacc_norm(m)) for (m, _, _) in singles]
        rcm, mo, me = run_lines(model, lines)
        if rcm != 0 or len(mo) != len(lines):
            run.violation("model:driver", {"what": "model driver failed", "stderr": me}, no_input=True)
        else:
            for i in range(len(singles)):
                model_pp[i] = (mo[i], mo[len(singles) + i])

    for i, ((m, t0, kind), r) in enumerate(zip(singles, results)):
        run.case("single:%s" % m["name"])
        run.count("single_" + kind)
        rep = {"module": m["name"], "t0": t0, "kind": kind}
        norm = G.yacc_norm(m)
        deep = G.module_has_deep_paren(norm)       # printed text has `((x))` at a Constraint's top
        rc0, se0 = r["E0"]
        if rc0 != 0:
            run.violation("oracle:generated-module-rejected", dict(rep, what="asn1c -E rejects a generated module", rc=rc0, stderr=se0))
            continue
        t1 = r["t1"]
        # (a) faithfulness, byte for byte
        if i in model_pp:
            want, rt = model_pp[i]
            got = hexs(t1)
            run.count("faithfulness_cases")
            if want != got:
                run.count("model_vs_code_diff")
                try:
                    wtxt = bytes.fromhex(want).decode("latin1")
                except ValueError:
                    wtxt = want
                run.violation("correspondence:Printer.pp_bytes", dict(rep, what="model printer and asn1c -E disagree",
                              first_diff=first_diff(wtxt, t1), model=wtxt[:3000], c=t1.decode("latin1")[:3000], _pending=True, _idx=i))
            # the model's own round trip on this AST (lexer inverse + parser inverse, executed)
            exp_rt = "wf=true lex=true parse=true" if not deep else None
            if deep:
                run.count("model_rt_nonwf")
                if not rt.startswith("wf=false"):
                    run.violation("model:wf-classifier", dict(rep, what="model wf predicate and python classifier disagree", model=rt), no_input=True)
            elif rt != exp_rt:
                run.violation("model:roundtrip", dict(rep, what="executed model: lex(pp_bytes a) = pp a and parse(pp a) = a fails on a well-formed AST", model=rt), no_input=True)
        # (b) fixpoint
        rc1, se1 = r["E1"]
        fix_ok = (rc1 == 0 and r["t2"] == t1)
        run.count("fixpoint_ok" if fix_ok else "fixpoint_fail")
        if not fix_ok:
            txt1 = t1.decode("latin1")
            if rc1 != 0 and text_has_nested_of_constraint(txt1) and "Assertion" in se1:
                run.known_finding("C12-nested-of", m["name"])
            elif rc1 == 0 and deep and r.get("t3_eq_t2"):
                run.known_finding("C12-paren-collapse", m["name"])
            else:
                run.violation("oracle:fixpoint", dict(rep, what="asn1c -E output is not accepted or does not print to itself",
                              rc=rc1, stderr=se1, t1=txt1[:3000], first_diff=first_diff(t1, r["t2"]) if rc1 == 0 else None))
        # same code
        if "genA" in r:
            rcA, seA = r["genA"]
            if rcA != 0:
                run.count("t0_not_compilable")
                run.count("t0_not_compilable:" + (re.sub(r"[0-9]+", "N", (seA.strip().split("\n") or ["?"])[-1])[:60]))
            else:
                run.count("t0_compiled")
                run.count("per_type_files", r.get("n_per_type", 0))
                rcB, seB = r["genB"]
                if rcB != 0:
                    if rc1 != 0 and text_has_nested_of_constraint(t1.decode("latin1")):
                        pass   # already reported above as C12-nested-of
                    else:
                        run.violation("oracle:same-code", dict(rep, what="printed module does not compile although the original does", rc=rcB, stderr=seB, t1=t1.decode("latin1")[:3000]))
                elif r["same_code_diff"]:
                    run.violation("oracle:same-code", dict(rep, what="generated per-type files differ between the module and its printed form",
                                  files=r["same_code_diff"][:10], first=r["same_code_first"], t1=t1.decode("latin1")[:3000]))
                else:
                    run.count("same_code_ok")
                for k in r.get("other_diff_t0_t1", []):
                    run.count("t0_t1_other_file_diff:" + k)
                # (c) determinism
                rc2, rc3, d2, d3 = r["det"]
                if rc2 != 0 or rc3 != 0 or d2 or d3 or not r["E_det"]:
                    run.violation("oracle:determinism", dict(rep, what="repeated runs of asn1c on the same input differ (padded environment / other directory)",
                                  rcs=[rc2, rc3], files=(d2 + d3)[:10], first=r.get("det_first"), E_same=r["E_det"]))
                else:
                    run.count("determinism_ok")
    for i in (0, len(singles) // 2):
        m, t0, kind = singles[i]
        run.sample({"module": m["name"], "t0": t0[:400], "t1": results[i].get("t1", b"").decode("latin1")[:400]})

    # 4. multi-module sets: file-order independence ------------------------------
    for (mods, texts), f in zip(sets, multi_futs):
        r = f.result()
        run.case("multi:%s" % "+".join(m["name"] for m, _ in mods))
        run.count("multi_sets_%d_files" % r["nfiles"])
        rep = {"files": texts}
        rc0, se0 = r["gen0"]
        if rc0 != 0:
            run.count("multi_not_compilable")
            continue
        run.count("multi_permutations", r["nperms"])
        run.count("multi_per_type_files", r.get("n_per_type", 0))
        if r["diffs"]:
            run.violation("oracle:file-order", dict(rep, what="per-type files depend on the order of the input file list", diffs=[list(map(str, x)) for x in r["diffs"][:5]]))
        else:
            run.count("file_order_ok")
        for k, n in r["other"].items():
            run.count("file_order_other_file_diff:" + k, n)
        rcb, db = r["det"]
        if rcb != 0 or db:
            run.violation("oracle:determinism", dict(rep, what="repeated multi-file runs differ", files=db[:10]))
        rce, see = r["E"]
        has_imports = any(imps for _, imps in mods)
        if rce != 0:
            run.violation("oracle:generated-module-rejected", dict(rep, what="asn1c -E rejects a generated module set", stderr=see))
        else:
            rc3, se3, same_names = r["gen_printed"]
            if rc3 != 0 and has_imports and "Unknown" in se3:
                run.known_finding("C12-imports-dropped", "multi")
                run.count("multi_printed_known:C12-imports-dropped")
            elif rc3 != 0 or not same_names:
                run.violation("oracle:same-code", dict(rep, what="printed form of a compilable module set does not compile to the same set of per-type files", stderr=se3))
            else:
                run.count("multi_printed_compiles")


    # 4b. rich single modules: process-image determinism, valgrind, alphabet tables, options ---------
    for (m, opts, extras), f in zip(rich, rich_futs):
        r = f.result()
        run.case("rich:%s" % m["name"])
        for b in set(m["blocks"]):
            run.count("rich_block:" + b)
        run.count("rich_opts:" + " ".join(opts))
        rep = {"module": m["name"], "t0": m["text"], "options": opts,
               "replay_cmd": "asn1c -S skeletons %s -D out m.asn1   (twice, second time with a larger environment; or under valgrind -q)" % " ".join(opts)}
        det = r["det"]
        if det["rc0"] != 0:
            run.count("rich_not_compilable")
            run.count("rich_not_compilable:" + (re.sub(r"[0-9]+", "N", (det["se0"].strip().split("\n") or ["?"])[-1])[:60]))
        else:
            run.count("rich_compiled")
            run.count("rich_per_type_files", len(r["tree"]))
        if report_det(run, rep, det, "rich module"):
            run.count("rich_determinism_ok")
        check_tables_in_tree(run, rep, r["tree"], m["alph"], cn)
        if "witness-set-cxer" in m["blocks"]:
            same_c = r["tree"].get("SetSame.c", b"").decode("latin1")
            ext_c = r["tree"].get("SetExt.c", b"").decode("latin1")
            mm = re.search(r"asn_MAP_SetExt_tag2el_cxer_1\[\] = \{\n(.*?)\n\};", ext_c, flags=re.S)
            order = re.findall(r"/\* (\w+) \*/", mm.group(1)) if mm else None
            if det["rc0"] != 0 or "tag2el_cxer_1[]" in same_c or "asn_MAP_SetSame_tag2el_1,\t/* Same as above */" not in same_c or order != ["b", "a", "c", "d"]:
                run.violation("oracle:set-cxer-map", dict(rep, what="canonical-XER tag map of a SET: expected `Same as above` for SetSame (equal maps) and a separate "
                              "map b,a,c,d for SetExt (root by tag, additions in definition order)", rc=det["rc0"], setext_order=order,
                              setsame_has_own_map="tag2el_cxer_1[]" in same_c))
            else:
                run.count("set_cxer_map_ok")
            bit_h = r["tree"].get("BitDef.h", b"").decode("latin1")
            cm = re.findall(r"/\* DEFAULT (.*?) \*/", bit_h)
            if cm != ["'00000010110011000'B", "'9A6B'H", "'101'B"]:
                run.violation("oracle:value-text", dict(rep, what="the DEFAULT comments of BitDef.h are not the three bit-string values as written: the text "
                              "of a value depends on what was printed before it", comments=cm))
            else:
                run.count("bitvector_text_ok")
        rc1, rc2, same, rc_as_gen = r["P"]
        if rc1 != rc2 or not same:
            run.violation("oracle:determinism", dict(rep, what="asn1c -P printed different text on a second run", rcs=[rc1, rc2]))
        rcE, vgE, seE = r["E"]
        if rcE == VG_RC:
            run.violation("oracle:uninitialised-read", dict(rep, what="valgrind memcheck reports an error in asn1c -E", valgrind=vgE))
        elif rcE != 0:
            run.count("rich_E_rejected")
            if det["rc0"] == 0:
                run.violation("oracle:generated-module-rejected", dict(rep, what="asn1c -E rejects a module that asn1c compiles", stderr=seE))
        if "EF" in r:
            rcF, vgF, sameF = r["EF"]
            if rcF == VG_RC:
                run.violation("oracle:uninitialised-read", dict(rep, what="valgrind memcheck reports an error in asn1c -E -F", valgrind=vgF))
            elif not sameF:
                run.violation("oracle:determinism", dict(rep, what="asn1c -E -F printed different text on a second run"))
        if "fix" in r:
            rc1, same, se1, t1, t2 = r["fix"]
            if rc1 == 0 and same:
                run.count("rich_fixpoint_ok")
                if "witness-includes-inline" in m["blocks"]:
                    run.count("includes_inline_fixpoint_ok")
            else:
                cls = classify_rich_fixpoint(m, t1.decode("latin1"), rc1, se1)
                if cls:
                    run.known_finding(cls, m["name"])
                    run.count("rich_known:" + cls)
                else:
                    run.violation("oracle:fixpoint", dict(rep, what="asn1c -E output of a rich module is not accepted or does not print to itself",
                                  rc=rc1, stderr=se1, t1=t1.decode("latin1")[:3000], first_diff=first_diff(t1, t2) if rc1 == 0 else None))
        for (dflag, rc, dd) in r.get("dforms", []):
            run.count("outdir_forms")
            if rc != det["rc0"] or dd:
                run.violation("oracle:determinism", dict(rep, what="per-type files (command-line comment removed) depend on the spelling of -D",
                              dflag=dflag, rc=rc, files=dd))
        if "dupfile" in r:
            rca, rcb, dd = r["dupfile"]
            run.count("dupfile_rc:%d" % rca)
            if rca != rcb or dd:
                run.violation("oracle:determinism", dict(rep, what="naming the same file twice: two runs differ", rcs=[rca, rcb], files=dd[:8]))
    if rich:
        run.sample({"rich_module": rich[0][0]["text"][:600], "options": rich[0][1]})

    # 4c. cross-module name clashes: naming model vs C, every file order --------------------------
    name_lines, name_keys = [], []
    for ci, (mods, opts) in enumerate(csets):
        for perm in list(itertools.permutations(range(len(mods))))[:6]:
            toks = [str(len(mods))]
            for i in perm:
                toks += [mods[i]["name"], str(len(mods[i]["ids"]))] + [ident for ident, _ in mods[i]["ids"]]
            name_lines.append("c12_names " + " ".join(toks))
            name_keys.append((ci, perm))
    model_names = {}
    if have_model and name_lines:
        rcm, mo, me = run_lines(model, name_lines)
        if rcm != 0 or len(mo) != len(name_lines):
            run.violation("model:driver", {"what": "model driver failed on c12_names", "stderr": me}, no_input=True)
        else:
            model_names = dict(zip(name_keys, mo))
    for ci, ((mods, opts), f) in enumerate(zip(csets, clash_futs)):
        r = f.result()
        run.case("clash:%s" % "+".join(m["name"] for m in mods))
        run.count("clash_sets_%d_files" % len(mods))
        rep = {"files": [m["text"] for m in mods], "options": opts,
               "replay_cmd": "asn1c -S skeletons %s -D out f0.asn1 f1.asn1 …  in every order of the files; compare the per-type files" % " ".join(opts)}
        det = r["det"]
        report_det(run, rep, det, "multi-file set with name clashes")
        if det["rc0"] != 0:
            run.count("clash_not_compilable")
            run.count("clash_not_compilable:" + (re.sub(r"[0-9]+", "N", (det["se0"].strip().split("\n") or ["?"])[-1])[:60]))
        else:
            run.count("clash_compiled")
            run.count("clash_permutations", r["nperms"])
            run.count("clash_per_type_files", len(r["tree"]))
            check_tables_in_tree(run, rep, r["tree"])
        order_bad, names_bad = [], []
        for (perm, rc, pfiles, dd, fd, se) in r["perms"]:
            if rc != det["rc0"]:
                order_bad.append((perm, "rc=%d (first order: rc=%d)" % (rc, det["rc0"]), se))
            elif dd:
                order_bad.append((perm, dd[:8], fd))
            mline = model_names.get((ci, perm))
            if mline is None:
                continue
            run.count("naming_cases")
            flat_ids = [(ident, kind) for i in perm for (ident, kind) in mods[i]["ids"]]
            if mline == "FATAL":
                if rc == 0:
                    names_bad.append((perm, "model: FATAL clash, asn1c: rc=0"))
                continue
            mn = mline.split()[1:]
            if len(mn) != len(flat_ids):
                names_bad.append((perm, "model output malformed: " + mline[:200]))
                continue
            if rc != 0:
                if "clashes with expression" in se:
                    names_bad.append((perm, "model: no fatal clash, asn1c: " + se[-200:]))
                continue
            want = sorted(cn(n) for n, (ident, kind) in zip(mn, flat_ids)
                          if kind in ("type", "ptypeused") or (kind == "skeltype" and cn(n) + ".c" not in skel_files))
            got = sorted(k[:-2] for k in pfiles if k.endswith(".c"))
            goth = sorted(k[:-2] for k in pfiles if k.endswith(".h"))
            if want != got or want != goth:
                names_bad.append((perm, {"model": want, "c": got, "h": goth}))
            if any("_" in n and n.split("_", 1)[0] in [m["name"] for m in mods] for n in want):
                run.count("naming_cases_with_prefix")
        if names_bad:
            run.count("model_vs_code_diff")
            run.violation("correspondence:NameClash.cnames_c", dict(rep, what="names of the per-type files: clash-marking model and asn1c disagree",
                          diffs=[list(map(str, x)) for x in names_bad[:4]]), no_input=not order_bad)
        rc_bad = any(x[1] != det["rc0"] for x in r["perms"])
        if order_bad and not rc_bad and r.get("spec_order_only"):
            run.known_finding("C12-param-spec-order", "+".join(m["name"] for m in mods))
            run.count("clash_known:C12-param-spec-order")
        elif order_bad and not rc_bad and r.get("family_only") and mods[0].get("template_module_automatic"):
            # the template's module has AUTOMATIC TAGS and the template is instantiated from a later file
            run.known_finding("C12-param-late-spec-unfixed", "+".join(m["name"] for m in mods))
            run.count("clash_known:C12-param-late-spec-unfixed")
        elif order_bad:
            run.violation("oracle:file-order", dict(rep, what="per-type files depend on the order of the input file list (cross-module name clash)",
                          diffs=[list(map(str, x)) for x in order_bad[:4]]))
        elif det["rc0"] == 0:
            run.count("clash_file_order_ok")
    if csets:
        run.sample({"clash_set": [m["text"][:300] for m in csets[0][0]]})
    # the FATAL branch of the model (same identifier twice in one module), replayed on the C
    dupmod = "Dm DEFINITIONS ::= BEGIN\nTwice ::= INTEGER\nOther ::= BOOLEAN\nTwice ::= NULL\nEND\n"
    if have_model:
        rcm, mo, _ = run_lines(model, ["c12_names 1 Dm 3 Twice Other Twice"])
        dd = os.path.join(root, "dupmod")
        write_inputs(dd, {"in/m.asn1": dupmod})
        rcd, _, sed = run_gen(ctx, dd, ["in/m.asn1"], OPTION_SETS[0])
        run.case("clash:fatal-duplicate")
        if not (mo == ["FATAL"] and rcd != 0 and "clashes with expression" in sed):
            run.violation("correspondence:NameClash.cnames_c", {"what": "same identifier twice in one module: model says FATAL, asn1c must refuse",
                          "t0": dupmod, "model": mo, "rc": rcd, "stderr": sed[-300:]}, no_input=True)
        shutil.rmtree(dd, ignore_errors=True)

    # 4d. cross-module constraint resolution: exit status, printed constraints and per-type files under every
    #     order of the file list; combined constraints against the model (Fix/Pullup.v) and against python's own
    #     order-free evaluation
    pull_lines, pull_keys = [], []
    for xi, xs in enumerate(xsets):
        if xs["xs"] is None:
            continue
        for perm in list(itertools.permutations(range(len(xs["mods"]))))[:6]:
            pull_lines.append("c12_pull " + " ".join(xs["xs"].model_args(perm, xs["mods"])))
            pull_keys.append((xi, perm))
    model_pull = {}
    if have_model and pull_lines:
        rcm, mo, me = run_lines(model, pull_lines)
        if rcm != 0 or len(mo) != len(pull_lines):
            run.violation("model:driver", {"what": "model driver failed on c12_pull", "stderr": me}, no_input=True)
        else:
            model_pull = dict(zip(pull_keys, mo))
    for xi, (xs, f) in enumerate(zip(xsets, xmod_futs)):
        r = f.result()
        mods = xs["mods"]
        run.case("xmod:%s:%s" % (xs["shape"], "+".join(m["name"] for m in mods)))
        run.count("xmod_shape:" + xs["shape"])
        rep = {"files": [m["text"] for m in mods], "shape": xs["shape"],
               "replay_cmd": "asn1c -E -F -print-constraints f0.asn1 f1.asn1 ...  and  asn1c -S skeletons -pdu=all -fcompound-names -D out f0.asn1 ...  in every order of the files"}
        perms = r["perms"]
        base = perms[0]
        run.count("xmod_permutations", len(perms))
        if base["rcG"] == 0:
            run.count("xmod_compiled")
            run.count("xmod_per_type_files", len(base["files"]))
        deviating = []
        for p in perms[1:]:
            why = None
            if (p["rcE"], p["rcG"]) != (base["rcE"], base["rcG"]):
                why = "exit status -E -F %d / code generation %d (first order: %d / %d): %s" % (p["rcE"], p["rcG"], base["rcE"], base["rcG"],
                                                                                               (p["seE"] or p["seG"] or base["seE"] or base["seG"]).strip().split("\n")[-1][:200])
            else:
                dm = sorted(m for m in set(p["pc"]) | set(base["pc"]) if p["pc"].get(m, {}).get("text") != base["pc"].get(m, {}).get("text"))
                dfl = diff_trees(base["files"], p["files"])
                if dm or dfl:
                    k0 = dfl[0] if dfl else None
                    why = {"printed_constraints_differ_in": dm, "files": dfl[:8],
                           "first": first_diff(base["files"].get(k0, b""), p["files"].get(k0, b"")) if k0 else
                                    first_diff(base["pc"].get(dm[0], {}).get("text", ""), p["pc"].get(dm[0], {}).get("text", ""))}
            if why:
                deviating.append((p["perm"], why))
        if deviating:
            run.violation("oracle:file-order", dict(rep, what="exit status, printed constraints or per-type files depend on the order of the input file list "
                          "(constraint resolution across modules)", deviating=[list(map(str, x)) for x in deviating[:4]]))
        else:
            run.count("xmod_order_independent")
        died = [(p["perm"], p["rcE"], p["rcG"]) for p in perms if p["rcE"] < 0 or p["rcG"] < 0]
        if died:      # whatever the order: asn1c must not be killed by a signal (was C12-print-constraints-stale-asn)
            run.violation("oracle:asn1c-killed", dict(rep, what="asn1c -E -F -print-constraints / code generation terminated by a signal on a cross-module "
                          "constraint set", orders=[list(map(str, x)) for x in died[:4]]))
        rcd, dd = r["det"]
        if rcd != base["rcG"] or dd:
            run.violation("oracle:determinism", dict(rep, what="repeated multi-file runs differ (cross-module constraint set)", files=dd[:8]))
        # combined constraints: C vs model (per order) and vs python's order-free evaluation
        if xs["xs"] is not None:
            X = xs["xs"]
            want_py = {}
            for ti, t in enumerate(X.types):
                lv = X.leaves(ti)
                want_py[t["name"]] = None if lv is None else [(("r", str(l[1]), str(l[2])) if l[0] == "L" else ("t", X.types[l[1]]["name"])) for l in lv]
            cbad, obad = [], []
            for p in perms:
                if p["rcE"] != 0:
                    continue
                got = {}
                for mname, mb in p["pc"].items():
                    for tn, info in mb["types"].items():
                        got[tn] = None if info["combined"] is None else constraint_leaves(info["combined"])
                mline = model_pull.get((xi, p["perm"]))
                if mline is not None:
                    run.count("pullup_cases")
                    words = mline.split()
                    if words[:2] != ["wf=true", "ok=true"] or len(words) != 2 + len(X.types):
                        cbad.append((p["perm"], "model refuses the set: " + mline[:100]))
                    else:
                        for ti, t in enumerate(X.types):
                            wm = model_word_leaves(words[2 + ti], X)
                            if got.get(t["name"], "absent") != wm:
                                cbad.append((p["perm"], t["name"], {"model": wm, "c": got.get(t["name"], "absent")}))
                for tn, wl in want_py.items():
                    if got.get(tn, "absent") != wl:
                        obad.append((p["perm"], tn, {"expected": wl, "c": got.get(tn, "absent")}))
            if cbad:
                run.count("model_vs_code_diff")
                run.violation("correspondence:Pullup.combined", dict(rep, what="combined constraints: the resolution model (Fix/Pullup.v, unseeded) and asn1c disagree",
                              diffs=[list(map(str, x)) for x in cbad[:4]]), no_input=not (obad or deviating))
            if obad:
                run.violation("oracle:combined-constraints", dict(rep, what="the combined constraints asn1c prints are not the ones the module set denotes "
                              "(references resolved, parent's constraints first)", diffs=[list(map(str, x)) for x in obad[:4]]))
            if not cbad and not obad:
                run.count("xmod_combined_ok")
    if xsets:
        run.sample({"xmod_set": [m["text"] for m in xsets[0]["mods"]], "shape": xsets[0]["shape"]})

    # 4e. constraint operators: fixpoint over four print/parse rounds (bytes and sizes), model print(parse) vs asn1c -E ------------
    ops_model, mi_model = {}, {}
    if have_model:
        lines, where = [], []
        for mi_, m in enumerate(opsmods):
            for t in m["types"]:
                lines.append("c12_ops 0 " + " ".join(t["toks"]))
                where.append(("ops", mi_))
        mi_results = [f.result() for f in mi_futs]
        for si, (ms, r) in enumerate(zip(misets, mi_results)):
            for p in r["perms"]:
                lines.append(O.modid_model_line(ms, p["perm"]))
                where.append(("mi", si))
        rcm, mo, me = run_lines(model, lines)
        if rcm != 0 or len(mo) != len(lines):
            run.violation("model:driver", {"what": "model driver failed (c12_ops / c12_lookup)", "stderr": me}, no_input=True)
        else:
            for (kind, k), out in zip(where, mo):
                (ops_model if kind == "ops" else mi_model).setdefault(k, []).append(out)
    for i, (m, f) in enumerate(zip(opsmods, ops_futs)):
        O.eval_ops(run, m, f.result(), ops_model.get(i) if (have_model and m["types"]) else None)
    for kind, note in O.ACT_KINDS:
        run.count("act_kind_table:%s:%s" % (kind, note if run.dist.get("act_kind_reached:" + kind) else
                                             ("NOT REACHED" if not note.startswith("unreachable") else note)))
        if not run.dist.get("act_kind_reached:" + kind) and not note.startswith("unreachable"):
            run.violation("harness:act-kind-not-reached", {"what": "no generated case reaches this constraint node kind", "kind": kind}, no_input=True)
    run.sample({"ops_module": opsmods[0]["text"][:600]})
    # 4f. module identity: exit status, diagnostics, printed text, per-type files under every file order; lookup model vs asn1c ---------
    for i, (ms, f) in enumerate(zip(misets, mi_futs)):
        O.eval_modid(run, ms, f.result(), mi_model.get(i) if have_model else None)
    run.sample({"modid_set": dict(misets[0]["files"]), "shape": misets[0]["shape"]})

    # 4g. output directory states: the fresh-directory tree whatever the directory held; decision of identical_files vs the model ----
    dir_results = [f.result() for f in dir_futs]
    dir_model = {}
    if have_model:
        lines, where = [], []
        for ci, r in enumerate(dir_results):
            for (si, fn, ln) in D.entry_lines(dcases[ci], r, cap=40 if quick else 120):
                lines.append(ln)
                where.append((ci, si, fn))
        rcm, mo, me = run_lines(model, lines) if lines else (0, [], "")
        if rcm != 0 or len(mo) != len(lines):
            run.violation("model:driver", {"what": "model driver failed (c12_entry)", "stderr": me}, no_input=True)
        else:
            for (ci, si, fn), out in zip(where, mo):
                dir_model.setdefault(ci, {})[(si, fn)] = out
    for ci, (c, r) in enumerate(zip(dcases, dir_results)):
        D.eval_dir(run, c, r, dir_model.get(ci) if have_model else None)
    run.sample({"outdir_case": {k: v for k, v in dcases[2].items() if k != "text"}, "states": [s_["st"]["label"] for s_ in dir_results[2].get("states", [])][:40]})

    # 5. shipped corpus ------------------------------------------------------
    for p, f in zip(files, corpus_futs):
        r = f.result()
        rel = os.path.relpath(p, REPO_CORPUS)
        if r["E0"] != 0:
            run.count("corpus_not_standalone")
            continue
        src = open(p, "r", errors="replace").read()
        # the property ranges over modern syntax: X.208 leftovers (ANY [DEFINED BY], unnamed
        # components — asn1c itself warns "Obsolete X.208 syntax") are outside the quantifier;
        # decided on the input's features, not on the outcome
        if r["old_syntax"] or re.search(r"\bANY\b", strip_comments(src)):
            run.count("corpus_old_syntax_excluded")
            continue
        run.case("corpus:" + rel)
        run.count("corpus_parsed")
        t1 = r["t1"].decode("latin1")
        rep = {"file": rel, "replay_cmd": "asn1c -E %s > t1; asn1c -E t1 > t2; cmp t1 t2" % rel}
        if not r["E_det"]:
            run.violation("oracle:determinism", dict(rep, what="asn1c -E printed different text on a second run"))
        if r["E1"] != 0 or r["t2"] != r["t1"]:
            cls = classify_corpus_fixpoint(src, t1, r)
            if cls:
                run.known_finding(cls, rel)
                run.count("corpus_known:" + cls)
            else:
                run.violation("oracle:corpus-fixpoint", dict(rep, what="printed corpus module is not accepted or does not print to itself",
                              rc=r["E1"], stderr=r["E1_err"], first_diff=first_diff(r["t1"], r["t2"]) if r["E1"] == 0 else None))
        else:
            run.count("corpus_fixpoint_ok")
        if r.get("F0") == 0 and "F1" in r:
            if r["F1"] != 0:
                if src_has_imports(src):
                    run.known_finding("C12-imports-dropped", rel)
                    run.count("corpus_known:C12-imports-dropped")
                else:
                    run.violation("oracle:corpus-accepted", dict(rep, what="original passes asn1c -E -F, its printed form does not", stderr=r["F1_err"]))
            else:
                run.count("corpus_semantic_ok")


    # 5b. code generation from the shipped corpus: process-image determinism, valgrind, alphabet tables
    for p, f in zip(gfiles, cgen_futs):
        r = f.result()
        rel = os.path.relpath(p, REPO_CORPUS)
        det = r["det"]
        if det["rc0"] != 0:
            run.count("corpus_gen_not_compilable")
        else:
            run.count("corpus_gen_compiled")
            run.case("corpus-gen:" + rel)
        rep = {"file": rel, "replay_cmd": "asn1c -S skeletons -pdu=all -fcompound-names -D out %s  (twice, larger environment the second time; or under valgrind -q)" % rel}
        if report_det(run, rep, det, "shipped corpus file"):
            run.count("corpus_gen_determinism_ok")
        check_tables_in_tree(run, rep, r["tree"])

    # pending correspondence disagreements: did the oracle find a failing input for them?
    bad_oracle = {v.get("module") for v in run.violations if v["kind"].startswith("oracle:")}
    for v in run.violations:
        if v.pop("_pending", False):
            v.pop("_idx", None)
            v["no_failing_input_found"] = v.get("module") not in bad_oracle

    aslr = open("/proc/sys/kernel/randomize_va_space").read().strip() if os.path.exists("/proc/sys/kernel/randomize_va_space") else "?"
    tb = ["Coq 8.16.1 kernel", "axioms under Print Assumptions: " + (", ".join(sorted(axioms)) or "none (Closed under the global context)"),
          "extraction: ExtrOcamlBasic only; OCaml 4.13.1; ocaml/drv_c12.ml, ocaml/drv_c12p.ml (AST readers), ocaml/drv_c12o.ml, ocaml/drv_c12d.ml",
          "checks/c12_dir.py: stale-state generator, directory snapshots (kind, bytes, inode), the expected-tree oracle",
          "checks/c12.py + checks/c12_gen.py: generator, renderer, yacc_norm (the constraint-tree shape yacc builds), file comparison, finding classifiers",
          "asn1c built by vlib.build_asn1c() from the working tree; kernel.randomize_va_space=" + aslr,
          "valgrind " + ("3.19 memcheck (--error-exitcode, leak check off)" if VALGRIND else "NOT AVAILABLE: uninitialised-read oracle skipped") + "; setarch -R " + ("available" if SETARCH else "not available"),
          "determinism / file-order / same-code / corpus fixpoint / alphabet tables are observations of the C process on the generated cases, not theorems; the naming theorems (NameClash) are tied to the C only through the file names of the generated clash sets; the resolution theorems (Pullup) only through the `-- Combined constraints:` lines of -print-constraints for the generated cross-module sets"]
    return run.finish("proof", (nthm, ndis), trusted_base=tb,
                      checker_cmd="make -C /verif all && coqc -Q coq A1 coq/Props/Properties_C12.v",
                      extra_cov={"theorems": names,
                                 "rule4": "also a case: one (base module, option set) pair of the output-directory sweep with all its stale states",
                                 "rule3": "also a case: one cross-module constraint set (2-3 files, 12 shapes of contained-subtype / value-reference chains, every file order)",
                                 "rule2": "also a case: one rich module (text generator, one of 12 option sets), one clash set (2-3 files with cross-module name clashes, every file order), one corpus file compiled to code",
                                 "rule": "a case = one generated module (random AST of the modelled algebra rendered with random layout, comments, UNION/INTERSECTION spellings) or one multi-file module set (all permutations of the file list) or one shipped corpus file",
                                 "observed_not_proved": ["determinism (3 runs per model-algebra module; 5 process shapes incl. valgrind per rich module / clash set / corpus file; ASLR=" + aslr + ")", "valgrind memcheck silent", "permitted-alphabet tables = function of the alphabet", "file-order independence (per-type files; exit status and printed constraints for cross-module constraint sets)", "same generated code for t0 and asn1c -E t0", "corpus fixpoint"],
                                 "traces_validated_against_impl": run.dist.get("faithfulness_cases", 0)},
                      assumptions=["the yacc grammar is not modelled; the reference parser is tied to asn1c only through -E outputs",
                                   "per-type files = generated files carrying the `From ASN.1 module` header; Makefile.am.libasncodec / pdu_collection.c listing order under file permutation is recorded, not compared",
                                   "model-algebra modules are generated with -pdu=all -fcompound-names; rich modules and clash sets with one of 12 option sets",
                                   "module OIDs are outside the naming model (generated clash sets have none)",
                                   "-D spellings: per-type files are compared with the header line quoting the command line removed"])


def model_word_leaves(word, X):
    """a word of the c12_pull answer in the form constraint_leaves gives for the C's text"""
    if word == "N":
        return None
    out = []
    for lf in word[2:].split(","):
        if lf[0] == "L":
            lo, hi = lf[1:].split("..")
            out.append(("r", lo, hi))
        elif lf[0] == "V":
            lo, v = lf[1:].split("..v")
            out.append(("r", lo, X.vals[int(v)]["name"]))
        else:
            out.append(("t", X.types[int(lf[1:])]["name"]))
    return out


def classify_rich_fixpoint(m, t1, rc1, se1):
    """rich modules: the recorded findings whose root-cause predicate the module satisfies, else None"""
    if rc1 != 0 and "Assertion" in se1 and text_has_nested_of_constraint(t1):
        return "C12-nested-of"
    if rc1 == 0 and text_has_triple_paren(m["text"]) and text_has_double_paren_after_print(t1):
        return "C12-paren-collapse"
    return None


def classify_corpus_fixpoint(src, t1, r):
    """returns the id of the recorded finding whose root-cause predicate the file satisfies, else None"""
    if r["E1"] != 0 and "Assertion" in r["E1_err"] and text_has_nested_of_constraint(t1):
        return "C12-nested-of"
    if r["E1"] == 0 and text_has_triple_paren(src) and text_has_double_paren_after_print(t1):
        return "C12-paren-collapse"
    return None


if __name__ == "__main__":
    sys.exit(main(sys.argv[1] if len(sys.argv) > 1 else "quick"))
